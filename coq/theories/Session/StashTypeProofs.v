(* Two reachable-state invariants used by the C07 / C20 trace proofs:
   TS: every message kept by a recovery (resend state, possibly under a pending test request) is a sequence-gated message or a
       gap-fill SequenceReset -- never a Logon, a Logout or a ResendRequest (from KeptProofs.sf_stash);
   BS: every frame in the inbound buffer parses (EArrive is the only event that puts a frame there). *)
From Coq Require Import String.
From Coq Require Import ZArith List Bool Lia.
From QF Require Import Base.Bytes Session.Types Session.Model Session.Spec Session.C01Proofs Session.LocalProofs
  Session.FrameProofs Session.TraceProofs Session.RecoveryProofs Session.ReactionProofs Session.TgProofs Session.MonoProofs
  Session.ResendInvProofs Session.NoReqProofs Session.ChunkProofs Session.TjProofs Session.KeptProofs.
Import ListNotations.
Open Scope list_scope.
Open Scope Z_scope.

(* ---------- TS ---------- *)
Definition TSst (st : sstate) : Prop := forall n x, In (n, x) (stash_of_st st) -> type_ok x = true.
Definition TS (s : sess) : Prop := TSst (s_st s).

Lemma type_ok_not_logon m : type_ok m = true -> beq_bytes (mi_type m) T_LOGON = false.
Proof.
  unfold type_ok, gated_type. intros H. apply orb_true_iff in H as [H|H].
  - apply negb_true_iff in H. repeat (apply orb_false_elim in H as [H ?]). exact H.
  - apply andb_true_iff in H as [H _]. apply beq_bytes_true in H. rewrite H. reflexivity.
Qed.
Lemma type_ok_not_logout m : type_ok m = true -> beq_bytes (mi_type m) T_LOGOUT = false.
Proof.
  unfold type_ok, gated_type. intros H. apply orb_true_iff in H as [H|H].
  - apply negb_true_iff in H. repeat (apply orb_false_elim in H as [H ?]). assumption.
  - apply andb_true_iff in H as [H _]. apply beq_bytes_true in H. rewrite H. reflexivity.
Qed.
Lemma type_ok_not_resendreq m : type_ok m = true -> beq_bytes (mi_type m) T_RESENDREQ = false.
Proof.
  unfold type_ok, gated_type. intros H. apply orb_true_iff in H as [H|H].
  - apply negb_true_iff in H. repeat (apply orb_false_elim in H as [H ?]). assumption.
  - apply andb_true_iff in H as [H _]. apply beq_bytes_true in H. rewrite H. reflexivity.
Qed.

Lemma incoming_ts : forall s m, RI s -> LB s -> TS s -> TS (incoming s (Some m)).
Proof.
  intros s m Hri Hlb Hts n x Hi.
  destruct (incoming_stash s m Hri Hlb) as [P1 _].
  destruct (P1 n x Hi) as [Ho|(-> & _ & _ & Hty)]; [exact (Hts n x Ho) | exact Hty].
Qed.

Lemma step_ts : forall s e, RI s -> LB s -> TS s -> TS (step s e).
Proof.
  intros s e Hri Hlb Hts.
  assert (Hother : match e with EIncoming _ | EDeliver => False | _ => True end -> TS (step s e)).
  { intros He n x Hi. apply (Hts n x). exact (other_event_stash s e He n x Hi). }
  destruct e as [|m0| |m| | |t|t body ok| | |]; try (apply Hother; exact I).
  - (* deliver *)
    unfold step, step_event. set (c := clear_logs s).
    destruct (negb (s_in_open c)); [exact Hts|]. destruct (s_in_buf c) as [|m r]; [exact Hts|].
    set (c1 := upd_chan c (s_out_open c) (s_in_open c) r (s_closed c)).
    destruct m as [mm|].
    + apply (incoming_ts c1 mm); [exact Hri | exact Hlb | exact Hts].
    + unfold incoming, incoming_with. destruct (negb (is_connected (s_st c1))); exact Hts.
  - (* incoming *)
    apply (incoming_ts (clear_logs s) m); [exact Hri | exact Hlb | exact Hts].
Qed.

Lemma init_ts c : TS (init_sess c).
Proof. intros n x []. Qed.

(* ---------- BS ---------- *)
Definition BS (s : sess) : Prop := forall x, In x (s_in_buf s) -> x <> None.

Lemma same_boundary s s1 : Same s s1 -> Boundary s -> Boundary s1.
Proof.
  intros (S1 & S2 & S3 & _ & _ & _ & _ & S8) [B1 B2]. split; intros H; rewrite S8 in H.
  - rewrite S1, S2. apply B1; exact H.
  - rewrite S1, S2, S3. apply B2; exact H.
Qed.

Lemma set_state_in_buf s next : Boundary s -> s_in_buf (set_state s next) = s_in_buf s \/ s_in_buf (set_state s next) = [].
Proof.
  intros Hb. destruct (is_connected next) eqn:En.
  - left. unfold set_state, set_state_with. rewrite En. reflexivity.
  - right. exact (proj2 (proj2 (proj2 (set_state_disconnects s next En Hb)))).
Qed.

Lemma incoming_in_buf s m : Boundary s -> s_in_buf (incoming s m) = s_in_buf s \/ s_in_buf (incoming s m) = [].
Proof.
  intros Hb. unfold incoming, incoming_with. destruct (negb (is_connected (s_st s))); [left; reflexivity|].
  destruct m as [mm|]; [|left; reflexivity].
  destruct (state_fix_msg_in (s_st s) s mm) as [s1 next] eqn:E.
  fold (set_state s1 next).
  pose proof (fr_state_fix_msg_in s _ _ _ _ _ E (same_refl s)) as S1.
  destruct (set_state_in_buf s1 next (same_boundary _ _ S1 Hb)) as [H|H]; [left | right; exact H].
  rewrite H. exact (same_buf _ _ S1).
Qed.

(* how the inbound buffer moves in one event *)
Lemma step_in_buf : forall s e, Boundary s ->
  s_in_buf (step s e) = []
  \/ s_in_buf (step s e) = s_in_buf s
  \/ (exists m, e = EArrive m /\ s_in_buf (step s e) = s_in_buf s ++ [Some m])
  \/ (e = EDeliver /\ exists m, s_in_buf s = m :: s_in_buf (step s e)).
Proof.
  intros s e Hb0. unfold step. change (s_in_buf s) with (s_in_buf (clear_logs s)).
  assert (Hb : Boundary (clear_logs s)) by exact Hb0.
  set (c := clear_logs s) in *. clearbody c. clear Hb0.
  assert (Hss : forall x next, Boundary x -> s_in_buf x = s_in_buf c -> s_in_buf (set_state x next) = [] \/ s_in_buf (set_state x next) = s_in_buf c).
  { intros x next Hbx Hx. destruct (set_state_in_buf x next Hbx) as [H|H]; [right | left; exact H].
    rewrite H. exact Hx. }
  assert (Hsm : forall x, Same c x -> s_in_buf x = [] \/ s_in_buf x = s_in_buf c \/
                 (exists m, e = EArrive m /\ s_in_buf x = s_in_buf c ++ [Some m]) \/ (e = EDeliver /\ exists m, s_in_buf c = m :: s_in_buf x)).
  { intros x Hx. right; left. exact (same_buf _ _ Hx). }
  destruct e; cbn [step_event].
  - unfold connect. destruct (is_connected (s_st c)); [right; left; reflexivity|].
    match goal with |- context [set_sent_reset ?x false] => set (c0 := set_sent_reset x false) end.
    left. assert (H0 : s_in_buf c0 = []) by reflexivity.
    assert (Hfin : forall x, Same c0 x -> s_in_buf (set_state x SLogon) = []).
    { intros x Hx. rewrite (set_state_connected x SLogon eq_refl). cbn [upd_st s_in_buf]. rewrite (same_buf _ _ Hx). exact H0. }
    destruct (negb (initiator c0)); apply Hfin; fr_go.
  - destruct (_ && _); [|right; left; reflexivity]. right; right; left. exists m. split; reflexivity.
  - destruct (negb (s_in_open c)); [right; left; reflexivity|].
    destruct (s_in_buf c) as [|m r] eqn:Eb; [first [left; exact Eb | left; reflexivity | right; left; reflexivity]|].
    set (c1 := upd_chan c (s_out_open c) (s_in_open c) r (s_closed c)).
    assert (Hb1 : Boundary c1).
    { destruct Hb as [B1 B2]. split; cbn [c1 s_st upd_chan s_out_open s_in_open s_in_buf]; intros H; [apply B1; exact H|].
      destruct (B2 H) as (_ & _ & D3). rewrite D3 in Eb. discriminate Eb. }
    destruct (incoming_in_buf c1 m Hb1) as [H|H]; [|left; exact H].
    right; right; right. split; [reflexivity|]. exists m. rewrite H. reflexivity.
  - destruct (incoming_in_buf c (Some m) Hb) as [H|H]; [right; left; exact H | left; exact H].
  - destruct (incoming_in_buf c None Hb) as [H|H]; [right; left; exact H | left; exact H].
  - destruct (is_connected (s_st c)); [|right; left; reflexivity].
    destruct (Hss c SLatent Hb eq_refl) as [H|H]; [left; exact H | right; left; exact H].
  - destruct (state_timeout (s_st c) c e) as [s1 next] eqn:E.
    pose proof (fr_state_timeout c _ _ _ _ _ E (same_refl c)) as S1.
    destruct (Hss s1 next (same_boundary _ _ S1 Hb) (same_buf _ _ S1)) as [H|H]; [left; exact H | right; left; exact H].
  - apply Hsm. fr_go.
  - apply Hsm. fr_go.
  - match goal with |- context [state_stop ?a ?b] => destruct (state_stop a b) as [s1 next] eqn:E end.
    match type of E with state_stop _ ?c0 = _ =>
      pose proof (fr_state_stop c0 _ _ _ _ E (same_refl c0)) as S1; assert (Hb0 : Boundary c0) by exact Hb end.
    destruct (Hss s1 next (same_boundary _ _ S1 Hb0) (same_buf _ _ S1)) as [H|H]; [left; exact H | right; left; exact H].
  - apply Hsm. fr_go.
Qed.

Lemma step_bs : forall s e, Boundary s -> BS s -> BS (step s e).
Proof.
  intros s e Hb Hbs x Hx.
  destruct (step_in_buf s e Hb) as [H|[H|[(m & _ & H)|(_ & m & H)]]].
  - rewrite H in Hx. destruct Hx.
  - rewrite H in Hx. exact (Hbs x Hx).
  - rewrite H in Hx. apply in_app_or in Hx as [Hx|[Hx|[]]]; [exact (Hbs x Hx) | subst x; discriminate].
  - apply Hbs. rewrite H. right. exact Hx.
Qed.

Lemma init_bs c : BS (init_sess c).
Proof. intros x []. Qed.
