(* C04, clause 408 of c04_check: kept messages stay kept while the recovery goes on.
   A step from a logged-on resend state to a logged-on resend state that logs no store reset removes a kept message from the
   stash only by taking it out when it is next in sequence (the drain loop of resendState.FixMsgIn) and handing it to
   inSession.FixMsgIn.
   - The expected number never goes back without a store reset (TjProofs.Adv), so every kept message whose number is
     STRICTLY above the expected number after the step is still kept: clause 408 (`ob_tgt o <? k`) holds on every trace of
     the model, unconditionally: c04_kept_messages_stay_kept; model level: step_keeps_kept_messages_above.
   - A kept message that is taken out moves the expected number past its own number, EXCEPT a kept gap-fill SequenceReset that
     fills nothing (NewSeqNo absent, malformed, or not above its own MsgSeqNum: handleSequenceReset leaves the expected number
     where it is, or rejects the message).  The clause with `ob_tgt o <=? k` (as it was first written; c04_408_le_check below)
     therefore FAILS on the model: c04_kept_messages_stay_kept_with_le_refuted.  It holds on every trace in which every
     gap-fill SequenceReset that arrives announces a NewSeqNo above its own number:
     c04_kept_messages_stay_kept_with_le_partial (invariant AV: every kept / buffered message advances). *)
From Coq Require Import String.
From Coq Require Import ZArith List Bool Lia.
From QF Require Import Base.Bytes Session.Types Session.Model Session.Spec Session.C01Proofs Session.LocalProofs
  Session.FrameProofs Session.TraceProofs Session.RecoveryProofs Session.ReactionProofs Session.TgProofs Session.MonoProofs
  Session.ResendInvProofs Session.NoReqProofs Session.ChunkProofs Session.TjProofs Session.KeptProofs Session.StashTypeProofs.
Import ListNotations.
Open Scope list_scope.
Open Scope Z_scope.

(* ---------- the proviso ---------- *)
(* a gap-fill SequenceReset announces a NewSeqNo above its own number (every other message qualifies) *)
Definition gap_fill_advances (m : minput) : bool :=
  negb (beq_bytes (mi_type m) T_SEQRESET && is_gapfill m)
  || match mi_seq m with
     | FVal n => match mi_newseq m with FVal q => n <? q | _ => false end
     | _ => true
     end.
Definition c04_gap_fills_advance (e : event) : Prop :=
  match e with EIncoming m | EArrive m => gap_fill_advances m = true | _ => True end.

(* ---------- verification of a message that is next in sequence reports no sequence error ---------- *)
Lemma verify_select_seq_err : forall s m hi lo app s1 r,
  verify_select s m hi lo app = (s1, Some r) ->
  match r with
  | RTooHigh recv _ => mi_seq m = FVal recv /\ s_tgt s < recv
  | RTooLow recv _ => mi_seq m = FVal recv /\ recv < s_tgt s
  | _ => True
  end.
Proof.
  intros s m hi lo app s1 r E. unfold verify_select in E.
  destruct (check_begin_string s m) as [r0|] eqn:E1.
  { unfold check_begin_string in E1. destruct (beq_bytes _ _); inversion E1; subst; inversion E; subst; exact I. }
  destruct (check_comp_id s m) as [r0|] eqn:E2.
  { unfold check_comp_id in E2. repeat match type of E2 with context [match ?x with _ => _ end] => destruct x end;
      inversion E2; subst; inversion E; subst; exact I. }
  destruct (match s_st s with SResend _ _ _ => None | _ => check_sending_time s m end) as [r0|] eqn:E3.
  { assert (Hr : check_sending_time s m = Some r0) by (destruct (s_st s); try discriminate; exact E3).
    unfold check_sending_time in Hr. repeat match type of Hr with context [match ?x with _ => _ end] => destruct x end;
      inversion Hr; subst; inversion E; subst; exact I. }
  destruct (if lo then check_target_too_low s m else None) as [r0|] eqn:E4.
  { destruct lo; [|discriminate]. unfold check_target_too_low in E4.
    destruct (mi_seq m) as [| |n]; try (inversion E4; subst; inversion E; subst; exact I).
    destruct (Z.ltb_spec n (s_tgt s)); [|discriminate]. inversion E4; subst. inversion E; subst. split; [reflexivity | assumption]. }
  destruct (if hi then check_target_too_high s m else None) as [r0|] eqn:E5.
  { destruct hi; [|discriminate]. unfold check_target_too_high in E5.
    destruct (mi_seq m) as [| |n]; try (inversion E5; subst; inversion E; subst; exact I).
    destruct (Z.ltb_spec (s_tgt s) n); [|discriminate]. inversion E5; subst. inversion E; subst. split; [reflexivity | assumption]. }
  destruct app; [|inversion E].
  unfold verify_msg_against_app_impl in E.
  destruct (mi_valid m); cbn [rej_of_verdict] in E; try (inversion E; subst; exact I).
  destruct (mi_app m); cbn [rej_of_verdict] in E; inversion E; subst; exact I.
Qed.

Lemma verify_in_sequence_no_seq_err : forall s m hi lo app s1 r,
  mi_seq m = FVal (s_tgt s) -> verify_select s m hi lo app = (s1, Some r) ->
  (forall a b, r <> RTooHigh a b) /\ (forall a b, r <> RTooLow a b).
Proof.
  intros s m hi lo app s1 r Hseq Ev. pose proof (verify_select_seq_err _ _ _ _ _ _ _ Ev) as H.
  split; intros a b ->; destruct H as [Hs Hl]; rewrite Hseq in Hs; inversion Hs; lia.
Qed.

(* ---------- one handler call on a message that is next: reset, logged out, or the expected number is past it ---------- *)
Definition Up (k : Z) (s1 : sess) (next : sstate) : Prop :=
  rst s1 = true \/ is_logged_on next = false \/ k < s_tgt s1.

Lemma up_incr s0 s next : Tj s0 s -> Up (s_tgt s0) (incr_tgt s) next.
Proof.
  intros [_ [H|H]]; [left; rewrite rst_incr; exact H | right; right]. unfold incr_tgt. cbn [s_tgt upd_store]. lia.
Qed.

Lemma up_process_reject s0 s m r s1 next : process_reject s m r = (s1, next) -> Tj s0 s ->
  (forall a b, r <> RTooHigh a b) -> (forall a b, r <> RTooLow a b) -> Up (s_tgt s0) s1 next.
Proof.
  intros E H Hh Hl. destruct r as [a b|a b| | |reason tag bus]; [exfalso; eapply Hh; reflexivity | exfalso; eapply Hl; reflexivity | | |];
    cbn [process_reject] in E.
  - inv E. right; left. reflexivity.
  - inv E. apply up_incr. apply tj_do_reject. exact H.
  - destruct ((reason =? 9) || (reason =? 10)); inv E; [right; left; reflexivity|].
    apply up_incr. apply tj_do_reject. exact H.
Qed.

Lemma type_ok_seqreset_gapfill m : type_ok m = true -> beq_bytes (mi_type m) T_SEQRESET = true -> mi_gapfill m = FVal true.
Proof.
  unfold type_ok, gated_type. intros H Ht. rewrite Ht in H. rewrite !orb_true_r in H. cbn [negb orb andb] in H.
  unfold is_gapfill in H. destruct (mi_gapfill m) as [| |[|]]; try discriminate H. reflexivity.
Qed.

Lemma in_sequence_advances : forall s x s1 next,
  mi_seq x = FVal (s_tgt s) -> type_ok x = true -> gap_fill_advances x = true ->
  in_session_fix_msg_in s x = (s1, next) -> Up (s_tgt s) s1 next.
Proof.
  intros s x s1 next Hseq Hty Hadv E. unfold in_session_fix_msg_in in E.
  rewrite (type_ok_not_logon _ Hty), (type_ok_not_logout _ Hty), (type_ok_not_resendreq _ Hty) in E.
  assert (Hrej : forall hi lo app s' r, verify_select s x hi lo app = (s', Some r) -> process_reject s' x r = (s1, next) ->
            Up (s_tgt s) s1 next).
  { intros hi lo app s' r Ev Ep. destruct (verify_in_sequence_no_seq_err _ _ _ _ _ _ _ Hseq Ev) as [Hh Hl].
    eapply up_process_reject; [exact Ep | eapply tj_verify_select; [exact Ev | apply tj_refl] | exact Hh | exact Hl]. }
  destruct (beq_bytes (mi_type x) T_SEQRESET) eqn:Tsr.
  { (* a kept gap fill *)
    pose proof (type_ok_seqreset_gapfill _ Hty Tsr) as Hgf.
    unfold gap_fill_advances, is_gapfill in Hadv. rewrite Tsr, Hgf, Hseq in Hadv. cbn [andb negb orb] in Hadv.
    unfold handle_sequence_reset in E. rewrite Hgf in E.
    destruct (verify_select s x true true true) as [s' [r|]] eqn:Ev; [eapply Hrej; eassumption|].
    pose proof (tj_verify_select s s x _ _ _ _ _ Ev (tj_refl s)) as [Hr1 Hr2].
    destruct (mi_newseq x) as [| |q]; try discriminate Hadv. apply Z.ltb_lt in Hadv.
    destruct Hr2 as [Hr2|Hr2].
    - left. assert (Hd : rst (do_reject s' x R_value_incorrect_notag) = true)
        by (exact (proj1 (tj_do_reject s' s' x _ (tj_refl s')) Hr2)).
      brk_in E; inv E; first [rewrite rst_set_tgt; exact Hr2 | exact Hd | exact Hr2].
    - replace (s_tgt s' <? q) with true in E by (symmetry; apply Z.ltb_lt; lia). inv E.
      right; right. unfold set_tgt. cbn [s_tgt upd_store]. exact Hadv. }
  destruct (beq_bytes (mi_type x) T_TESTREQ).
  { unfold handle_test_request, verify in E.
    destruct (verify_select s x true true true) as [s' [r|]] eqn:Ev; [eapply Hrej; eassumption|].
    pose proof (tj_verify_select s s x _ _ _ _ _ Ev (tj_refl s)) as Hv. inv E. apply up_incr. tj_go. }
  unfold verify in E.
  destruct (verify_select s x true true true) as [s' [r|]] eqn:Ev; [eapply Hrej; eassumption|].
  pose proof (tj_verify_select s s x _ _ _ _ _ Ev (tj_refl s)) as Hv. inv E. apply up_incr. exact Hv.
Qed.

(* the expected number never goes back without a store reset *)
Lemma in_session_not_back : forall s x s1 next, in_session_fix_msg_in s x = (s1, next) -> rst s1 = true \/ s_tgt s <= s_tgt s1.
Proof.
  intros s x s1 next E. destruct (adv_in_session_fix_msg_in s s x s1 next E (tj_refl s)) as [_ [H|[H|[H|(_ & _ & H)]]]];
    [left; exact H | right; lia | right; lia | right; lia].
Qed.

(* ---------- the stash ---------- *)
Lemma stash_take_other : forall k0 l m l1, stash_take k0 l = Some (m, l1) ->
  forall k, k <> k0 -> In k (keys l) -> In k (keys l1).
Proof.
  induction l as [|[k' m0] r IH]; intros m l1 H k Hne Hk; cbn [stash_take] in H; [discriminate|].
  destruct (Z.eqb_spec k' k0) as [->|Hn].
  - inv H. destruct Hk as [Hk|Hk]; [cbn in Hk; congruence | exact Hk].
  - destruct (stash_take k0 r) as [[y r']|] eqn:Et; [|discriminate]. inv H.
    destruct Hk as [Hk|Hk]; [left; exact Hk | right]. fold (keys r'). eapply IH; [reflexivity | exact Hne | exact Hk].
Qed.

Lemma keys_insert_keeps k recv m l : In k (keys l) -> In k (keys (stash_insert recv m l)).
Proof.
  intros H. apply keys_in in H as [x Hx]. apply keys_in.
  destruct (Z.eq_dec k recv) as [->|Hne].
  - exists m. apply stash_insert_in. left. reflexivity.
  - exists x. apply stash_insert_in. right. split; [exact Hx | exact Hne].
Qed.

(* every kept message is of a kept type and advances *)
Definition adv_list (l : list (Z * minput)) : Prop :=
  forall k x, In (k, x) l -> type_ok x = true /\ gap_fill_advances x = true.

(* what is still kept of l in l' once the expected number is t: everything above t; everything from t on when every kept
   message advances *)
Definition Kept (l : list (Z * minput)) (t : Z) (l' : list (Z * minput)) : Prop :=
  (forall k, In k (keys l) -> t < k -> In k (keys l'))
  /\ (adv_list l -> forall k, In k (keys l) -> t <= k -> In k (keys l')).

Lemma kept_nil t l' : Kept [] t l'.
Proof. split; [intros k [] | intros _ k []]. Qed.
Lemma kept_sub l t l' : (forall k, In k (keys l) -> In k (keys l')) -> Kept l t l'.
Proof. intros H. split; [intros k Hk _; apply H; exact Hk | intros _ k Hk _; apply H; exact Hk]. Qed.

(* ---------- the drain loop ---------- *)
Lemma drain_keeps : forall fuel s l next s2 l' next2,
  resend_drain fuel s l next = (s2, l', next2, true) -> wk l ->
  rst s2 = true
  \/ (s_tgt s <= s_tgt s2 /\ Kept l (s_tgt s2) l' /\ (not_resend_st next2 \/ (s2 = s /\ l' = l /\ next2 = next))).
Proof.
  induction fuel as [|f IH]; intros s l next s2 l' next2 E Hw; cbn [resend_drain] in E.
  - inv E. right. split; [lia|]. split; [apply kept_sub; auto | right; auto].
  - destruct (stash_take (s_tgt s) l) as [[m l1]|] eqn:Et.
    2: { inv E. right. split; [lia|]. split; [apply kept_sub; auto | right; auto]. }
    destruct (stash_take_some _ _ _ _ Et) as (Hin & Hsub & _).
    destruct (in_session_fix_msg_in s m) as [s1 n1] eqn:Ei.
    destruct (Hw _ _ Hin) as [Hseq _].
    pose proof (in_session_in_sequence s m s1 n1 Hseq Ei) as Hnr.
    destruct (is_logged_on n1) eqn:El; cbn [negb] in E; [|inv E].
    pose proof (mo_resend_drain s1 _ _ _ _ _ _ _ _ E (mono_refl s1)) as Hm.
    destruct (in_session_not_back s m s1 n1 Ei) as [Hr|Hle]; [left; eapply mono_rst; eassumption|].
    assert (Hw1 : wk l1) by (eapply wk_sub; eassumption).
    destruct (IH s1 l1 n1 s2 l' next2 E Hw1) as [Hr|(Hle2 & [K1 K2] & Hn2)]; [left; exact Hr|].
    assert (Hup : adv_list l -> rst s2 = true \/ s_tgt s < s_tgt s1).
    { intros Ha. destruct (Ha _ _ Hin) as [Hty Hadv].
      destruct (in_sequence_advances s m s1 n1 Hseq Hty Hadv Ei) as [Hr|[Hf|Hlt]];
        [left; eapply mono_rst; eassumption | congruence | right; exact Hlt]. }
    (* is a store reset logged at the end?  decidable *)
    destruct (rst s2) eqn:Hrst; [left; reflexivity|]. right.
    split; [lia|]. split; [split|].
    + intros k Hk Hlt. apply K1; [|exact Hlt]. eapply stash_take_other; [exact Et | lia | exact Hk].
    + intros Ha k Hk Hlek. destruct (Hup Ha) as [Hr|Hlt]; [discriminate|].
      apply K2; [intros k0 x0 Hx0; apply (Ha k0 x0), Hsub, Hx0 | | exact Hlek].
      eapply stash_take_other; [exact Et | lia | exact Hk].
    + left. destruct Hn2 as [Hn2|(_ & _ & ->)]; [exact Hn2 | exact Hnr].
Qed.

(* ---------- resendState.FixMsgIn: the part after the drain loop ---------- *)
Definition rs_tail (s2 : sess) (st' : option (list (Z * minput))) (next2 : sstate) (cur_end range_end : Z) (m : minput)
  : sess * sstate :=
  if negb (cur_end =? 0) && (cur_end <? s_tgt s2) && (s_tgt s2 <=? range_end) then
    match send_resend_request s2 (s_tgt s2) range_end with
    | (s3, SResend _ c e) => (s3, SResend st' c e)
    | (s3, other) => (s3, other)
    end
  else
  match mi_gapfill m with
  | FBad => (s2, SLatent)
  | gf =>
    let g := match gf with FVal true => true | _ => false end in
    if g && negb (cur_end =? 0) && (cur_end =? s_tgt s2) then
      match send_resend_request s2 (s_tgt s2) range_end with
      | (s3, SResend _ c e) => (s3, SResend st' c e)
      | (s3, other) => (s3, other)
      end
    else if s_tgt s2 <=? range_end then (s2, SResend st' cur_end range_end)
    else (s2, next2)
  end.

Lemma rs_unfold s stash ce re m :
  resend_state_fix_msg_in s stash ce re m =
  let '(s1, next) := in_session_fix_msg_in s m in
  if negb (is_logged_on next) then (s1, next) else
  let st := shared_stash stash next in
  let '(s2, l', next2, still) := resend_drain (S (length (olist st))) s1 (olist st) next in
  if negb still then (s2, next2) else rs_tail s2 (match st with Some _ => Some l' | None => None end) next2 ce re m.
Proof. reflexivity. Qed.

Lemma rs_tail_spec s2 st' next2 ce re m s' next' : rs_tail s2 st' next2 ce re m = (s', next') ->
  Mono s2 s' /\ s_tgt s' = s_tgt s2 /\ (next' = next2 \/ next' = SLatent \/ exists c e, next' = SResend st' c e).
Proof.
  intros E. unfold rs_tail in E.
  assert (Hreq : match send_resend_request s2 (s_tgt s2) re with
                 | (s3, SResend _ c e) => (s3, SResend st' c e)
                 | (s3, other) => (s3, other)
                 end = (s', next') ->
                 Mono s2 s' /\ s_tgt s' = s_tgt s2 /\ (next' = next2 \/ next' = SLatent \/ exists c e, next' = SResend st' c e)).
  { intros Eq. destruct (send_resend_request s2 (s_tgt s2) re) as [s3 st3] eqn:Er.
    destruct (send_resend_request_shape _ _ _ _ _ Er) as (Hx & c3 & -> & _). inv Eq.
    split; [eapply mo_send_resend_request; [exact Er | apply mono_refl]|]. split; [exact Hx|].
    right; right. eexists; eexists; reflexivity. }
  assert (Hsame : forall nx, (nx = next2 \/ nx = SLatent \/ exists c e, nx = SResend st' c e) ->
            Mono s2 s2 /\ s_tgt s2 = s_tgt s2 /\ (nx = next2 \/ nx = SLatent \/ exists c e, nx = SResend st' c e)).
  { intros nx H. split; [apply mono_refl|]. split; [reflexivity | exact H]. }
  destruct (negb (ce =? 0) && (ce <? s_tgt s2) && (s_tgt s2 <=? re)); [apply Hreq; exact E|].
  destruct (mi_gapfill m) as [| |g]; cbv zeta in E.
  - cbn [andb] in E. destruct (s_tgt s2 <=? re); inv E; apply Hsame; [right; right; eexists; eexists; reflexivity | left; reflexivity].
  - inv E. apply Hsame. right; left. reflexivity.
  - destruct (match FVal g with FVal true => true | _ => false end && negb (ce =? 0) && (ce =? s_tgt s2)); [apply Hreq; exact E|].
    destruct (s_tgt s2 <=? re); inv E; apply Hsame; [right; right; eexists; eexists; reflexivity | left; reflexivity].
Qed.

(* ---------- the outcome of one handler call / one event ---------- *)
(* `l` is what was kept before; (x, nx) the session and the state after *)
Definition Out (l : list (Z * minput)) (x : sess) (nx : sstate) : Prop :=
  rst x = true \/ is_logged_on nx = false \/ not_resend_st nx \/ Kept l (s_tgt x) (stash_of_st nx).

Lemma rs_408 : forall s stash ce re m s' next',
  unwrap_pending (s_st s) = SResend stash ce re -> RI s ->
  resend_state_fix_msg_in s stash ce re m = (s', next') -> Out (olist stash) s' next'.
Proof.
  intros s stash ce re m s' next' Hu Hri E.
  destruct stash as [l0|]; [|right; right; right; apply kept_nil].
  cbn [olist]. rewrite rs_unfold in E.
  destruct (in_session_fix_msg_in s m) as [s1 next] eqn:Ei.
  destruct (is_logged_on next) eqn:El; cbn [negb] in E; [|inv E; right; left; exact El].
  unfold RI, RIst in Hri. rewrite Hu in Hri. destruct Hri as (_ & _ & Hnk & Hwk).
  cbv zeta in E.
  destruct (in_session_char s m s1 next Ei) as [Hnr|(recv & Hsq & Hgt & Ep)].
  - (* the processed message is not kept *)
    rewrite (shared_stash_not_resend l0 next Hnr) in E. cbn [olist] in E.
    destruct (resend_drain (S (length l0)) s1 l0 next) as [[[s2 l'] next2] still] eqn:Ed.
    destruct still; cbn [negb] in E.
    2: { inv E. right; right; left.
         exact (proj2 (proj2 (resend_drain_spec _ _ _ _ _ _ _ _ Hwk (Nat.lt_succ_diag_r _) Ed)) eq_refl). }
    destruct (rs_tail_spec _ _ _ _ _ _ _ _ E) as (Hm & Ht & Hnx).
    destruct (drain_keeps _ _ _ _ _ _ _ Ed Hwk) as [Hr|(_ & Hk & Hn2)]; [left; eapply mono_rst; eassumption|].
    destruct Hnx as [->|[->|(c & e & ->)]].
    + right; right; left. destruct Hn2 as [Hn2|(_ & _ & ->)]; assumption.
    + right; left. reflexivity.
    + right; right; right. rewrite Ht, stash_of_resend. exact Hk.
  - (* the processed message is kept under recv: nothing is next in sequence *)
    cbn [process_reject] in Ep. rewrite Hu in Ep. inv Ep. cbn [shared_stash olist] in E.
    cbn [resend_drain] in E. rewrite (take_none_insert _ _ _ _ Hnk Hgt) in E. cbn [negb] in E.
    destruct (rs_tail_spec _ _ _ _ _ _ _ _ E) as (_ & Ht & Hnx).
    assert (Hall : Kept l0 (s_tgt s') (stash_insert recv m l0)) by (apply kept_sub; intros k Hk; apply keys_insert_keeps; exact Hk).
    destruct Hnx as [->|[->|(c & e & ->)]].
    + right; right; right. rewrite stash_of_resend. exact Hall.
    + right; left. reflexivity.
    + right; right; right. rewrite stash_of_resend. exact Hall.
Qed.

Lemma sf_408 : forall st s m s1 next,
  unwrap_pending st = unwrap_pending (s_st s) -> RI s ->
  state_fix_msg_in st s m = (s1, next) -> Out (stash_of_st (s_st s)) s1 next.
Proof.
  induction st as [| | | | | stash c e | j IH]; intros s m s1 next Hu Hri E; cbn [state_fix_msg_in] in E;
    try (assert (Hemp : stash_of_st (s_st s) = []) by (unfold stash_of_st; rewrite <- Hu; reflexivity);
         rewrite Hemp; right; right; right; apply kept_nil).
  - cbn [unwrap_pending] in Hu.
    assert (Ho : stash_of_st (s_st s) = olist stash) by (unfold stash_of_st; rewrite <- Hu; reflexivity).
    rewrite Ho. apply (rs_408 s stash c e m s1 next); [symmetry; exact Hu | exact Hri | exact E].
  - apply (IH s m s1 next); [exact Hu | exact Hri | exact E].
Qed.

Lemma out_refl x : Out (stash_of_st (s_st x)) x (s_st x).
Proof. right; right; right. apply kept_sub. auto. Qed.

Lemma incoming_408 : forall s m, RI s -> let x := incoming s (Some m) in Out (stash_of_st (s_st s)) x (s_st x).
Proof.
  intros s m Hri x. unfold x, incoming, incoming_with.
  destruct (negb (is_connected (s_st s))); [apply out_refl|].
  destruct (state_fix_msg_in (s_st s) s m) as [s1 next] eqn:E.
  pose proof (sf_408 (s_st s) s m s1 next eq_refl Hri E) as Ho.
  rewrite s_st_set_state_with.
  destruct (is_connected next) eqn:Ec.
  - unfold set_state_with. rewrite Ec. cbn [negb]. exact Ho.
  - right; left. destruct (is_logged_on next) eqn:El; [|reflexivity]. apply logged_on_connected in El. congruence.
Qed.

Lemma out_state s x : s_st x = s_st s -> Out (stash_of_st (s_st s)) x (s_st x).
Proof. intros H. rewrite H. right; right; right. apply kept_sub. auto. Qed.

Lemma timeout_logged_on_stash : forall st s t s1 next, state_timeout st s t = (s1, next) ->
  is_logged_on next = false \/ stash_of_st next = stash_of_st st.
Proof.
  intros st s t s1 next E. unfold state_timeout in E.
  destruct st as [| | | | | a b d | j].
  - inv E. left; reflexivity.
  - inv E. left; reflexivity.
  - destruct t; inv E; left; reflexivity.
  - destruct t; inv E; left; reflexivity.
  - unfold in_session_timeout in E. destruct t; inv E; right; reflexivity.
  - unfold in_session_timeout in E. destruct t; inv E; right; reflexivity.
  - destruct t; inv E; first [right; reflexivity | left; reflexivity].
Qed.

(* one event *)
Lemma step_408 : forall s e, RI s -> Out (stash_of_st (s_st s)) (step s e) (s_st (step s e)).
Proof.
  intros s e Hri0. unfold step.
  assert (Hri : RI (clear_logs s)) by exact Hri0.
  change (s_st s) with (s_st (clear_logs s)) at 1.
  set (c := clear_logs s) in *. clearbody c.
  assert (Hnl : forall x, is_logged_on (s_st x) = false -> Out (stash_of_st (s_st c)) x (s_st x)) by (intros x H; right; left; exact H).
  destruct e; cbn [step_event].
  - unfold connect. destruct (is_connected (s_st c)); [apply out_state; reflexivity|].
    destruct (negb (initiator _)); apply Hnl; rewrite s_st_set_state; reflexivity.
  - destruct (_ && _); apply out_state; reflexivity.
  - destruct (negb (s_in_open c)); [apply out_state; reflexivity|].
    destruct (s_in_buf c) as [|m r]; [apply out_state; reflexivity|].
    set (c1 := upd_chan c (s_out_open c) (s_in_open c) r (s_closed c)).
    destruct m as [mm|].
    + apply (incoming_408 c1 mm). exact Hri.
    + unfold incoming, incoming_with. destruct (negb (is_connected (s_st c1))); apply (out_state c); reflexivity.
  - apply (incoming_408 c m). exact Hri.
  - unfold incoming, incoming_with. destruct (negb (is_connected (s_st c))); apply out_state; reflexivity.
  - destruct (is_connected (s_st c)); [|apply out_state; reflexivity]. apply Hnl. rewrite s_st_set_state. reflexivity.
  - destruct (state_timeout (s_st c) c e) as [s1 next] eqn:E. rewrite s_st_set_state.
    destruct (timeout_logged_on_stash _ _ _ _ _ E) as [H|H]; [right; left; exact H|].
    right; right; right. rewrite H. apply kept_sub. auto.
  - apply out_state. assert (H : Same c (queue_for_send c t [] body None ok)) by fr_go. exact (same_st _ _ H).
  - apply out_state. destruct (is_logged_on (s_st c)); [unfold send_queued; destruct (s_out_open c)|]; reflexivity.
  - match goal with |- context [state_stop ?a ?b] => destruct (state_stop a b) as [s1 next] eqn:E end.
    rewrite s_st_set_state. right; right; left. eapply state_stop_not_resend; exact E.
  - apply out_state. destruct (is_connected (s_st c)); [|reflexivity].
    assert (H : Same c (send_logon_in_reply_to c true None)) by fr_go. exact (same_st _ _ H).
Qed.

(* model level, unconditional: every kept message above the expected number stays kept while the recovery goes on *)
Theorem step_keeps_kept_messages_above : forall s e, RI s ->
  is_logged_on (s_st (step s e)) = true -> recovering (s_st (step s e)) -> ~ In CbStoreReset (s_cbs (step s e)) ->
  forall k, In k (keys (stash_of_st (s_st s))) -> s_tgt (step s e) < k -> In k (keys (stash_of_st (s_st (step s e)))).
Proof.
  intros s e Hri Hl (a & b & d & Hrec) Hnr k Hk Hlt.
  destruct (step_408 s e Hri) as [H|[H|[H|[H _]]]].
  - exfalso. apply Hnr. unfold rst, has_reset in H. apply existsb_exists in H as (x & Hx & Hp). destruct x; try discriminate Hp. exact Hx.
  - congruence.
  - exfalso. exact (H _ _ _ Hrec).
  - apply H; assumption.
Qed.

(* ---------- the clause ---------- *)
Definition AVst (st : sstate) : Prop := forall k x, In (k, x) (stash_of_st st) -> gap_fill_advances x = true.

Lemma clause_408_gen : forall (strict : bool) i s e, RI s -> (strict = false -> TS s /\ AVst (s_st s)) ->
  let prev := obs_of s in let o := obs_of (step s e) in
  free_of [408]
    (if sh_is_resend (ob_st prev) && sh_logged_on (ob_st prev) && sh_is_resend (ob_st o) && sh_logged_on (ob_st o)
        && negb (has_reset (ob_cbs o)) then
       flat_map (fun k => if (if strict then ob_tgt o <? k else ob_tgt o <=? k) && negb (existsb (Z.eqb k) (stash_keys (ob_st o)))
                          then [(i, 408)] else [])
                (stash_keys (ob_st prev))
     else []) = true.
Proof.
  intros strict i s e Hri Hav prev o. unfold prev, o. clear prev o.
  change (ob_st (obs_of (step s e))) with (shape_of (s_st (step s e))).
  change (ob_st (obs_of s)) with (shape_of (s_st s)).
  change (ob_tgt (obs_of (step s e))) with (s_tgt (step s e)).
  change (ob_cbs (obs_of (step s e))) with (rev (s_cbs (step s e))).
  match goal with |- free_of _ (if ?x then _ else _) = true => destruct x eqn:Hc; [|reflexivity] end.
  apply andb_true_iff in Hc as [Hc Hnr]. apply andb_true_iff in Hc as [Hc Hlo]. apply andb_true_iff in Hc as [Hc Hro].
  apply negb_true_iff in Hnr. unfold has_reset in Hnr. rewrite existsb_rev in Hnr.
  rewrite sh_logged_on_shape in Hlo. destruct (sh_is_resend_recovering _ Hro) as (a & b & d & Hrec).
  apply free_of_flat_map_in. intros k Hk. rewrite stash_keys_shape in Hk. rewrite stash_keys_shape.
  match goal with |- free_of _ (if ?x && _ then _ else _) = true => destruct x eqn:Hb; [|reflexivity] end.
  replace (existsb (Z.eqb k) (keys (stash_of_st (s_st (step s e))))) with true; [reflexivity|].
  symmetry. apply existsb_eqb_in.
  destruct (step_408 s e Hri) as [H|[H|[H|[K1 K2]]]].
  - unfold rst, has_reset in H. congruence.
  - congruence.
  - exfalso. exact (H _ _ _ Hrec).
  - destruct strict.
    + apply K1; [exact Hk | apply Z.ltb_lt; exact Hb].
    + destruct (Hav eq_refl) as [Hts Ha]. apply K2; [|exact Hk | apply Z.leb_le; exact Hb].
      intros k0 x0 Hx0. split; [exact (Hts k0 x0 Hx0) | exact (Ha k0 x0 Hx0)].
Qed.

(* ---------- invariant AV: every kept and every buffered message advances ---------- *)
Definition AV (s : sess) : Prop :=
  AVst (s_st s) /\ forall mm, In (Some mm) (s_in_buf s) -> gap_fill_advances mm = true.

Lemma step_av : forall s e, Boundary s -> RI s -> LB s -> AV s -> c04_gap_fills_advance e -> AV (step s e).
Proof.
  intros s e Hb Hri Hlb [Hst Hbuf] He. split.
  - (* the stash: what is added is the processed message *)
    assert (Hother : match e with EIncoming _ | EDeliver => False | _ => True end -> AVst (s_st (step s e))).
    { intros Ho n x Hi. apply (Hst n x). exact (other_event_stash s e Ho n x Hi). }
    destruct e as [|m0| |m| | |t|t body ok| | |]; try (apply Hother; exact I).
    + unfold step, step_event.
      assert (Hbuf' : forall mm, In (Some mm) (s_in_buf (clear_logs s)) -> gap_fill_advances mm = true) by exact Hbuf.
      set (c := clear_logs s) in *.
      destruct (negb (s_in_open c)); [exact Hst|]. destruct (s_in_buf c) as [|m r]; [exact Hst|].
      set (c1 := upd_chan c (s_out_open c) (s_in_open c) r (s_closed c)).
      destruct m as [mm|].
      * intros n x Hi. destruct (incoming_stash c1 mm Hri Hlb) as [P1 _].
        destruct (P1 n x Hi) as [Ho|(-> & _)]; [exact (Hst n x Ho) | apply Hbuf'; left; reflexivity].
      * unfold incoming, incoming_with. destruct (negb (is_connected (s_st c1))); exact Hst.
    + intros n x Hi. destruct (incoming_stash (clear_logs s) m Hri Hlb) as [P1 _].
      destruct (P1 n x Hi) as [Ho|(-> & _)]; [exact (Hst n x Ho) | exact He].
  - (* the buffer: what is added is the arriving message *)
    intros mm Hm. destruct (step_in_buf s e Hb) as [H|[H|[(m & -> & H)|(_ & m & H)]]].
    + rewrite H in Hm. destruct Hm.
    + rewrite H in Hm. exact (Hbuf mm Hm).
    + rewrite H in Hm. apply in_app_or in Hm as [Hm|[Hm|[]]]; [exact (Hbuf mm Hm)|]. inv Hm. exact He.
    + apply (Hbuf mm). rewrite H. right. exact Hm.
Qed.

Lemma init_av c : AV (init_sess c).
Proof. split; [intros k x [] | intros mm []]. Qed.

(* ---------- trace level: clause 408 of c04_check ---------- *)
Lemma c04_scan_408 : forall es s i kept, RI s -> LB s ->
  free_of [408] (c04_scan (s_cfg s) i kept (obs_of s) (combine es (map obs_of (run_trace es s)))) = true.
Proof.
  induction es as [|e r IH]; intros s i kept Hri Hlb; cbn [run_trace map combine]; [reflexivity|].
  cbn [c04_scan]. rewrite !free_of_app. repeat (apply andb_true_iff; split).
  - free_rest.
  - free_rest.
  - free_rest.
  - free_rest.
  - free_rest.
  - apply (clause_408_gen true i s e Hri). discriminate.
  - free_rest.
  - rewrite <- (step_cfg (s_cfg s) s e eq_refl) at 1. apply IH; [apply step_ri | apply step_lb]; assumption.
Qed.

(* C04, trace level: on every trace of the model -- every configuration, every event list --, while the recovery goes on
   without a store reset, every kept message whose number is above the expected number after the step stays kept *)
Theorem c04_kept_messages_stay_kept : forall c es,
  free_of [408] (c04_check c (combine es (map obs_of (run_trace es (init_sess c))))) = true.
Proof. intros c es. unfold c04_check. apply (c04_scan_408 es (init_sess c)); [apply init_ri | apply init_lb]. Qed.

(* ---------- the clause with `<=` (as it was first written) ---------- *)
(* clause 408 with `ob_tgt o <=? k` in place of `ob_tgt o <? k`: it also demands the key EQUAL to the expected number after
   the step.  It fails on the model (and on the implementation): a kept gap fill that fills nothing is taken out and processed
   when it is next in sequence, and leaves the expected number where it is. *)
Definition c04_408_le_event (i : nat) (prev o : obs) : list failure :=
  if sh_is_resend (ob_st prev) && sh_logged_on (ob_st prev) && sh_is_resend (ob_st o) && sh_logged_on (ob_st o)
     && negb (has_reset (ob_cbs o)) then
    flat_map (fun k => if (ob_tgt o <=? k) && negb (existsb (Z.eqb k) (stash_keys (ob_st o))) then [(i, 408)] else [])
             (stash_keys (ob_st prev))
  else [].
Fixpoint c04_408_le_scan (i : nat) (prev : obs) (tr : list (event * obs)) : list failure :=
  match tr with
  | [] => []
  | (e, o) :: r => c04_408_le_event i prev o ++ c04_408_le_scan (S i) o r
  end.
Definition c04_408_le_check (c : cfg) (tr : list (event * obs)) : list failure := c04_408_le_scan O (init_obs c) tr.

Lemma le_event_ok i s e : RI s -> TS s -> AVst (s_st s) -> c04_408_le_event i (obs_of s) (obs_of (step s e)) = [].
Proof.
  intros Hri Hts Hav. pose proof (clause_408_gen false i s e Hri (fun _ => conj Hts Hav)) as H. cbv zeta in H.
  unfold c04_408_le_event.
  match goal with |- (if ?x then _ else _) = [] => destruct x; [|reflexivity] end.
  induction (stash_keys (ob_st (obs_of s))) as [|k r IH]; [reflexivity|].
  cbn [flat_map] in *. rewrite free_of_app in H. apply andb_true_iff in H as [H1 H2].
  rewrite (IH H2), app_nil_r.
  match goal with |- (if ?x then _ else _) = [] => destruct x; [|reflexivity] end.
  discriminate H1.
Qed.

Lemma c04_408_le_scan_ok : forall es s i, Boundary s -> RI s -> LB s -> TS s -> AV s -> Forall c04_gap_fills_advance es ->
  c04_408_le_scan i (obs_of s) (combine es (map obs_of (run_trace es s))) = [].
Proof.
  induction es as [|e r IH]; intros s i Hb Hri Hlb Hts Hav Hq; cbn [run_trace map combine c04_408_le_scan]; [reflexivity|].
  inversion Hq as [|? ? Hq1 Hqr]; subst.
  rewrite (le_event_ok i s e Hri Hts (proj1 Hav)). cbn [app].
  apply IH; [apply step_boundary | apply step_ri | apply step_lb | apply step_ts | apply step_av | ]; assumption.
Qed.

(* the `<=` clause holds on every trace in which every gap-fill SequenceReset that arrives (processed directly or through the
   inbound buffer) announces a NewSeqNo above its own MsgSeqNum *)
Theorem c04_kept_messages_stay_kept_with_le_partial : forall c es,
  Forall c04_gap_fills_advance es ->
  c04_408_le_check c (combine es (map obs_of (run_trace es (init_sess c)))) = [].
Proof.
  intros c es Hq. unfold c04_408_le_check.
  apply (c04_408_le_scan_ok es (init_sess c)); [apply init_boundary | apply init_ri | apply init_lb | apply init_ts | apply init_av | exact Hq].
Qed.

(* a gap-fill SequenceReset numbered n announcing NewSeqNo q *)
Definition c04x_gap_fill (n q : Z) : minput :=
  {| mi_type := T_SEQRESET; mi_begin := B "FIX.4.2"; mi_sender := Some (B "T"); mi_target := Some (B "S"); mi_seq := FVal n;
     mi_possdup := FAbsent; mi_stime := FVal 0; mi_otime := FAbsent; mi_gapfill := FVal true; mi_newseq := FVal q;
     mi_beginseq := FAbsent; mi_endseq := FAbsent; mi_reset := FAbsent; mi_hbint := FVal 30; mi_testreq := None;
     mi_applver := None; mi_route := []; mi_body := []; mi_app := VAccept; mi_valid := VAccept; mi_refuse := [] |}.

(* Logon; application message 10 (gap 2..9 requested, 10 kept); gap fill 3 -> q arrives early and is kept under 3;
   Heartbeat 2 arrives: the expected number becomes 3, the kept gap fill is taken out and processed.  With q = 3 (NewSeqNo =
   expected) nothing changes, with q = 2 it is rejected (Reject, value is incorrect): the session still expects 3, still
   recovers 3..9, and nothing is kept under 3 any more *)
Definition c04x_empty_gap_fill_trace (q : Z) : list event :=
  [EConnect; EIncoming (c04x_msg T_LOGON 1); EIncoming (c04x_msg (B "D") 10); EIncoming (c04x_gap_fill 3 q);
   EIncoming (c04x_msg T_HEARTBEAT 2)].
Lemma c04x_empty_gap_fill_trace_states :
  map (fun o => (ob_st (snd o), ob_tgt (snd o), map o_type (ob_wire (snd o)))) (c04x_run (c04x_cfg 0) (c04x_empty_gap_fill_trace 3))
  = [(ShLogon, 1, []); (ShInSession, 2, [T_LOGON]); (ShResend true [10] 0 9, 2, [T_RESENDREQ]);
     (ShResend true [3; 10] 0 9, 2, []); (ShResend true [10] 0 9, 3, [])]
  /\ map (fun o => map o_type (ob_wire (snd o))) (c04x_run (c04x_cfg 0) (c04x_empty_gap_fill_trace 2))
     = [[]; [T_LOGON]; [T_RESENDREQ]; []; [T_REJECT]].
Proof. vm_compute. split; reflexivity. Qed.

Example c04_kept_messages_stay_kept_with_le_refuted :
  exists c es, c04_408_le_check c (combine es (map obs_of (run_trace es (init_sess c)))) = [(4%nat, 408)]
               /\ c04_check c (combine es (map obs_of (run_trace es (init_sess c)))) = [].
Proof. exists (c04x_cfg 0), (c04x_empty_gap_fill_trace 3). vm_compute. split; reflexivity. Qed.
Example c04_kept_messages_stay_kept_with_le_refuted_rejected :
  c04_408_le_check (c04x_cfg 0) (c04x_run (c04x_cfg 0) (c04x_empty_gap_fill_trace 2)) = [(4%nat, 408)]
  /\ c04_check (c04x_cfg 0) (c04x_run (c04x_cfg 0) (c04x_empty_gap_fill_trace 2)) = [].
Proof. vm_compute. split; reflexivity. Qed.

(* the guard of clause 408 is exercised: with a gap fill that does advance (3 -> 5) the same trace keeps 10 and passes 3 *)
Example c04x_advancing_gap_fill_trace_keeps :
  map (fun o => (ob_st (snd o), ob_tgt (snd o))) (c04x_run (c04x_cfg 0) (c04x_empty_gap_fill_trace 5))
  = [(ShLogon, 1); (ShInSession, 2); (ShResend true [10] 0 9, 2); (ShResend true [3; 10] 0 9, 2); (ShResend true [10] 0 9, 5)]
  /\ Forall c04_gap_fills_advance (c04x_empty_gap_fill_trace 5)
  /\ c04_408_le_check (c04x_cfg 0) (c04x_run (c04x_cfg 0) (c04x_empty_gap_fill_trace 5)) = [].
Proof. split; [vm_compute; reflexivity|]. split; [repeat constructor | vm_compute; reflexivity]. Qed.
