(* Specification predicates of the session properties as boolean functions over an observed trace
   (DESIGN 2.5).  They are evaluated (extracted) on what the IMPLEMENTATION did, and the theorems in
   Props/ state that they hold of every trace of the model.  A failure is (event index, code). *)
From Coq Require Import String.
From Coq Require Import ZArith List Bool.
From QF Require Import Base.Bytes Session.Types Session.Model.
Import ListNotations.
Open Scope string_scope.
Open Scope list_scope.
Open Scope Z_scope.

(* observable shape of the state *)
Inductive sshape :=
| ShLatent | ShNotSession | ShLogon | ShLogout | ShInSession
| ShResend (has_map : bool) (keys : list Z) (cur_end range_end : Z)
| ShPending (i : sshape).

Fixpoint shape_of (st : sstate) : sshape :=
  match st with
  | SLatent => ShLatent | SNotSessionTime => ShNotSession | SLogon => ShLogon | SLogout => ShLogout
  | SInSession => ShInSession
  | SResend stash c e => ShResend (match stash with Some _ => true | None => false end)
                                  (match stash with Some l => map fst l | None => [] end) c e
  | SPending i => ShPending (shape_of i)
  end.

Record obs := {
  ob_cbs : list cb;          (* chronological *)
  ob_wire : list omsg;       (* chronological *)
  ob_closed : bool;
  ob_snd : Z;
  ob_tgt : Z;
  ob_st : sshape;
  ob_tosend : Z;
  ob_stopped : bool;
  ob_hb : Z;
  ob_inbuf : Z
}.

Definition obs_of (s : sess) : obs :=
  {| ob_cbs := rev (s_cbs s); ob_wire := rev (s_wire s); ob_closed := s_closed s; ob_snd := s_snd s; ob_tgt := s_tgt s;
     ob_st := shape_of (s_st s); ob_tosend := Z.of_nat (length (s_to_send s)); ob_stopped := s_stopped s; ob_hb := s_hb s;
     ob_inbuf := Z.of_nat (length (s_in_buf s)) |}.

Definition init_obs (c : cfg) : obs := obs_of (init_sess c).

Fixpoint sh_logged_on (s : sshape) : bool :=
  match s with ShInSession | ShResend _ _ _ _ => true | ShPending i => sh_logged_on i | _ => false end.
Fixpoint sh_connected (s : sshape) : bool :=
  match s with ShInSession | ShResend _ _ _ _ | ShLogon | ShLogout => true | ShPending i => sh_connected i | _ => false end.
Fixpoint sh_unwrap (s : sshape) : sshape := match s with ShPending i => sh_unwrap i | _ => s end.
Fixpoint zlist_beq (a b : list Z) : bool :=
  match a, b with [], [] => true | x :: a', y :: b' => (x =? y)%Z && zlist_beq a' b' | _, _ => false end.
Fixpoint sh_beq (a b : sshape) : bool :=
  match a, b with
  | ShLatent, ShLatent | ShNotSession, ShNotSession | ShLogon, ShLogon | ShLogout, ShLogout | ShInSession, ShInSession => true
  | ShResend m1 k1 c1 e1, ShResend m2 k2 c2 e2 => Bool.eqb m1 m2 && zlist_beq k1 k2 && (c1 =? c2)%Z && (e1 =? e2)%Z
  | ShPending x, ShPending y => sh_beq x y
  | _, _ => false
  end.
Definition sh_is_resend (s : sshape) : bool := match sh_unwrap s with ShResend _ _ _ _ => true | _ => false end.
Definition sh_is_pending (s : sshape) : bool := match s with ShPending _ => true | _ => false end.

Definition failure := (nat * Z)%type.

(* ---------------------------------------------------------------------------------------------- *)
(* C01: in order, exactly once.  `lb` = lowest number that may still be handed over in this epoch. *)
Definition consumes (v : verdict) : bool :=
  match v with VReject r _ _ => negb ((r =? 9) || (r =? 10)) | _ => true end.

Fixpoint c01_scan_cbs (lb : Z) (l : list cb) : option Z :=
  match l with
  | [] => Some lb
  | CbFromApp (FVal n) t v _ :: r =>
      if (n =? t) && (lb <=? n) then c01_scan_cbs (if consumes v then n + 1 else n) r else None
  | CbFromApp _ _ _ _ :: _ => None
  | CbStoreReset :: r => c01_scan_cbs 1 r
  | _ :: r => c01_scan_cbs lb r
  end.

Definition has_reset (l : list cb) : bool := existsb (fun c => match c with CbStoreReset => true | _ => false end) l.

(* codes: 101 handed over out of order / not at the expected number / twice; 102 expected number behind a consumed
   hand-over; 103 expected number moved backwards without a reset *)
Fixpoint c01_scan (i : nat) (lb prev_tgt : Z) (os : list obs) : list failure :=
  match os with
  | [] => []
  | o :: r =>
      match c01_scan_cbs lb (ob_cbs o) with
      | None => [(i, 101)]
      | Some lb' =>
          (if lb' <=? ob_tgt o then [] else [(i, 102)])
          ++ (if has_reset (ob_cbs o) || (prev_tgt <=? ob_tgt o) then [] else [(i, 103)])
          ++ c01_scan (S i) lb' (ob_tgt o) r
      end
  end.
Definition c01_check (os : list obs) : list failure := c01_scan O 1 1 os.

(* ---------------------------------------------------------------------------------------------- *)
(* helpers over wire messages *)
Definition field_of (t : Z) (l : list (Z * bytes)) : option bytes :=
  match find (fun f => fst f =? t) l with Some (_, v) => Some v | None => None end.
Definition is_type (t : bytes) (m : omsg) : bool := beq_bytes (o_type m) t.
Definition wire_types (l : list omsg) : list bytes := map o_type l.
Definition is_possdup (m : omsg) : bool := match field_of 43 (o_hdr m) with Some v => beq_bytes v (B "Y") | None => false end.
Definition opt_beq (a : option bytes) (b : bytes) : bool := match a with Some x => beq_bytes x b | None => false end.
Fixpoint beq_types (a b : list bytes) : bool :=
  match a, b with
  | [], [] => true
  | x :: a', y :: b' => beq_bytes x y && beq_types a' b'
  | _, _ => false
  end.

(* which message an event processes directly (the inbound channel being empty) *)
Definition direct_msg (e : event) (prev : obs) : option minput :=
  match e with
  | EIncoming m => Some m
  | _ => None
  end.

(* header checks of session.go as the specification reads them *)
Definition hdr_begin_ok (c : cfg) (m : minput) : bool := beq_bytes (mi_begin m) (begin_string (c_begin c)).
Definition hdr_compid_ok (c : cfg) (m : minput) : bool :=
  match mi_sender m, mi_target m with
  | Some s, Some t => beq_bytes (c_sender c) t && beq_bytes (c_target c) s
  | _, _ => false
  end.
Definition hdr_time_ok (c : cfg) (stime : fres Z) : bool :=
  c_skip_latency c || match stime with FVal d => (d <? c_max_latency c) && (- c_max_latency c <? d) | _ => false end.

(* ---------------------------------------------------------------------------------------------- *)
(* C06 gate: a callback (other than FromAdmin for a Logon) implies the header checks and validation passed; a Logon
   establishes the session (OnLogon) only if it passes them (c06_logon_gate). *)
Definition gate_ok (c : cfg) (resend_ctx : bool) (f : mfacts) : bool :=
  beq_bytes (mf_begin f) (begin_string (c_begin c))
  && match mf_sender f, mf_target f with
     | Some s, Some t => beq_bytes (c_sender c) t && beq_bytes (c_target c) s
     | _, _ => false
     end
  && (resend_ctx || hdr_time_ok c (mf_stime f))
  && match mf_valid f with VAccept => true | _ => false end.

Definition c06_gate_cbs (c : cfg) (resend_ctx : bool) (l : list cb) : bool :=
  forallb (fun x => match x with
                    | CbFromApp _ _ _ f => gate_ok c resend_ctx f
                    | CbFromAdmin t _ f => beq_bytes t T_LOGON || gate_ok c resend_ctx f
                    | _ => true
                    end) l.

(* the Logon of an event in which the session was established passes the gate (evaluated when the event handed exactly one
   Logon to FromAdmin, so that the Logon that established the session is identified) *)
Definition c06_logon_gate (c : cfg) (resend_ctx : bool) (l : list cb) : bool :=
  if existsb (fun x => match x with CbOnLogon => true | _ => false end) l then
    match filter (fun x => match x with CbFromAdmin t _ _ => beq_bytes t T_LOGON | _ => false end) l with
    | [CbFromAdmin _ _ f] => gate_ok c resend_ctx f
    | _ => true
    end
  else true.

(* reaction table for a directly processed, sequence-gated message in a logged-on, non-recovering session.
   Returns the expected (wire types, reject reason, reject ref tag, expected-number delta, next shape is Logout) or None
   when the message has no header defect of the listed kinds. *)
Definition gated_type (t : bytes) : bool :=
  negb (beq_bytes t T_LOGON || beq_bytes t T_LOGOUT || beq_bytes t T_RESENDREQ || beq_bytes t T_SEQRESET).

Inductive reaction :=
| ReLogout                                   (* Logout only, expected number unchanged *)
| ReRejectLogout (reason : Z)                (* Reject(reason) then Logout, unchanged *)
| ReReject (reason : Z) (tag : Z).           (* plain Reject naming the field, expected number + 1 *)

Definition header_defect (c : cfg) (tgt : Z) (m : minput) : option reaction :=
  if negb (hdr_begin_ok c m) then Some ReLogout else
  match mi_sender m, mi_target m with
  | None, _ => Some (ReReject 1 49)
  | _, None => Some (ReReject 1 56)
  | Some s, Some t =>
      if Nat.eqb (length t) 0 then Some (ReReject 4 56)
      else if Nat.eqb (length s) 0 then Some (ReReject 4 49)
      else if negb (beq_bytes (c_sender c) t && beq_bytes (c_target c) s) then Some (ReRejectLogout 9)
      else
        match (if c_skip_latency c then None else
               match mi_stime m with
               | FAbsent => Some (ReReject 1 52)
               | FBad => Some (ReReject 6 52)
               | FVal d => if (c_max_latency c <=? d) || (d <=? - c_max_latency c) then Some (ReRejectLogout 10) else None
               end) with
        | Some r => Some r
        | None =>
            match mi_seq m with
            | FAbsent => Some (ReReject 1 34)
            | FBad => Some (ReReject 6 34)
            | FVal n =>
                if n <? tgt then
                  match mi_possdup m with
                  | FAbsent | FVal false => Some ReLogout
                  | _ => None
                  end
                else None
            end
        end
  end.

Definition reject_reason_of (c : cfg) (m : omsg) : option bytes := field_of 373 (o_body m).

Definition c06_reaction_ok (c : cfg) (prev o : obs) (m : minput) (r : reaction) : bool :=
  let b := c_begin c in
  match r with
  | ReLogout =>
      beq_types (wire_types (ob_wire o)) [T_LOGOUT] && (ob_tgt o =? ob_tgt prev)
      && match ob_st o with ShLogout => true | _ => false end
  | ReRejectLogout reason =>
      beq_types (wire_types (ob_wire o)) [T_REJECT; T_LOGOUT] && (ob_tgt o =? ob_tgt prev)
      && match ob_st o with ShLogout => true | _ => false end
      && match ob_wire o with
         | rj :: _ => if 2 <=? b then opt_beq (field_of 373 (o_body rj)) (itoa reason) else true
         | [] => false
         end
  | ReReject reason tag =>
      beq_types (wire_types (ob_wire o)) [T_REJECT] && (ob_tgt o =? ob_tgt prev + 1)
      && match ob_wire o with
         | rj :: _ => if 2 <=? b then opt_beq (field_of 373 (o_body rj)) (itoa reason) && opt_beq (field_of 371 (o_body rj)) (itoa tag)
                      else true
         | [] => false
         end
  end.

(* reject shape: RefSeqNum quotes the offending number; routing fields reversed *)
Definition c06_reject_shape (m : minput) (rj : omsg) : bool :=
  match mi_seq m with
  | FVal n => opt_beq (field_of 45 (o_body rj)) (itoa n)
  | _ => match field_of 45 (o_body rj) with None => true | Some _ => false end
  end
  && forallb (fun f => opt_beq (field_of (fst f) (o_hdr rj)) (snd f)) (reverse_route m)
  && forallb (fun f => existsb (fun g => fst g =? fst f) (reverse_route m)
                        || negb (existsb (Z.eqb (fst f)) [50; 57; 142; 143; 115; 128; 116; 129; 144; 145])) (o_hdr rj).

(* an event that handles at most ONE buffered frame besides the message it processes directly: the session is still connected
   afterwards (no disconnect, hence no drain of messageIn), or at most one frame was buffered before it (two for EDeliver,
   which takes one out first).  Such an event handles everything in the state before the event.  An event that drains two or
   more frames at a disconnect handles them in changing states (in session -> resend -> ...) that the observations before
   and after the event do not show. *)
Definition no_drain (e : event) (prev o : obs) : bool :=
  sh_connected (ob_st o) || (ob_inbuf prev <=? match e with EDeliver => 2 | _ => 1 end).

(* codes: 601 callback for a message that fails the gate; 602 wrong reaction to a header defect; 603 reject shape;
   604 a Logon failing the session-level checks established the session.
   resend_ctx (the SendingTime clause of the gate is waived): a replay is in progress before or after the event, or the event
   may have handled several frames in states that are not observed (negb no_drain): there only the clock-free gate is demanded. *)
Fixpoint c06_scan (c : cfg) (i : nat) (prev : obs) (tr : list (event * obs)) : list failure :=
  match tr with
  | [] => []
  | (e, o) :: r =>
      let resend_ctx := sh_is_resend (ob_st prev) || sh_is_resend (ob_st o) || negb (no_drain e prev o) in
      (if c06_gate_cbs c resend_ctx (ob_cbs o) then [] else [(i, 601)])
      ++ (if c06_logon_gate c resend_ctx (ob_cbs o) then [] else [(i, 604)])
      ++ match e with
         | EIncoming m =>
             if sh_logged_on (ob_st prev) && negb (sh_is_resend (ob_st prev)) && negb (sh_is_pending (ob_st prev))
                && (ob_inbuf prev =? 0) && gated_type (mi_type m) && (ob_tosend prev =? 0)
             then
               (match header_defect c (ob_tgt prev) m with
                | Some re => if c06_reaction_ok c prev o m re then [] else [(i, 602)]
                | None => []
                end)
               ++ (if forallb (fun w => negb (is_type T_REJECT w) || c06_reject_shape m w) (ob_wire o) then [] else [(i, 603)])
             else []
         | _ => []
         end
      ++ c06_scan c (S i) o r
  end.
Definition c06_check (c : cfg) (tr : list (event * obs)) : list failure := c06_scan c O (init_obs c) tr.

(* ---------------------------------------------------------------------------------------------- *)
(* C04: one exact ResendRequest per gap; nothing kept is lost; recovery ends. *)
Definition end_marker (c : cfg) (t recv : Z) : Z :=
  let chunk := c_chunk c in
  if negb (chunk =? 0) && (t + chunk - 1 <? recv - 1) then t + chunk - 1
  else if c_begin c <? 2 then 999999 else 0.

Definition resend_requests (l : list omsg) : list omsg := filter (is_type T_RESENDREQ) l.
Definition rr_is (m : omsg) (b e : Z) : bool :=
  opt_beq (field_of 7 (o_body m)) (itoa b) && opt_beq (field_of 16 (o_body m)) (itoa e).

Definition msg_passes_header (c : cfg) (tgt : Z) (m : minput) : bool :=
  match header_defect c tgt m with None => true | Some _ => false end.

Definition is_gapfill (m : minput) : bool := match mi_gapfill m with FVal true => true | _ => false end.

(* codes: 401 gap in normal operation not answered by exactly the right request / message not kept;
   402 a request while recovering that is not the next chunk at the expected number; 403 a kept message that is next in
   sequence was not delivered; 404 still recovering although the expected number is past the range; 405 a kept application
   message was dropped: the expected number passed it without a hand-over; 406 a timer event changed the recovery bookkeeping; 407 an early message
   arriving during a recovery was not kept *)
Definition stash_keys (s : sshape) : list Z := match sh_unwrap s with ShResend true keys _ _ => keys | _ => [] end.
Definition kept_lookup (k : Z) (kept : list (Z * minput)) : option minput :=
  match find (fun e => fst e =? k) kept with Some (_, m) => Some m | None => None end.
Definition delivered (k : Z) (l : list cb) : bool :=
  existsb (fun x => match x with CbFromApp (FVal n) _ _ _ => n =? k | _ => false end) l.

Fixpoint c04_scan (c : cfg) (i : nat) (kept : list (Z * minput)) (prev : obs) (tr : list (event * obs)) : list failure :=
  match tr with
  | [] => []
  | (e, o) :: r =>
      (match e with
       | EIncoming m =>
           match mi_seq m with
           | FVal n =>
               if (ob_inbuf prev =? 0) && (ob_tosend prev =? 0) && gated_type (mi_type m) && msg_passes_header c (ob_tgt prev) m
                  && (ob_tgt prev <? n) && match mi_valid m with VAccept => true | _ => false end
               then
                 match ob_st prev with
                 | ShInSession =>
                     let rrs := resend_requests (ob_wire o) in
                     if (match rrs with [rq] => rr_is rq (ob_tgt prev) (end_marker c (ob_tgt prev) n) | _ => false end)
                        && (ob_tgt o =? ob_tgt prev)
                        && match ob_st o with ShResend _ keys _ re => existsb (Z.eqb n) keys && (re =? n - 1) | _ => false end
                     then [] else [(i, 401)]
                 | _ => []
                 end
               else []
           | _ => []
           end
       | _ => []
       end)
      (* 402 is evaluated on events that handle at most one frame: nothing buffered before the event, or the session still
         connected after it (an event that ends disconnected first handles every buffered frame, each of which may
         legitimately complete a chunk and request the next one) *)
      ++ (if sh_is_resend (ob_st prev) && sh_logged_on (ob_st prev) && ((ob_inbuf prev =? 0) || sh_connected (ob_st o)) then
            match sh_unwrap (ob_st prev) with
            | ShResend _ _ cur rend =>
                (* a ResendRequest created in this step (ToAdmin "2") must be the next chunk at the expected number *)
                let created := length (filter (fun x => match x with CbToAdmin t => beq_bytes t T_RESENDREQ | _ => false end) (ob_cbs o)) in
                if Nat.eqb created 0 then []
                else if negb (c_chunk c =? 0) && negb (cur =? 0) && (cur <=? ob_tgt o) && (ob_tgt o <=? rend) && Nat.eqb created 1
                        && match rev (resend_requests (ob_wire o)) with
                           | rq :: _ => opt_beq (field_of 7 (o_body rq)) (itoa (ob_tgt o))
                           | [] => true
                           end
                then [] else [(i, 402)]
            | _ => []
            end
          else [])
      (* 406: a timer event never changes the recovery bookkeeping (kept messages, chunk end, range end) while the session
         stays logged on *)
      ++ (match e with
          | ETimeout _ =>
              if sh_is_resend (ob_st prev) && sh_logged_on (ob_st prev) && sh_logged_on (ob_st o)
                 && negb (sh_beq (sh_unwrap (ob_st o)) (sh_unwrap (ob_st prev))) then [(i, 406)] else []
          | _ => []
          end)
      ++ (match sh_unwrap (ob_st o) with
          | ShResend true keys _ re =>
              (if existsb (Z.eqb (ob_tgt o)) keys then [(i, 403)] else [])
              ++ (if re <? ob_tgt o then [(i, 404)] else [])
          | ShResend false _ _ re => if re <? ob_tgt o then [(i, 404)] else []
          | _ => []
          end)
      (* 405: a kept application message whose number was passed in this step was handed to the application *)
      ++ (if sh_logged_on (ob_st o) || match ob_st o with ShLogout => true | _ => false end then
            flat_map (fun k =>
              (* not when the peer itself skipped the number with a SequenceReset beyond it *)
              let jumped := match e with
                            | EIncoming m => beq_bytes (mi_type m) T_SEQRESET && match mi_newseq m with FVal q => k <? q | _ => false end
                            | _ => true
                            end in
              (* ... or with a kept SequenceReset delivered in this step that starts below k and ends beyond it *)
              let jumped_by_kept := existsb (fun e0 => (ob_tgt prev <=? fst e0) && (fst e0 <? k) && beq_bytes (mi_type (snd e0)) T_SEQRESET
                                                      && match mi_newseq (snd e0) with FVal q => k <? q | _ => false end) kept in
              (* ... or possibly with a kept message whose content the scan does not know (it arrived through the buffer) *)
              let jumped_unknown := existsb (fun n => (ob_tgt prev <=? n) && (n <? k) && negb (existsb (fun e0 => fst e0 =? n) kept))
                                            (stash_keys (ob_st prev)) in
              if negb jumped && negb jumped_by_kept && negb jumped_unknown && (ob_tgt prev <=? k) && (k <? ob_tgt o) && negb (existsb (Z.eqb k) (stash_keys (ob_st o))) then
                match kept_lookup k kept with
                | Some m => if negb (is_admin (mi_type m)) && msg_passes_header c k m
                               && match mi_valid m with VAccept => true | _ => false end
                               && negb (delivered k (ob_cbs o)) && negb (has_reset (ob_cbs o))
                            then [(i, 405)] else []
                | None => []
                end
              else []) (stash_keys (ob_st prev))
          else [])
      (* 408: while the recovery goes on (recovering before and after the step, logged on, no store reset in the step) every
         kept message whose number has not been reached stays kept: asking for the next chunk, a gap fill, a duplicate, a
         rejected message or a timer never empties the stash.  A kept message that was next in sequence has been processed
         even when it did not advance the expected number -- a kept gap fill whose NewSeqNo is not above its own number is
         rejected (or changes nothing) --, so only keys strictly above the new expected number are demanded *)
      ++ (if sh_is_resend (ob_st prev) && sh_logged_on (ob_st prev) && sh_is_resend (ob_st o) && sh_logged_on (ob_st o)
             && negb (has_reset (ob_cbs o)) then
            flat_map (fun k => if (ob_tgt o <? k) && negb (existsb (Z.eqb k) (stash_keys (ob_st o))) then [(i, 408)] else [])
                     (stash_keys (ob_st prev))
          else [])
      (* 407: while recovering, a sequence-gated message above the expected number that passes the header checks is kept
         under its number, whatever started the recovery (a gap on the Logon included): nothing is requested, the expected
         number stays *)
      ++ (match e with
          | EIncoming m =>
              match mi_seq m with
              | FVal n =>
                  if sh_is_resend (ob_st prev) && sh_logged_on (ob_st prev) && (ob_inbuf prev =? 0)
                     && gated_type (mi_type m) && msg_passes_header c (ob_tgt prev) m && (ob_tgt prev <? n)
                  then if existsb (Z.eqb n) (stash_keys (ob_st o)) && (ob_tgt o =? ob_tgt prev)
                          && Nat.eqb (length (resend_requests (ob_wire o))) 0
                       then [] else [(i, 407)]
                  else []
              | _ => []
              end
          | _ => []
          end)
      ++ c04_scan c (S i)
           (match e with
            | EIncoming m => match mi_seq m with
                             | FVal n => (* kept (or replacing what was kept) under n: a gated message above the expected number.
                                            It is recorded only when it passes the header checks (then it is the message the engine
                                            keeps); otherwise what sits under n is no longer known and the record for n is dropped *)
                                         let kept0 := filter (fun e0 => existsb (Z.eqb (fst e0)) (stash_keys (ob_st o))) kept in
                                         if existsb (Z.eqb n) (stash_keys (ob_st o)) && (ob_tgt prev <? n)
                                            && (gated_type (mi_type m) || (beq_bytes (mi_type m) T_SEQRESET && is_gapfill m))
                                         then (if msg_passes_header c (ob_tgt prev) m then (n, m) :: kept0
                                               else filter (fun e0 => negb (fst e0 =? n)) kept0)
                                         else kept0
                             | _ => filter (fun e0 => existsb (Z.eqb (fst e0)) (stash_keys (ob_st o))) kept
                             end
            | EDeliver => (* a buffered frame was processed: what is kept under the surviving keys is no longer known *)
                          filter (fun e0 => negb (existsb (Z.eqb (fst e0)) (stash_keys (ob_st o)))) kept
            | _ => filter (fun e0 => existsb (Z.eqb (fst e0)) (stash_keys (ob_st o))) kept
            end) o r
  end.
Definition c04_check (c : cfg) (tr : list (event * obs)) : list failure := c04_scan c O [] (init_obs c) tr.

(* ---------------------------------------------------------------------------------------------- *)
(* C07: continuity and agreed resets. *)
Definition no_reset_option (c : cfg) : bool :=
  negb (c_reset_on_logon c || c_reset_on_logout c || c_reset_on_disconnect c).
Definition is_initiator (c : cfg) : bool := match c_role c with Initiator => true | Acceptor => false end.

(* codes: 701 disconnect changed the store; 702 connect changed the store beyond the Logon it sent; 703 a sent Logon that
   resets is not number 1 with 141=Y / counters not 2,1; 704 lower NewSeqNo changed the expected number or was not rejected;
   705 a reset without any cause (no reset option, no 141=Y seen or sent); 706 reset on logout/disconnect did not return both
   counters to 1; 707 the first Logon written in reply to an accepted Logon carrying 141=Y does not
   echo the flag as number 1, or the next sender number is not 2 (3 when the received Logon is itself numbered above 1: a
   ResendRequest was queued as number 2); 710 with ResetOnLogout a Logout
   that passed verification (handed to FromAdmin and accepted) did not reset the store, whatever its number *)
Definition logon_resets (m : omsg) : bool := is_type T_LOGON m && opt_beq (field_of 141 (o_body m)) (B "Y").

Fixpoint c07_scan (c : cfg) (i : nat) (sent141 : bool) (prev : obs) (tr : list (event * obs)) : list failure :=
  match tr with
  | [] => []
  | (e, o) :: r =>
      (match e with
       | EInClosed =>
           if (ob_inbuf prev =? 0) && negb (c_reset_on_disconnect c)
           then if (ob_snd o =? ob_snd prev) && (ob_tgt o =? ob_tgt prev) && negb (has_reset (ob_cbs o)) then [] else [(i, 701)]
           else if (ob_inbuf prev =? 0) && c_reset_on_disconnect c && sh_connected (ob_st prev)
           then if (ob_snd o =? 1) && (ob_tgt o =? 1) then [] else [(i, 706)]
           else []
       | EConnect =>
           if sh_connected (ob_st prev) then
             (if (ob_snd o =? ob_snd prev) && (ob_tgt o =? ob_tgt prev) && negb (has_reset (ob_cbs o)) then [] else [(i, 702)])
           else if negb (is_initiator c) then
             (if (ob_snd o =? ob_snd prev) && (ob_tgt o =? ob_tgt prev) && negb (has_reset (ob_cbs o)) then [] else [(i, 702)])
           else
             match ob_wire o with
             | [lg] =>
                 if logon_resets lg then
                   (if (o_seq lg =? 1) && (ob_snd o =? 2) && (ob_tgt o =? 1) then [] else [(i, 703)])
                 else if c_reset_on_logon c then
                   (if (o_seq lg =? 1) && (ob_snd o =? 2) && (ob_tgt o =? 1) then [] else [(i, 703)])
                 else
                   (if (o_seq lg =? ob_snd prev) && (ob_snd o =? ob_snd prev + 1) && (ob_tgt o =? ob_tgt prev)
                       && negb (has_reset (ob_cbs o)) then [] else [(i, 702)])
             | _ => [(i, 702)]
             end
       | EIncoming m =>
           (if beq_bytes (mi_type m) T_SEQRESET && (ob_inbuf prev =? 0) && sh_logged_on (ob_st prev) && negb (sh_is_resend (ob_st prev))
               && negb (sh_is_pending (ob_st prev)) && (ob_tosend prev =? 0) then
              match mi_newseq m, mi_gapfill m with
              | FVal n, (FAbsent | FVal _) =>
                  let g := is_gapfill m in
                  if (n <? ob_tgt prev) && msg_passes_header c (if g then ob_tgt prev else -1) m
                     && match mi_valid m, mi_app m with VAccept, VAccept => true | _, _ => false end
                     && (if g then match mi_seq m with FVal q => q =? ob_tgt prev | _ => false end else true)
                  then if (ob_tgt o =? ob_tgt prev) && beq_types (wire_types (ob_wire o)) [T_REJECT] then [] else [(i, 704)]
                  else []
              | _, _ => []
              end
            else [])
           ++ (if beq_bytes (mi_type m) T_LOGON && match mi_reset m with FVal true => true | _ => false end
                  && (ob_inbuf prev =? 0) && match ob_st prev with ShLogon => true | _ => false end
                  && negb (is_initiator c) && existsb (fun x => match x with CbOnLogon => true | _ => false end) (ob_cbs o)
               then match filter (is_type T_LOGON) (ob_wire o) with
                    | lg :: _ =>
                        (* next sender number: 2, or 3 when the received Logon is itself numbered above 1 (MsgSeqNum too high
                           against the fresh store: the ResendRequest queued by doTargetTooHigh took number 2) *)
                        if logon_resets lg && (o_seq lg =? 1)
                           && (ob_snd o =? match mi_seq m with FVal n => if 1 <? n then 3 else 2 | _ => 2 end)
                        then [] else [(i, 707)]
                    | [] => [(i, 707)]
                    end
               else [])
           ++ (if beq_bytes (mi_type m) T_LOGOUT && c_reset_on_logout c && (ob_inbuf prev =? 0)
                  && (sh_logged_on (ob_st prev) || match ob_st prev with ShLogout => true | _ => false end)
                  && existsb (fun x => match x with CbFromAdmin t _ _ => beq_bytes t T_LOGOUT | _ => false end) (ob_cbs o)
                  && match mi_app m with VAccept => true | _ => false end
               then if (ob_snd o =? 1) && (ob_tgt o =? 1) && has_reset (ob_cbs o) then [] else [(i, 710)]
               else [])
       | _ => []
       end)
      (* 708: any Logon the engine transmits with ResetSeqNumFlag=Y is number 1 (whatever made it send one) *)
      ++ (if forallb (fun w => negb (logon_resets w) || (o_seq w =? 1)) (ob_wire o) then [] else [(i, 708)])
      (* 709: a Logon carrying ResetSeqNumFlag=Y that is accepted resets the store, unless it echoes a reset Logon WE sent on
         this connection (sent141) *)
      ++ (match e with
          | EIncoming m =>
              if beq_bytes (mi_type m) T_LOGON && match mi_reset m with FVal true => true | _ => false end
                 && (ob_inbuf prev =? 0) && match ob_st prev with ShLogon => true | _ => false end
                 && existsb (fun x => match x with CbOnLogon => true | _ => false end) (ob_cbs o)
                 && negb sent141 && negb (has_reset (ob_cbs o))
              then [(i, 709)] else []
          | _ => []
          end)
      ++ c07_scan c (S i)
           (match e with
            | EConnect => if sh_connected (ob_st prev) then sent141 else existsb logon_resets (ob_wire o)
            | _ => sent141 || existsb logon_resets (ob_wire o)
            end) o r
  end.
Definition c07_check (c : cfg) (tr : list (event * obs)) : list failure := c07_scan c O false (init_obs c) tr.

(* ---------------------------------------------------------------------------------------------- *)
(* C08: traffic only inside a completed logon.  Automaton over the chronological callbacks and wire of one connection. *)
Definition engine_type (t : bytes) : bool := is_admin t || beq_bytes t T_BUSREJECT.

(* per-connection automaton state *)
Record c08_st := { k_connected : bool; k_first_sent : bool; k_logged : bool; k_logout_sent : bool; k_open_logons : Z }.
Definition c08_init : c08_st := {| k_connected := false; k_first_sent := false; k_logged := false; k_logout_sent := false; k_open_logons := 0 |}.

(* codes: 801 first message on a connection is neither Logon nor Logout; 802 first-time application message outside the
   logged-on interval; 803 FromApp outside OnLogon..OnLogout; 804 OnLogout without a matching OnLogon on a connection whose
   handshake completed (a second logout notification); 805 something written after the connection was closed;
   806 logged-on period ended without a logout notification *)
Definition c08_wire_step (k : c08_st) (m : omsg) : c08_st * list Z :=
  let errs1 := if k_connected k then [] else [805] in
  let errs2 := if k_first_sent k then [] else
                 if is_type T_LOGON m || is_type T_LOGOUT m then [] else [801] in
  let first_time_app := negb (engine_type (o_type m)) && negb (is_possdup m) in
  let errs3 := if first_time_app && (negb (k_logged k) || k_logout_sent k) then [802] else [] in
  ({| k_connected := k_connected k; k_first_sent := true; k_logged := k_logged k;
      k_logout_sent := k_logout_sent k || is_type T_LOGOUT m; k_open_logons := k_open_logons k |}, errs1 ++ errs2 ++ errs3).

Definition c08_cb_step (k : c08_st) (c : cb) : c08_st * list Z :=
  match c with
  | CbOnLogon => ({| k_connected := k_connected k; k_first_sent := k_first_sent k; k_logged := true;
                     k_logout_sent := k_logout_sent k; k_open_logons := 1 |}, [])
  | CbOnLogout =>
      ({| k_connected := k_connected k; k_first_sent := k_first_sent k; k_logged := false;
          k_logout_sent := k_logout_sent k; k_open_logons := 0 |},
       if k_logged k || negb (k_first_sent k && (0 <? k_open_logons k + 1)) then [] else [])
  | CbFromApp _ _ _ _ => (k, if k_logged k then [] else [803])
  | _ => (k, [])
  end.

Fixpoint fold_steps {A} (f : c08_st -> A -> c08_st * list Z) (k : c08_st) (l : list A) : c08_st * list Z :=
  match l with
  | [] => (k, [])
  | x :: r => let '(k1, e1) := f k x in let '(k2, e2) := fold_steps f k1 r in (k2, e1 ++ e2)
  end.

(* number of OnLogout notifications in one event after the first: a logged-on period must end with exactly one *)
Definition count_onlogout (l : list cb) : nat := length (filter (fun c => match c with CbOnLogout => true | _ => false end) l).
Fixpoint fromapp_after_logout (seen : bool) (l : list cb) : bool :=
  match l with
  | [] => false
  | CbOnLogout :: r => fromapp_after_logout true r
  | CbOnLogon :: r => fromapp_after_logout false r
  | CbFromApp _ _ _ _ :: r => seen || fromapp_after_logout seen r
  | _ :: r => fromapp_after_logout seen r
  end.

Fixpoint c08_scan (i : nat) (k : c08_st) (tr : list (event * obs)) : list failure :=
  match tr with
  | [] => []
  | (e, o) :: r =>
      let k0 := match e with
                | EConnect => if k_connected k then k
                              else {| k_connected := true; k_first_sent := false; k_logged := false; k_logout_sent := false; k_open_logons := 0 |}
                | _ => k
                end in
      (* callbacks first, then wire, except that wire written before the close belongs to the connection *)
      let was_logged := k_logged k0 in
      let '(k1, e1) := fold_steps c08_cb_step k0 (ob_cbs o) in
      let kw := {| k_connected := k_connected k0; k_first_sent := k_first_sent k0;
                   k_logged := k_logged k0 || existsb (fun c => match c with CbOnLogon => true | _ => false end) (ob_cbs o);
                   k_logout_sent := k_logout_sent k0; k_open_logons := k_open_logons k0 |} in
      let '(k2, e2) := fold_steps c08_wire_step kw (ob_wire o) in
      let k3 := {| k_connected := k_connected k0 && negb (ob_closed o); k_first_sent := k_first_sent k2; k_logged := k_logged k1;
                   k_logout_sent := k_logout_sent k2; k_open_logons := k_open_logons k1 |} in
      let e3 := if Nat.ltb 1 (count_onlogout (ob_cbs o)) && negb (existsb (fun c => match c with CbOnLogon => true | _ => false end) (ob_cbs o))
                then [804] else [] in
      let e4 := if ob_closed o && k_logged k1 then [806] else [] in
      let e1' := if fromapp_after_logout false (ob_cbs o) then 803 :: filter (fun x => negb (x =? 803)) e1 else e1 in
      map (fun code => (i, code)) (e1' ++ e2 ++ e3 ++ e4) ++ c08_scan (S i) k3 r
  end.
Definition c08_check (tr : list (event * obs)) : list failure := c08_scan O c08_init tr.

(* ---------------------------------------------------------------------------------------------- *)
(* C20: keep-alive. *)
Definition heartbeats (l : list omsg) : list omsg := filter (is_type T_HEARTBEAT) l.
Definition test_requests (l : list omsg) : list omsg := filter (is_type T_TESTREQ) l.
Definition subset_keys (a b : list Z) : bool := forallb (fun k => existsb (Z.eqb k) b) a.

(* codes: 2001 TestRequest not echoed by exactly one Heartbeat with its id / number not consumed; 2002 heartbeat timer:
   not exactly one Heartbeat (or one sent while a test request is pending); 2003 peer timer: no TestRequest / state not pending;
   2004 second peer timeout did not disconnect and notify; 2005 inbound message did not cancel the pending disconnect, or it
   disturbed the recovery (kept messages lost / an extra ResendRequest); 2006 acceptor did not take the peer's HeartBtInt *)
Fixpoint c20_scan (c : cfg) (i : nat) (prev : obs) (tr : list (event * obs)) : list failure :=
  match tr with
  | [] => []
  | (e, o) :: r =>
      (match e with
       | EIncoming m =>
           (if beq_bytes (mi_type m) T_TESTREQ && sh_logged_on (ob_st prev) && negb (sh_is_resend (ob_st prev)) && (ob_inbuf prev =? 0)
               && (ob_tosend prev =? 0)
               && msg_passes_header c (ob_tgt prev) m && match mi_seq m with FVal n => n =? ob_tgt prev | _ => false end
               && match mi_valid m, mi_app m with VAccept, VAccept => true | _, _ => false end
            then match mi_testreq m with
                 | Some id => if (match heartbeats (ob_wire o) with [h] => opt_beq (field_of 112 (o_body h)) id | _ => false end)
                                 && (ob_tgt o =? ob_tgt prev + 1) then [] else [(i, 2001)]
                 | None => []
                 end
            else [])
           ++ (if sh_is_pending (ob_st prev) && (ob_inbuf prev =? 0) && sh_logged_on (ob_st o)
               then (if sh_is_pending (ob_st o) && negb (existsb (is_type T_TESTREQ) (ob_wire o)) then [(i, 2005)] else [])
                    ++ match sh_unwrap (ob_st prev), sh_unwrap (ob_st o) with
                       | ShResend true keys cur _, ShResend _ keys' _ _ =>
                           if subset_keys (filter (fun k => ob_tgt o <? k) keys) keys'
                              && forallb (fun rq => negb (cur =? 0) && (cur <=? ob_tgt o)) (resend_requests (ob_wire o))
                           then [] else [(i, 2005)]
                       | _, _ => []
                       end
               else [])
           ++ (if beq_bytes (mi_type m) T_LOGON && negb (is_initiator c) && negb (c_hb_override c)
                  && match ob_st prev with ShLogon => true | _ => false end && (ob_inbuf prev =? 0)
                  && existsb (fun x => match x with CbOnLogon => true | _ => false end) (ob_cbs o)
               then match mi_hbint m with FVal h => if ob_hb o =? h then [] else [(i, 2006)] | _ => [] end
               else [])
       | EDeliver =>
           (* a buffered frame is processed (and it is the only one): the pending disconnect is cancelled as well *)
           if sh_is_pending (ob_st prev) && (ob_inbuf prev =? 1) && (ob_inbuf o =? 0) && sh_logged_on (ob_st o) && sh_is_pending (ob_st o)
              && negb (existsb (is_type T_TESTREQ) (ob_wire o))
           then [(i, 2005)] else []
       | ETimeout NeedHeartbeat =>
           if sh_logged_on (ob_st prev) then
             if sh_is_pending (ob_st prev) then (if Nat.eqb (length (ob_wire o)) 0 then [] else [(i, 2002)])
             else if (ob_tosend prev =? 0) then
               (match ob_wire o with
                | [h] => if is_type T_HEARTBEAT h && match field_of 112 (o_body h) with None => true | Some _ => false end then [] else [(i, 2002)]
                | _ => [(i, 2002)]
                end)
             else []
           else []
       | ETimeout PeerTimeout =>
           if sh_logged_on (ob_st prev) then
             if sh_is_pending (ob_st prev) then
               (if negb (sh_connected (ob_st o)) && existsb (fun x => match x with CbOnLogout => true | _ => false end) (ob_cbs o) && ob_closed o
                then [] else [(i, 2004)])
             else if (ob_tosend prev =? 0) then
               (if (match ob_wire o with [t] => is_type T_TESTREQ t | _ => false end) && sh_is_pending (ob_st o) then [] else [(i, 2003)])
             else []
           else []
       | _ => []
       end)
      ++ c20_scan c (S i) o r
  end.
Definition c20_check (c : cfg) (tr : list (event * obs)) : list failure := c20_scan c O (init_obs c) tr.

(* ---------------------------------------------------------------------------------------------- *)
(* C03: the reply to a ResendRequest.  `hist` = stored outbound messages (number, message) before the request. *)
Fixpoint dec_digits (d : bytes) (n : Z) : Z := match d with [] => n | c :: r => dec_digits r (n * 10 + (c - 48)) end.
Definition dec_z (v : bytes) : Z := match v with 45 :: r => - dec_digits r 0 | _ => dec_digits v 0 end.

Fixpoint zrange (from : Z) (n : nat) : list Z := match n with O => [] | S k => from :: zrange (from + 1) k end.

Definition clip_end (c : cfg) (snd e0 : Z) : Z :=
  let b := c_begin c in
  if ((2 <=? b) && (e0 =? 0)) || ((b <=? 2) && (e0 =? 999999)) || (snd <=? e0) then snd - 1 else e0.

(* a stored number that must be replayed: an application message the application does not refuse *)
Definition replayable (hist : list (Z * omsg)) (refuse : list Z) (k : Z) : bool :=
  match lookup_msg k hist with
  | Some sm => negb (is_admin (o_type sm)) && negb (existsb (Z.eqb k) refuse)
  | None => false
  end.

Definition body_eq (a b : list (Z * bytes)) : bool :=
  (fix go (x y : list (Z * bytes)) : bool :=
     match x, y with
     | [], [] => true
     | (t1, v1) :: x', (t2, v2) :: y' => (t1 =? t2) && beq_bytes v1 v2 && go x' y'
     | _, _ => false
     end) a b.

(* walk the reply: `pos` = next number that must be covered.  Some end position, or None with a code. *)
Fixpoint c03_chain (hist : list (Z * omsg)) (refuse : list Z) (pos : Z) (reply : list omsg) : Z + Z :=
  match reply with
  | [] => inl pos
  | m :: r =>
      if negb (is_possdup m) then inr 301
      else if negb (o_seq m =? pos) then inr 302
      else if is_type T_SEQRESET m then
        match field_of 36 (o_body m), field_of 123 (o_body m) with
        | Some v, Some g =>
            let t := dec_z v in
            if negb (beq_bytes g (B "Y")) then inr 303
            else if t <=? pos then inr 303
            else if (t - pos <=? 5000) && existsb (replayable hist refuse) (zrange pos (Z.to_nat (t - pos))) then inr 304
            else c03_chain hist refuse t r
        | _, _ => inr 303
        end
      else
        match lookup_msg pos hist with
        | Some sm =>
            if negb (replayable hist refuse pos) then inr 305
            else if negb (beq_bytes (o_type sm) (o_type m) && body_eq (o_body sm) (o_body m)) then inr 306
            else if negb (opt_beq (field_of 122 (o_hdr m)) (B "T")) then inr 307
            else c03_chain hist refuse (pos + 1) r
        | None => inr 305
        end
  end.

(* codes: 301 reply message without PossDupFlag=Y; 302 coverage not contiguous / does not start at BeginSeqNo; 303 malformed gap
   fill; 304 gap fill skips a message that had to be replayed; 305 replay of a number that is administrative, refused or unknown;
   306 replayed body or type differs from the original; 307 no OrigSendingTime; 308 coverage does not end at min(e,last)+1;
   309 something sent for an empty or inverted range *)
Definition c03_reply_check (c : cfg) (hist : list (Z * omsg)) (snd : Z) (m : minput) (reply : list omsg) : list Z :=
  match mi_beginseq m, mi_endseq m with
  | FVal b, FVal e0 =>
      let e := clip_end c snd e0 in
      if b <? 1 then []
      else if e <? b then match reply with [] => [] | _ => [309] end
      else match c03_chain hist (mi_refuse m) b reply with
           | inr code => [code]
           | inl fin => if fin =? e + 1 then [] else [308]
           end
  | _, _ => []
  end.

(* the trace predicate for C03: the reply to every ResendRequest that is processed directly by a logged-on, non-recovering
   session with nothing queued or buffered, that passes the header checks and that the validator and the application
   accept, is judged by c03_reply_check against the store as it was before the request.  The store contents are not part
   of an observation: they are taken from the model run alongside (the correspondence compares the counters and every
   message written, so the implementation's store is the model's as long as the traces agree). *)
Definition c03_recovering (st : sstate) : bool := match unwrap_pending st with SResend _ _ _ => true | _ => false end.
Definition c03_ok_ctx (s : sess) (m : minput) : bool :=
  is_logged_on (s_st s) && negb (c03_recovering (s_st s))
  && Nat.eqb (length (s_to_send s)) 0 && Nat.eqb (length (s_in_buf s)) 0
  && match check_begin_string s m, check_comp_id s m with None, None => true | _, _ => false end
  && match check_sending_time s m with None => true | _ => false end
  && match mi_valid m, mi_app m with VAccept, VAccept => true | _, _ => false end.
Fixpoint c03_scan (i : nat) (s : sess) (tr : list (event * obs)) : list failure :=
  match tr with
  | [] => []
  | (e, o) :: r =>
      (match e with
       | EIncoming m =>
           if beq_bytes (mi_type m) T_RESENDREQ && c03_ok_ctx s m
           then map (fun c => (i, c))
                    (c03_reply_check (s_cfg s) (s_msgs s) (s_snd s) m (filter (fun w => negb (is_type T_RESENDREQ w)) (ob_wire o)))
           else []
       | _ => []
       end) ++ c03_scan (S i) (step s e) r
  end.
Definition c03_check (c : cfg) (tr : list (event * obs)) : list failure := c03_scan O (init_sess c) tr.
