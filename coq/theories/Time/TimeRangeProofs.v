(* C18 lemmas: the model of internal/time_range.go against the window specification (TimeRangeSpec.v). *)
From Coq Require Import ZArith List Bool Lia ZifyBool.
From QF Require Import Time.TimeRange Time.TimeRangeSpec.
Import ListNotations.
Open Scope Z_scope.
Ltac Zify.zify_post_hook ::= Z.div_mod_to_equations.

(* ---------- weekday lists ---------- *)
Lemma tr_weekday_found_In : forall day wds, tr_weekday_found day wds = true <-> In day wds.
Proof.
  intros day wds. induction wds as [|w rest IH]; cbn [tr_weekday_found In].
  - split; [discriminate | contradiction].
  - destruct (day =? w) eqn:E.
    + split; [intros _; left; lia | reflexivity].
    + rewrite IH. split; [intros H; right; exact H | intros [H|H]; [lia | exact H]].
Qed.

Lemma tr_existsb_eqb_In : forall day wds, existsb (Z.eqb day) wds = true <-> In day wds.
Proof.
  intros day wds. rewrite existsb_exists. split.
  - intros [x [Hin Hx]]. apply Z.eqb_eq in Hx. subst x. exact Hin.
  - intros Hin. exists day. split; [exact Hin | apply Z.eqb_refl].
Qed.

Lemma tr_day_allowed_spec : forall wds wd, tr_day_allowed wds wd = true <-> (wds = [] \/ In wd wds).
Proof.
  intros wds wd. destruct wds as [|w rest].
  - cbn. split; [intros _; left; reflexivity | reflexivity].
  - unfold tr_day_allowed. rewrite tr_existsb_eqb_In.
    split; [intros H; right; exact H | intros [H|H]; [discriminate | exact H]].
Qed.

Lemma tr_is_in_weekdays_allowed : forall r day, tr_is_in_weekdays r day = tr_day_allowed (tr_weekdays r) day.
Proof.
  intros r day. apply eq_true_iff_eq. rewrite tr_day_allowed_spec.
  unfold tr_is_in_weekdays. destruct (tr_weekdays r) as [|w rest] eqn:E.
  - cbn. split; [intros _; left; reflexivity | reflexivity].
  - replace (0 <? Z.of_nat (length (w :: rest))) with true by (cbn [length]; lia).
    destruct (tr_weekday_found day (w :: rest)) eqn:F; cbn [negb].
    + apply tr_weekday_found_In in F. split; [intros _; right; exact F | reflexivity].
    + split; [discriminate |]. intros [H|H]; [discriminate |].
      apply tr_weekday_found_In in H. congruence.
Qed.

Lemma tr_day_allowed_nil : forall wd, tr_day_allowed [] wd = true.
Proof. reflexivity. Qed.

(* addWeekdayOffset(day, -1) is the weekday of the previous day *)
Lemma tr_add_weekday_offset_prev : forall l,
  tr_add_weekday_offset (tr_weekday l) (-1) = tr_wd_of_day (l / 86400 - 1).
Proof.
  intros l. unfold tr_add_weekday_offset, tr_weekday, tr_wd_of_day.
  change (Z.rem (-1) 7) with (-1).
  rewrite Z.rem_mod_nonneg by lia. lia.
Qed.

Lemma tr_weekday_wd : forall l, tr_weekday l = tr_wd_of_day (l / 86400).
Proof. reflexivity. Qed.

(* ---------- windows, unfolded ---------- *)
Lemma tr_daily_window : forall cfg k l, tr_days cfg = None ->
  (tr_in_window (tr_windows cfg k) l <->
   tr_day_allowed (tr_weekdays cfg) (tr_wd_of_day k) = true /\
   k * 86400 + tr_start cfg <= l <= k * 86400 + tr_end cfg + (if tr_end cfg <=? tr_start cfg then 86400 else 0)).
Proof.
  intros cfg k l Hd. unfold tr_windows. rewrite Hd.
  destruct (tr_day_allowed (tr_weekdays cfg) (tr_wd_of_day k)); cbn [tr_in_window].
  - split; [intros H; split; [reflexivity | exact H] | intros [_ H]; exact H].
  - split; [contradiction | intros [H _]; discriminate].
Qed.

Lemma tr_weekly_window : forall cfg sd ed k l, tr_days cfg = Some (sd, ed) ->
  (tr_in_window (tr_windows cfg k) l <->
   let lo := k * 604800 + tr_day_index sd * 86400 + tr_start cfg in
   let hi := k * 604800 + tr_day_index ed * 86400 + tr_end cfg in
   lo <= l <= (if hi <=? lo then hi + 604800 else hi)).
Proof.
  intros cfg sd ed k l Hd. unfold tr_windows. rewrite Hd. cbn [tr_in_window]. reflexivity.
Qed.

(* ---------- IsInRange, daily ---------- *)
Lemma tr_daily_in_range_local : forall cfg l,
  tr_wf cfg -> tr_days cfg = None -> tr_degenerate_open cfg l = false ->
  let ts := tr_clock l in
  ((if tr_start cfg <? tr_end cfg then
      if tr_is_in_weekdays cfg (tr_weekday l) then (tr_start cfg <=? ts) && (ts <=? tr_end cfg) else false
    else if ts <=? tr_end cfg then tr_is_in_weekdays cfg (tr_add_weekday_offset (tr_weekday l) (-1))
    else if tr_start cfg <=? ts then tr_is_in_weekdays cfg (tr_weekday l)
    else false) = true
   <-> exists k, tr_in_window (tr_windows cfg k) l).
Proof.
  intros cfg l [Hs [He _]] Hd Hdeg ts.
  rewrite !tr_is_in_weekdays_allowed, tr_add_weekday_offset_prev, tr_weekday_wd.
  unfold tr_degenerate_open in Hdeg. rewrite Hd in Hdeg. unfold tr_clock in *.
  set (d := l / 86400) in *.
  assert (Hl : l = 86400 * d + ts /\ 0 <= ts < 86400 /\ l mod 86400 = ts) by (unfold d, ts; lia).
  clearbody d ts. destruct Hl as [Hl [Hts Hmod]].
  set (A := tr_day_allowed (tr_weekdays cfg)) in *.
  assert (Hk : forall k, tr_in_window (tr_windows cfg k) l -> k = d \/ k = d - 1).
  { intros k Hk. apply (tr_daily_window cfg k l Hd) in Hk. destruct Hk as [_ Hk].
    destruct (tr_end cfg <=? tr_start cfg); lia. }
  destruct (tr_start cfg <? tr_end cfg) eqn:Hse.
  - (* start < end *)
    split.
    + intros H. exists d. apply (tr_daily_window cfg d l Hd). fold A.
      destruct (A (tr_wd_of_day d)); [|discriminate].
      split; [reflexivity|]. replace (tr_end cfg <=? tr_start cfg) with false by lia. lia.
    + intros [k Hin]. pose proof (Hk k Hin) as Hkd.
      apply (tr_daily_window cfg k l Hd) in Hin. fold A in Hin. destruct Hin as [Ha Hb].
      replace (tr_end cfg <=? tr_start cfg) with false in Hb by lia.
      assert (k = d) by lia. subst k. rewrite Ha. lia.
  - (* end <= start *)
    assert (Hes : (tr_end cfg <=? tr_start cfg) = true) by lia.
    split.
    + intros H. destruct (ts <=? tr_end cfg) eqn:Hte.
      * exists (d - 1). apply (tr_daily_window cfg (d - 1) l Hd). fold A. rewrite Hes. split; [exact H | lia].
      * destruct (tr_start cfg <=? ts) eqn:Hst; [|discriminate].
        exists d. apply (tr_daily_window cfg d l Hd). fold A. rewrite Hes. split; [exact H | lia].
    + intros [k Hin]. pose proof (Hk k Hin) as Hkd.
      apply (tr_daily_window cfg k l Hd) in Hin. fold A in Hin. rewrite Hes in Hin. destruct Hin as [Ha Hb].
      destruct (ts <=? tr_end cfg) eqn:Hte.
      * destruct Hkd as [-> | ->]; [|exact Ha].
        (* k = d and ts <= end: then ts = start = end, the degenerate opening second *)
        assert (Hdg : tr_start cfg = tr_end cfg /\ ts = tr_start cfg) by lia.
        destruct (A (tr_wd_of_day (d - 1))) eqn:Hp; [reflexivity|].
        exfalso. rewrite Ha in Hdeg. cbn [negb] in Hdeg. lia.
      * assert (k = d) by lia. subst k. replace (tr_start cfg <=? ts) with true by lia. exact Ha.
Qed.

(* ---------- IsInRange, weekly ---------- *)
Lemma tr_time_range_no_weekdays : forall cfg u, tr_weekdays cfg = [] ->
  tr_is_in_time_range cfg u =
  (let ts := tr_clock (tr_in (tr_loc cfg) u) in
   if tr_start cfg <? tr_end cfg then (tr_start cfg <=? ts) && (ts <=? tr_end cfg)
   else if ts <=? tr_end cfg then true else if tr_start cfg <=? ts then true else false).
Proof.
  intros cfg u Hw. unfold tr_is_in_time_range.
  rewrite !tr_is_in_weekdays_allowed, Hw. cbn [tr_day_allowed]. reflexivity.
Qed.

Ltac tr_ifs :=
  repeat match goal with
         | H : context [if ?c then _ else _] |- _ => let E := fresh "Hif" in destruct c eqn:E
         | |- context [if ?c then _ else _] => let E := fresh "Hif" in destruct c eqn:E
         end.

Lemma tr_weekly_in_range_local : forall cfg sd ed u,
  tr_wf cfg -> tr_days cfg = Some (sd, ed) ->
  (tr_is_in_week_range cfg sd ed u = true <-> exists k, tr_in_window (tr_windows cfg k) (tr_in (tr_loc cfg) u)).
Proof.
  intros cfg sd ed u [Hs [He Hwf]] Hd. rewrite Hd in Hwf. destruct Hwf as [Hsd [Hed Hw]].
  unfold tr_is_in_week_range. rewrite (tr_time_range_no_weekdays cfg u Hw). cbv zeta.
  generalize (tr_in (tr_loc cfg) u). intros l.
  unfold tr_weekday, tr_clock.
  set (d := l / 86400). set (ts := l mod 86400).
  assert (Hl : l = 86400 * d + ts /\ 0 <= ts < 86400) by (unfold d, ts; lia).
  clearbody d ts. destruct Hl as [Hl Hts].
  set (wd := (d + 1) mod 7).
  assert (Hwd : 0 <= wd < 7 /\ exists q, d + 1 = 7 * q + wd) by (unfold wd; split; [lia | exists ((d + 1) / 7); lia]).
  clearbody wd. destruct Hwd as [Hwd [q Hq]].
  assert (Hsi : 0 <= tr_day_index sd < 7 /\ exists q1, sd + 6 = 7 * q1 + tr_day_index sd) by (unfold tr_day_index; split; [lia | exists ((sd + 6) / 7); lia]).
  assert (Hei : 0 <= tr_day_index ed < 7 /\ exists q2, ed + 6 = 7 * q2 + tr_day_index ed) by (unfold tr_day_index; split; [lia | exists ((ed + 6) / 7); lia]).
  destruct Hsi as [Hsi [q1 Hq1]]. destruct Hei as [Hei [q2 Hq2]].
  split.
  - intros H.
    exists ((l - tr_day_index sd * 86400 - tr_start cfg) / 604800).
    apply (tr_weekly_window cfg sd ed _ l Hd). cbv zeta.
    set (k := (l - tr_day_index sd * 86400 - tr_start cfg) / 604800).
    assert (Hk : 604800 * k <= l - tr_day_index sd * 86400 - tr_start cfg < 604800 * k + 604800) by (unfold k; lia).
    clearbody k. set (si := tr_day_index sd) in *. set (ei := tr_day_index ed) in *. clearbody si ei.
    tr_ifs; lia.
  - intros [k Hin]. apply (tr_weekly_window cfg sd ed k l Hd) in Hin. cbv zeta in Hin.
    set (si := tr_day_index sd) in *. set (ei := tr_day_index ed) in *. clearbody si ei.
    tr_ifs; lia.
Qed.

(* ---------- IsInRange ---------- *)
Theorem tr_in_range_correct : forall cfg u,
  tr_wf cfg -> tr_degenerate_open cfg (tr_local cfg u) = false ->
  (tr_is_in_range cfg u = true <-> exists k, tr_in_window (tr_windows cfg k) (tr_local cfg u)).
Proof.
  intros cfg u Hwf Hdeg. unfold tr_is_in_range, tr_local in *.
  destruct (tr_days cfg) as [[sd ed]|] eqn:Hd.
  - apply tr_weekly_in_range_local; assumption.
  - unfold tr_is_in_time_range. apply (tr_daily_in_range_local cfg _ Hwf Hd Hdeg).
Qed.

(* exactly at the degenerate opening second the answer is "out" although a window opens there *)
Lemma tr_in_range_degenerate : forall cfg u,
  tr_wf cfg -> tr_degenerate_open cfg (tr_local cfg u) = true ->
  tr_is_in_range cfg u = false /\ exists k, tr_in_window (tr_windows cfg k) (tr_local cfg u).
Proof.
  intros cfg u [Hs [He _]] Hdeg. unfold tr_degenerate_open in Hdeg. unfold tr_is_in_range, tr_local in *.
  destruct (tr_days cfg) as [[sd ed]|] eqn:Hd; [discriminate|].
  unfold tr_is_in_time_range. generalize dependent (tr_in (tr_loc cfg) u). intros l Hdeg.
  rewrite !tr_is_in_weekdays_allowed, tr_add_weekday_offset_prev.
  apply andb_prop in Hdeg. destruct Hdeg as [Hdeg Hprev].
  apply andb_prop in Hdeg. destruct Hdeg as [Hdeg Htoday].
  apply andb_prop in Hdeg. destruct Hdeg as [Hse Hclk].
  apply negb_true_iff in Hprev. unfold tr_clock in *. split.
  - replace (tr_start cfg <? tr_end cfg) with false by lia.
    replace (l mod 86400 <=? tr_end cfg) with true by lia. exact Hprev.
  - exists (l / 86400). apply (tr_daily_window cfg _ l Hd). split; [exact Htoday|].
    replace (tr_end cfg <=? tr_start cfg) with true by lia. lia.
Qed.

Lemma tr_off_edges_not_degenerate : forall cfg l,
  tr_wf cfg -> tr_off_edges cfg l -> tr_degenerate_open cfg l = false.
Proof.
  intros cfg l [Hs [He _]] Hoff. destruct (tr_degenerate_open cfg l) eqn:Hdeg; [|reflexivity]. exfalso.
  unfold tr_degenerate_open in Hdeg. destruct (tr_days cfg) as [[sd ed]|] eqn:Hd; [discriminate|].
  apply andb_prop in Hdeg. destruct Hdeg as [Hdeg _].
  apply andb_prop in Hdeg. destruct Hdeg as [Hdeg Htoday].
  apply andb_prop in Hdeg. destruct Hdeg as [Hse Hclk].
  specialize (Hoff (l / 86400)). unfold tr_windows in Hoff. rewrite Hd, Htoday in Hoff.
  destruct (Hoff _ _ eq_refl) as [Hlo _]. unfold tr_clock in Hclk. lia.
Qed.

Theorem tr_in_range_off_edges : forall cfg u,
  tr_wf cfg -> tr_off_edges cfg (tr_local cfg u) ->
  (tr_is_in_range cfg u = true <-> exists k, tr_in_window (tr_windows cfg k) (tr_local cfg u)).
Proof.
  intros cfg u Hwf Hoff. apply tr_in_range_correct; [exact Hwf | apply tr_off_edges_not_degenerate; assumption].
Qed.

(* ---------- order of the civil readings ---------- *)
Lemma tr_fixed_lookup : forall z u, tz_trans z = [] -> tr_lookup z u = (tz_init z, tr_alpha, tr_omega).
Proof. intros z u H. unfold tr_lookup. rewrite H. reflexivity. Qed.

Lemma tr_fixed_in : forall z u, tz_trans z = [] -> tr_in z u = u + tz_init z + tr_epoch_shift.
Proof. intros z u H. unfold tr_in, tr_offset_at. rewrite (tr_fixed_lookup z u H). reflexivity. Qed.

(* fixed-offset zones: the civil reading is the instant plus a constant *)
Lemma tr_fixed_order_preserved : forall cfg u1 u2, tr_fixed_zone cfg -> tr_order_preserved cfg u1 u2.
Proof.
  intros cfg u1 u2 Hf. unfold tr_order_preserved, tr_local.
  rewrite (tr_fixed_in _ u1 Hf), (tr_fixed_in _ u2 Hf). lia.
Qed.

Lemma tr_order_preserved_b_spec : forall cfg u1 u2,
  tr_order_preserved_b cfg u1 u2 = true <-> tr_order_preserved cfg u1 u2.
Proof.
  intros cfg u1 u2. unfold tr_order_preserved_b, tr_order_preserved. cbv zeta.
  destruct (u1 <=? u2) eqn:E1, (u2 <=? u1) eqn:E2; lia.
Qed.

(* zones with transitions: readings that are not repeated (nor skipped) civil times keep the order of the instants *)
Definition tr_off_from (off : Z) (tr : list (Z * Z)) (u : Z) : Z := fst (fst (tr_lookup_from off 0 tr u)).

Lemma tr_lookup_from_start : forall tr off s s' u,
  fst (fst (tr_lookup_from off s tr u)) = fst (fst (tr_lookup_from off s' tr u)).
Proof.
  induction tr as [|[at_ off'] rest IH]; intros off s s' u; cbn [tr_lookup_from]; [reflexivity|].
  destruct (u <? at_); [reflexivity | apply IH].
Qed.

Lemma tr_off_from_cons : forall off at_ off' rest u,
  tr_off_from off ((at_, off') :: rest) u = if u <? at_ then off else tr_off_from off' rest u.
Proof.
  intros. unfold tr_off_from. cbn [tr_lookup_from]. destruct (u <? at_); [reflexivity|].
  apply tr_lookup_from_start.
Qed.

(* after the first transition a reading that is not skipped / repeated is past that transition's interval *)
Lemma tr_unambiguous_after : forall rest off at_ off' u,
  tr_table_wf off ((at_, off') :: rest) -> at_ <= u ->
  tr_ambiguous_from off ((at_, off') :: rest) (u + tr_off_from off' rest u + tr_epoch_shift) = false ->
  at_ + Z.max off off' + tr_epoch_shift <= u + tr_off_from off' rest u + tr_epoch_shift.
Proof.
  induction rest as [|[at2 off2] rest' IH]; intros off at_ off' u Hwf Hu Hamb.
  - unfold tr_off_from in *. cbn [tr_lookup_from fst] in *. cbn [tr_ambiguous_from] in Hamb. lia.
  - cbn [tr_table_wf] in Hwf. destruct Hwf as [Hgap Hwf'].
    cbn [tr_ambiguous_from] in Hamb. apply orb_false_elim in Hamb. destruct Hamb as [Hfirst Hrest].
    rewrite tr_off_from_cons in *. destruct (u <? at2) eqn:E.
    + lia.
    + pose proof (IH off' at2 off2 u Hwf' ltac:(lia) Hrest) as Hb. lia.
Qed.

Lemma tr_unambiguous_monotone : forall tr off u1 u2,
  tr_table_wf off tr -> u1 <= u2 ->
  tr_ambiguous_from off tr (u1 + tr_off_from off tr u1 + tr_epoch_shift) = false ->
  tr_ambiguous_from off tr (u2 + tr_off_from off tr u2 + tr_epoch_shift) = false ->
  u1 + tr_off_from off tr u1 <= u2 + tr_off_from off tr u2.
Proof.
  induction tr as [|[at_ off'] rest IH]; intros off u1 u2 Hwf Hle H1 H2.
  - unfold tr_off_from. cbn [tr_lookup_from fst]. lia.
  - rewrite !tr_off_from_cons in *.
    destruct (u1 <? at_) eqn:E1, (u2 <? at_) eqn:E2; try lia.
    + (* u1 before, u2 after the first transition *)
      pose proof (tr_unambiguous_after rest off at_ off' u2 Hwf ltac:(lia) H2) as Hb.
      cbn [tr_ambiguous_from] in H1. apply orb_false_elim in H1. destruct H1 as [H1 _]. lia.
    + cbn [tr_table_wf] in Hwf. destruct Hwf as [_ Hwf'].
      cbn [tr_ambiguous_from] in H1, H2.
      apply orb_false_elim in H1. apply orb_false_elim in H2.
      apply (IH off' u1 u2 Hwf' Hle); [exact (proj2 H1) | exact (proj2 H2)].
Qed.

Lemma tr_local_off_from : forall cfg u,
  tr_local cfg u = u + tr_off_from (tz_init (tr_loc cfg)) (tz_trans (tr_loc cfg)) u + tr_epoch_shift.
Proof.
  intros cfg u. unfold tr_local, tr_in, tr_offset_at, tr_lookup, tr_off_from.
  rewrite (tr_lookup_from_start _ _ tr_alpha 0). reflexivity.
Qed.

Lemma tr_unambiguous_order_preserved : forall cfg u1 u2,
  tr_zone_wf (tr_loc cfg) ->
  tr_ambiguous (tr_loc cfg) (tr_local cfg u1) = false -> tr_ambiguous (tr_loc cfg) (tr_local cfg u2) = false ->
  tr_order_preserved cfg u1 u2.
Proof.
  intros cfg u1 u2 Hz A1 A2. unfold tr_order_preserved, tr_ambiguous, tr_zone_wf in *.
  rewrite !tr_local_off_from in *. split; intros Hle.
  - pose proof (tr_unambiguous_monotone _ _ u1 u2 Hz Hle A1 A2). lia.
  - pose proof (tr_unambiguous_monotone _ _ u2 u1 Hz Hle A2 A1). lia.
Qed.

(* ---------- the session end computed from an instant inside a window is that window's end ---------- *)
Lemma tr_session_end_daily : forall cfg k l,
  tr_wf cfg -> tr_days cfg = None ->
  k * 86400 + tr_start cfg <= l ->
  l < k * 86400 + tr_end cfg + (if tr_end cfg <=? tr_start cfg then 86400 else 0) ->
  tr_midnight l + tr_end cfg + tr_day_offset cfg l * 86400 =
  k * 86400 + tr_end cfg + (if tr_end cfg <=? tr_start cfg then 86400 else 0).
Proof.
  intros cfg k l [Hs [He _]] Hd Hlo Hhi. unfold tr_day_offset, tr_midnight, tr_clock. rewrite Hd.
  destruct (tr_end cfg <=? tr_start cfg) eqn:Hes; cbn [andb].
  - destruct (tr_start cfg <=? l mod 86400) eqn:Hst; lia.
  - lia.
Qed.

Lemma tr_session_end_weekly : forall cfg sd ed k l,
  tr_wf cfg -> tr_days cfg = Some (sd, ed) ->
  let lo := k * 604800 + tr_day_index sd * 86400 + tr_start cfg in
  let hi0 := k * 604800 + tr_day_index ed * 86400 + tr_end cfg in
  let hi := if hi0 <=? lo then hi0 + 604800 else hi0 in
  lo <= l -> l < hi ->
  tr_midnight l + tr_end cfg + tr_day_offset cfg l * 86400 = hi.
Proof.
  intros cfg sd ed k l [Hs [He Hwf]] Hd. rewrite Hd in Hwf. destruct Hwf as [Hsd [Hed _]].
  cbv zeta. intros Hlo Hhi.
  (* S = code's session end: congruent to EndDay/EndTime modulo a week, and in (l, l + week] *)
  assert (HS : exists a, tr_midnight l + tr_end cfg + tr_day_offset cfg l * 86400
                         = tr_day_index ed * 86400 + tr_end cfg + 604800 * a /\
                         l < tr_midnight l + tr_end cfg + tr_day_offset cfg l * 86400 <= l + 604800).
  { unfold tr_day_offset, tr_midnight, tr_weekday, tr_clock, tr_day_index. rewrite Hd.
    set (d := l / 86400). set (ts := l mod 86400).
    assert (Hl : l = 86400 * d + ts /\ 0 <= ts < 86400) by (unfold d, ts; lia).
    clearbody d ts. destruct Hl as [Hl Hts].
    set (dw := d / 7). set (di := d mod 7).
    assert (Hdd : d = 7 * dw + di /\ 0 <= di < 7) by (unfold dw, di; lia).
    replace ((d + 1) mod 7) with ((di + 1) mod 7) by (unfold di; lia).
    clearbody dw di. destruct Hdd as [Hdd Hdi]. subst d.
    set (wd := (di + 1) mod 7). assert (Hwd : 0 <= wd < 7 /\ exists q, di + 1 = 7 * q + wd) by (unfold wd; split; [lia | exists ((di + 1) / 7); lia]).
    clearbody wd. destruct Hwd as [Hwd [q Hq]].
    set (ei := (ed + 6) mod 7). assert (Hei : 0 <= ei < 7 /\ exists q', ed + 6 = 7 * q' + ei) by (unfold ei; split; [lia | exists ((ed + 6) / 7); lia]).
    clearbody ei. destruct Hei as [Hei [q' Hq']].
    destruct (ed <? wd) eqn:H1; [|destruct (wd =? ed) eqn:H2; [destruct (tr_end cfg <=? ts) eqn:H3|]].
    - exists (dw + q + q'). lia.
    - exists (dw + q + q'). lia.
    - exists (dw + q + q' - 1). lia.
    - exists (dw + q + q' - 1). lia. }
  destruct HS as [a [HSa HSb]].
  set (S := tr_midnight l + tr_end cfg + tr_day_offset cfg l * 86400) in *. clearbody S.
  assert (Hidx : 0 <= tr_day_index sd < 7 /\ 0 <= tr_day_index ed < 7) by (unfold tr_day_index; lia).
  set (si := tr_day_index sd) in *. set (ei := tr_day_index ed) in *. clearbody si ei.
  destruct (k * 604800 + ei * 86400 + tr_end cfg <=? k * 604800 + si * 86400 + tr_start cfg) eqn:Hc; lia.
Qed.

Lemma tr_session_end_window : forall cfg k lo hi l,
  tr_wf cfg -> tr_windows cfg k = Some (lo, hi) -> lo <= l -> l < hi ->
  tr_midnight l + tr_end cfg + tr_day_offset cfg l * 86400 = hi.
Proof.
  intros cfg k lo hi l Hwf Hw Hlo Hhi. unfold tr_windows in Hw.
  destruct (tr_days cfg) as [[sd ed]|] eqn:Hd.
  - injection Hw as <- <-. apply (tr_session_end_weekly cfg sd ed k l Hwf Hd); assumption.
  - destruct (tr_day_allowed (tr_weekdays cfg) (tr_wd_of_day k)); [|discriminate].
    injection Hw as <- <-. apply (tr_session_end_daily cfg k l Hwf Hd); assumption.
Qed.

(* ---------- windows do not overlap except at their edge seconds ---------- *)
Lemma tr_windows_ordered : forall cfg k lo hi, tr_wf cfg -> tr_windows cfg k = Some (lo, hi) -> lo < hi.
Proof.
  intros cfg k lo hi [Hs [He Hwf]] Hw. unfold tr_windows in Hw.
  destruct (tr_days cfg) as [[sd ed]|] eqn:Hd.
  - injection Hw as <- <-.
    destruct (k * 604800 + tr_day_index ed * 86400 + tr_end cfg <=? k * 604800 + tr_day_index sd * 86400 + tr_start cfg) eqn:Hc;
      unfold tr_day_index in *; lia.
  - destruct (tr_day_allowed (tr_weekdays cfg) (tr_wd_of_day k)); [|discriminate].
    injection Hw as <- <-. destruct (tr_end cfg <=? tr_start cfg) eqn:Hc; lia.
Qed.

Lemma tr_windows_separated : forall cfg k k' lo hi lo' hi',
  tr_wf cfg -> tr_windows cfg k = Some (lo, hi) -> tr_windows cfg k' = Some (lo', hi') -> k < k' -> hi <= lo'.
Proof.
  intros cfg k k' lo hi lo' hi' [Hs [He Hwf]] Hw Hw' Hlt. unfold tr_windows in Hw, Hw'.
  destruct (tr_days cfg) as [[sd ed]|] eqn:Hd.
  - injection Hw as <- <-. injection Hw' as <- <-.
    assert (Hidx : 0 <= tr_day_index sd < 7 /\ 0 <= tr_day_index ed < 7) by (unfold tr_day_index; lia).
    set (si := tr_day_index sd) in *. set (ei := tr_day_index ed) in *. clearbody si ei.
    destruct (k * 604800 + ei * 86400 + tr_end cfg <=? k * 604800 + si * 86400 + tr_start cfg) eqn:Hc; lia.
  - destruct (tr_day_allowed (tr_weekdays cfg) (tr_wd_of_day k)); [|discriminate].
    destruct (tr_day_allowed (tr_weekdays cfg) (tr_wd_of_day k')); [|discriminate].
    injection Hw as <- <-. injection Hw' as <- <-. destruct (tr_end cfg <=? tr_start cfg) eqn:Hc; lia.
Qed.

Lemma tr_in_window_some : forall w t, tr_in_window w t -> exists lo hi, w = Some (lo, hi) /\ lo <= t <= hi.
Proof. intros [[lo hi]|] t H; [exists lo, hi; split; [reflexivity | exact H] | contradiction]. Qed.

(* a reading that is not an edge second lies in at most one window *)
Lemma tr_window_unique : forall cfg k k' t,
  tr_wf cfg -> tr_off_edges cfg t ->
  tr_in_window (tr_windows cfg k) t -> tr_in_window (tr_windows cfg k') t -> k = k'.
Proof.
  intros cfg k k' t Hwf Hoff H H'.
  destruct (tr_in_window_some _ _ H) as [lo [hi [Hw Hb]]].
  destruct (tr_in_window_some _ _ H') as [lo' [hi' [Hw' Hb']]].
  destruct (Hoff _ _ _ Hw) as [Hn1 Hn2]. destruct (Hoff _ _ _ Hw') as [Hn1' Hn2'].
  destruct (Z.lt_trichotomy k k') as [Hlt|[Heq|Hgt]]; [|exact Heq|].
  - pose proof (tr_windows_separated cfg k k' _ _ _ _ Hwf Hw Hw' Hlt). lia.
  - pose proof (tr_windows_separated cfg k' k _ _ _ _ Hwf Hw' Hw Hgt). lia.
Qed.

(* ---------- IsInSameRange ---------- *)
(* core: for readings la <= lb that are in range and not edge seconds, "lb is before the session end computed from
   la" says that one window contains both *)
Lemma tr_before_session_end : forall cfg la lb,
  tr_wf cfg -> tr_off_edges cfg la -> tr_off_edges cfg lb -> la <= lb ->
  (exists k, tr_in_window (tr_windows cfg k) la) -> (exists k, tr_in_window (tr_windows cfg k) lb) ->
  ((lb <? tr_midnight la + tr_end cfg + tr_day_offset cfg la * 86400) = true <->
   exists k, tr_in_window (tr_windows cfg k) la /\ tr_in_window (tr_windows cfg k) lb).
Proof.
  intros cfg la lb Hwf Oa Ob Hle [ka Ha] [kb Hb].
  destruct (tr_in_window_some _ _ Ha) as [lo [hi [Hw Hba]]].
  destruct (Oa _ _ _ Hw) as [_ Hna].
  rewrite (tr_session_end_window cfg ka lo hi la Hwf Hw) by lia.
  split.
  - intros Hlt. exists ka. split; [exact Ha|]. rewrite Hw. cbn [tr_in_window]. lia.
  - intros [k [H1 H2]].
    assert (k = ka) by (apply (tr_window_unique cfg k ka la Hwf Oa H1 Ha)). subst k.
    rewrite Hw in H2. cbn [tr_in_window] in H2. destruct (Ob _ _ _ Hw) as [_ Hnb]. lia.
Qed.

Theorem tr_same_range_correct : forall cfg u1 u2,
  tr_wf cfg -> tr_away_from_edges cfg u1 u2 -> tr_order_preserved cfg u1 u2 ->
  (tr_is_in_same_range cfg u1 u2 = true <->
   exists k, tr_in_window (tr_windows cfg k) (tr_local cfg u1) /\ tr_in_window (tr_windows cfg k) (tr_local cfg u2)).
Proof.
  intros cfg u1 u2 Hwf [Ho1 Ho2] [Hord1 Hord2].
  pose proof (tr_in_range_correct cfg u1 Hwf (tr_off_edges_not_degenerate _ _ Hwf Ho1)) as R1.
  pose proof (tr_in_range_correct cfg u2 Hwf (tr_off_edges_not_degenerate _ _ Hwf Ho2)) as R2.
  unfold tr_is_in_same_range, tr_session_end. cbv zeta. fold (tr_local cfg u1) (tr_local cfg u2).
  destruct (tr_is_in_range cfg u1) eqn:E1; cbn [andb negb].
  2:{ split; [discriminate|]. intros [k [H1 _]]. assert (false = true) by (apply R1; exists k; exact H1). discriminate. }
  destruct (tr_is_in_range cfg u2) eqn:E2; cbn [andb negb].
  2:{ split; [discriminate|]. intros [k [_ H2]]. assert (false = true) by (apply R2; exists k; exact H2). discriminate. }
  pose proof (proj1 R1 eq_refl) as W1. pose proof (proj1 R2 eq_refl) as W2.
  destruct (u2 <? u1) eqn:Hord.
  - fold (tr_local cfg u1) (tr_local cfg u2).
    rewrite (tr_before_session_end cfg _ _ Hwf Ho2 Ho1 ltac:(apply Hord2; lia) W2 W1).
    split; intros [k [A B]]; exists k; split; assumption.
  - fold (tr_local cfg u1) (tr_local cfg u2).
    apply (tr_before_session_end cfg _ _ Hwf Ho1 Ho2 ltac:(apply Hord1; lia) W1 W2).
Qed.

(* fixed-offset zones: no condition on the order *)
Corollary tr_same_range_fixed : forall cfg u1 u2,
  tr_wf cfg -> tr_fixed_zone cfg -> tr_away_from_edges cfg u1 u2 ->
  (tr_is_in_same_range cfg u1 u2 = true <->
   exists k, tr_in_window (tr_windows cfg k) (tr_local cfg u1) /\ tr_in_window (tr_windows cfg k) (tr_local cfg u2)).
Proof.
  intros cfg u1 u2 Hwf Hf Haway. apply tr_same_range_correct; [exact Hwf | exact Haway | apply tr_fixed_order_preserved; exact Hf].
Qed.

(* zones with transitions: readings that are not skipped / repeated civil times *)
Corollary tr_same_range_unambiguous : forall cfg u1 u2,
  tr_wf cfg -> tr_zone_wf (tr_loc cfg) -> tr_away_from_edges cfg u1 u2 ->
  tr_ambiguous (tr_loc cfg) (tr_local cfg u1) = false -> tr_ambiguous (tr_loc cfg) (tr_local cfg u2) = false ->
  (tr_is_in_same_range cfg u1 u2 = true <->
   exists k, tr_in_window (tr_windows cfg k) (tr_local cfg u1) /\ tr_in_window (tr_windows cfg k) (tr_local cfg u2)).
Proof.
  intros cfg u1 u2 Hwf Hz Haway A1 A2.
  apply tr_same_range_correct; [exact Hwf | exact Haway | apply tr_unambiguous_order_preserved; assumption].
Qed.

(* ---------- corollaries ---------- *)
Lemma tr_same_range_symmetric : forall cfg u1 u2, tr_is_in_same_range cfg u1 u2 = tr_is_in_same_range cfg u2 u1.
Proof.
  intros cfg u1 u2. unfold tr_is_in_same_range. rewrite (andb_comm (tr_is_in_range cfg u2)).
  destruct (negb (tr_is_in_range cfg u1 && tr_is_in_range cfg u2)); [reflexivity|].
  destruct (u2 <? u1) eqn:E1, (u1 <? u2) eqn:E2; try reflexivity; try lia.
  assert (u1 = u2) by lia. subst. reflexivity.
Qed.

Lemma tr_same_range_both_in_range : forall cfg u1 u2,
  tr_is_in_same_range cfg u1 u2 = true -> tr_is_in_range cfg u1 = true /\ tr_is_in_range cfg u2 = true.
Proof.
  intros cfg u1 u2 H. unfold tr_is_in_same_range in H.
  destruct (tr_is_in_range cfg u1), (tr_is_in_range cfg u2); cbn [andb negb] in H; try discriminate. split; reflexivity.
Qed.

Lemma tr_same_range_transitive : forall cfg u1 u2 u3,
  tr_wf cfg ->
  tr_off_edges cfg (tr_local cfg u1) -> tr_off_edges cfg (tr_local cfg u2) -> tr_off_edges cfg (tr_local cfg u3) ->
  tr_order_preserved cfg u1 u2 -> tr_order_preserved cfg u2 u3 -> tr_order_preserved cfg u1 u3 ->
  tr_is_in_same_range cfg u1 u2 = true -> tr_is_in_same_range cfg u2 u3 = true ->
  tr_is_in_same_range cfg u1 u3 = true.
Proof.
  intros cfg u1 u2 u3 Hwf O1 O2 O3 P12 P23 P13 H12 H23.
  apply (tr_same_range_correct cfg u1 u2 Hwf (conj O1 O2) P12) in H12.
  apply (tr_same_range_correct cfg u2 u3 Hwf (conj O2 O3) P23) in H23.
  apply (tr_same_range_correct cfg u1 u3 Hwf (conj O1 O3) P13).
  destruct H12 as [k [A1 A2]]. destruct H23 as [k' [B2 B3]].
  assert (k = k') by (apply (tr_window_unique cfg k k' _ Hwf O2 A2 B2)). subst k'.
  exists k. split; assumption.
Qed.

(* an edge of any window strictly between the two readings: not the same session *)
Lemma tr_same_range_boundary : forall cfg u1 u2 k lo hi e,
  tr_wf cfg -> tr_away_from_edges cfg u1 u2 -> tr_order_preserved cfg u1 u2 ->
  tr_windows cfg k = Some (lo, hi) -> (e = lo \/ e = hi) ->
  tr_local cfg u1 < e < tr_local cfg u2 \/ tr_local cfg u2 < e < tr_local cfg u1 ->
  tr_is_in_same_range cfg u1 u2 = false.
Proof.
  intros cfg u1 u2 k lo hi e Hwf Haway Hp Hw He Hbetween.
  destruct (tr_is_in_same_range cfg u1 u2) eqn:Hs; [|reflexivity]. exfalso.
  apply (tr_same_range_correct cfg u1 u2 Hwf Haway Hp) in Hs. destruct Hs as [k' [H1 H2]].
  destruct (tr_in_window_some _ _ H1) as [lo' [hi' [Hw' Hb1]]].
  destruct (tr_in_window_some _ _ H2) as [lo'' [hi'' [Hw'' Hb2]]].
  rewrite Hw' in Hw''. injection Hw'' as <- <-.
  pose proof (tr_windows_ordered cfg k lo hi Hwf Hw) as Hord.
  destruct (Z.lt_trichotomy k k') as [Hlt|[Heq|Hgt]].
  - pose proof (tr_windows_separated cfg k k' _ _ _ _ Hwf Hw Hw' Hlt). lia.
  - subst k'. rewrite Hw in Hw'. injection Hw' as <- <-. lia.
  - pose proof (tr_windows_separated cfg k' k _ _ _ _ Hwf Hw' Hw Hgt). lia.
Qed.

(* ---------- the executable window enumeration (what the driver evaluates) is the specification ---------- *)
Lemma tr_in_window_b_spec : forall w t, tr_in_window_b w t = true <-> tr_in_window w t.
Proof. intros [[lo hi]|] t; cbn; [lia | split; [discriminate | contradiction]]. Qed.

Lemma tr_window_bounds : forall cfg k lo hi, tr_wf cfg -> tr_windows cfg k = Some (lo, hi) ->
  k * tr_period cfg <= lo /\ hi < (k + 2) * tr_period cfg.
Proof.
  intros cfg k lo hi [Hs [He Hwf]] Hw. unfold tr_windows in Hw. unfold tr_period.
  destruct (tr_days cfg) as [[sd ed]|] eqn:Hd.
  - injection Hw as <- <-.
    assert (Hidx : 0 <= tr_day_index sd < 7 /\ 0 <= tr_day_index ed < 7) by (unfold tr_day_index; lia).
    set (si := tr_day_index sd) in *. set (ei := tr_day_index ed) in *. clearbody si ei.
    destruct (k * 604800 + ei * 86400 + tr_end cfg <=? k * 604800 + si * 86400 + tr_start cfg) eqn:Hc; lia.
  - destruct (tr_day_allowed (tr_weekdays cfg) (tr_wd_of_day k)); [|discriminate].
    injection Hw as <- <-. destruct (tr_end cfg <=? tr_start cfg) eqn:Hc; lia.
Qed.

Lemma tr_period_pos : forall cfg, 0 < tr_period cfg.
Proof. intros cfg. unfold tr_period. destruct (tr_days cfg); lia. Qed.

Lemma tr_nbhd_complete : forall cfg k lo hi t, tr_wf cfg -> tr_windows cfg k = Some (lo, hi) -> lo <= t <= hi ->
  In k (tr_nbhd cfg t).
Proof.
  intros cfg k lo hi t Hwf Hw Hb. pose proof (tr_window_bounds cfg k lo hi Hwf Hw) as [B1 B2].
  pose proof (tr_period_pos cfg) as Hp. unfold tr_nbhd. cbn [In].
  set (p := tr_period cfg) in *. clearbody p.
  assert (k = t / p \/ k = t / p - 1) by nia. lia.
Qed.

Lemma tr_spec_in_range_correct : forall cfg t, tr_wf cfg ->
  (tr_spec_in_range cfg t = true <-> exists k, tr_in_window (tr_windows cfg k) t).
Proof.
  intros cfg t Hwf. unfold tr_spec_in_range. rewrite existsb_exists. split.
  - intros [k [_ Hk]]. exists k. apply tr_in_window_b_spec. exact Hk.
  - intros [k Hk]. exists k. split; [|apply tr_in_window_b_spec; exact Hk].
    destruct (tr_in_window_some _ _ Hk) as [lo [hi [Hw Hb]]]. exact (tr_nbhd_complete cfg k lo hi t Hwf Hw Hb).
Qed.

Lemma tr_spec_same_range_correct : forall cfg t1 t2, tr_wf cfg ->
  (tr_spec_same_range cfg t1 t2 = true <->
   exists k, tr_in_window (tr_windows cfg k) t1 /\ tr_in_window (tr_windows cfg k) t2).
Proof.
  intros cfg t1 t2 Hwf. unfold tr_spec_same_range. rewrite existsb_exists. split.
  - intros [k [_ Hk]]. apply andb_prop in Hk. destruct Hk as [H1 H2].
    exists k. split; apply tr_in_window_b_spec; assumption.
  - intros [k [H1 H2]]. exists k. split.
    + destruct (tr_in_window_some _ _ H1) as [lo [hi [Hw Hb]]]. exact (tr_nbhd_complete cfg k lo hi t1 Hwf Hw Hb).
    + apply andb_true_intro. split; apply tr_in_window_b_spec; assumption.
Qed.

Lemma tr_at_edge_b_correct : forall cfg t, tr_wf cfg -> (tr_at_edge_b cfg t = false <-> tr_off_edges cfg t).
Proof.
  intros cfg t Hwf. unfold tr_at_edge_b, tr_off_edges. split.
  - intros H k lo hi Hw.
    destruct (Z.eq_dec t lo) as [E|E]; [|destruct (Z.eq_dec t hi) as [E'|E']; [|split; assumption]]; exfalso.
    + pose proof (tr_windows_ordered cfg k lo hi Hwf Hw).
      assert (Hin : In k (tr_nbhd cfg t)) by (apply (tr_nbhd_complete cfg k lo hi t Hwf Hw); lia).
      assert (Hex : existsb (fun k => match tr_windows cfg k with Some (lo, hi) => (t =? lo) || (t =? hi) | None => false end) (tr_nbhd cfg t) = true).
      { apply existsb_exists. exists k. split; [exact Hin|]. rewrite Hw. lia. }
      congruence.
    + pose proof (tr_windows_ordered cfg k lo hi Hwf Hw).
      assert (Hin : In k (tr_nbhd cfg t)) by (apply (tr_nbhd_complete cfg k lo hi t Hwf Hw); lia).
      assert (Hex : existsb (fun k => match tr_windows cfg k with Some (lo, hi) => (t =? lo) || (t =? hi) | None => false end) (tr_nbhd cfg t) = true).
      { apply existsb_exists. exists k. split; [exact Hin|]. rewrite Hw. lia. }
      congruence.
  - intros H. apply not_true_is_false. intros Hex. apply existsb_exists in Hex. destruct Hex as [k [_ Hk]].
    destruct (tr_windows cfg k) as [[lo hi]|] eqn:Hw; [|discriminate].
    destruct (H k lo hi Hw). lia.
Qed.

(* the per-instant record computed in one pass *)
Lemma tr_spec_info_fst : forall cfg u, fst (tr_spec_info cfg u) = tr_at_edge_b cfg (tr_local cfg u).
Proof.
  intros cfg u. unfold tr_spec_info, tr_at_edge_b. cbn [fst].
  induction (tr_nbhd cfg (tr_local cfg u)) as [|k ks IH]; [reflexivity|].
  cbn [map existsb fst snd]. rewrite IH. f_equal.
  unfold tr_spec_row. destruct (tr_windows cfg k) as [[lo hi]|]; reflexivity.
Qed.

Lemma tr_spec_info_snd : forall cfg u,
  snd (tr_spec_info cfg u) =
  filter (fun k => tr_in_window_b (tr_windows cfg k) (tr_local cfg u)) (tr_nbhd cfg (tr_local cfg u)).
Proof.
  intros cfg u. unfold tr_spec_info. cbn [snd].
  induction (tr_nbhd cfg (tr_local cfg u)) as [|k ks IH]; [reflexivity|].
  cbn [map filter fst snd]. unfold tr_spec_row at 1, tr_in_window_b at 1.
  destruct (tr_windows cfg k) as [[lo hi]|]; cbn [snd].
  - destruct ((lo <=? tr_local cfg u) && (tr_local cfg u <=? hi)); cbn [map fst]; rewrite IH; reflexivity.
  - exact IH.
Qed.

Lemma tr_spec_keys_spec : forall cfg u k, tr_wf cfg ->
  (In k (snd (tr_spec_info cfg u)) <-> tr_in_window (tr_windows cfg k) (tr_local cfg u)).
Proof.
  intros cfg u k Hwf. rewrite tr_spec_info_snd, filter_In, tr_in_window_b_spec. split.
  - intros [_ H]. exact H.
  - intros H. split; [|exact H].
    destruct (tr_in_window_some _ _ H) as [lo [hi [Hw Hb]]]. exact (tr_nbhd_complete cfg k lo hi _ Hwf Hw Hb).
Qed.

Theorem tr_spec_in_range_of_correct : forall cfg u, tr_wf cfg ->
  (tr_spec_in_range_of (tr_spec_info cfg u) = true <-> exists k, tr_in_window (tr_windows cfg k) (tr_local cfg u)).
Proof.
  intros cfg u Hwf. unfold tr_spec_in_range_of. split.
  - intros H. destruct (snd (tr_spec_info cfg u)) as [|k ks] eqn:E; [discriminate|].
    exists k. apply (tr_spec_keys_spec cfg u k Hwf). rewrite E. left. reflexivity.
  - intros [k Hk]. apply (tr_spec_keys_spec cfg u k Hwf) in Hk.
    destruct (snd (tr_spec_info cfg u)); [contradiction | reflexivity].
Qed.

(* a pair that is evaluated (code <> 2) is away from the edges, its readings are in the order of the instants, and
   the code says whether one window contains both *)
Theorem tr_spec_pair_of_correct : forall cfg u1 u2, tr_wf cfg ->
  let c := tr_spec_pair_of cfg u1 u2 (tr_spec_info cfg u1) (tr_spec_info cfg u2) in
  (c = 0 \/ c = 1 \/ c = 2) /\
  (c <> 2 -> tr_away_from_edges cfg u1 u2 /\ tr_order_preserved cfg u1 u2 /\
             (c = 1 <-> exists k, tr_in_window (tr_windows cfg k) (tr_local cfg u1) /\
                                  tr_in_window (tr_windows cfg k) (tr_local cfg u2))).
Proof.
  intros cfg u1 u2 Hwf. cbv zeta. unfold tr_spec_pair_of. rewrite !tr_spec_info_fst.
  destruct (tr_at_edge_b cfg (tr_local cfg u1)) eqn:E1; cbn [orb]; [split; [lia | intros H; congruence]|].
  destruct (tr_at_edge_b cfg (tr_local cfg u2)) eqn:E2; cbn [orb]; [split; [lia | intros H; congruence]|].
  destruct (tr_order_preserved_b cfg u1 u2) eqn:P; cbn [negb]; [|split; [lia | intros H; congruence]].
  apply tr_order_preserved_b_spec in P.
  apply (tr_at_edge_b_correct cfg _ Hwf) in E1. apply (tr_at_edge_b_correct cfg _ Hwf) in E2.
  assert (Hiff : existsb (fun k => existsb (Z.eqb k) (snd (tr_spec_info cfg u2))) (snd (tr_spec_info cfg u1)) = true <->
                 exists k, tr_in_window (tr_windows cfg k) (tr_local cfg u1) /\ tr_in_window (tr_windows cfg k) (tr_local cfg u2)).
  { rewrite existsb_exists. split.
    - intros [k [H1 H2]]. apply existsb_exists in H2. destruct H2 as [k' [H2 Heq]].
      apply Z.eqb_eq in Heq. subst k'. exists k.
      split; [apply (tr_spec_keys_spec cfg u1 k Hwf) | apply (tr_spec_keys_spec cfg u2 k Hwf)]; assumption.
    - intros [k [H1 H2]]. exists k. split; [apply (tr_spec_keys_spec cfg u1 k Hwf); exact H1|].
      apply existsb_exists. exists k. split; [apply (tr_spec_keys_spec cfg u2 k Hwf); exact H2 | apply Z.eqb_refl]. }
  destruct (existsb (fun k => existsb (Z.eqb k) (snd (tr_spec_info cfg u2))) (snd (tr_spec_info cfg u1))) eqn:X.
  - split; [lia|]. intros _. split; [split; assumption|]. split; [exact P|].
    split; [intros _; apply Hiff; reflexivity | reflexivity].
  - split; [lia|]. intros _. split; [split; assumption|]. split; [exact P|].
    split; [discriminate | intros H; apply Hiff in H; discriminate].
Qed.

(* on every evaluated pair, in every zone, the model answers what the oracle says *)
Corollary tr_oracle_agrees_with_model : forall cfg u1 u2, tr_wf cfg ->
  let c := tr_spec_pair_of cfg u1 u2 (tr_spec_info cfg u1) (tr_spec_info cfg u2) in
  c <> 2 -> (tr_is_in_same_range cfg u1 u2 = true <-> c = 1).
Proof.
  intros cfg u1 u2 Hwf c Hc. destruct (tr_spec_pair_of_correct cfg u1 u2 Hwf) as [_ H].
  fold c in H. destruct (H Hc) as [Haway [Hp Hiff]].
  rewrite Hiff. apply tr_same_range_correct; assumption.
Qed.

(* ---------- witnesses ---------- *)
Definition tr_ex_utc : tr_zone := {| tz_init := 0; tz_trans := [] |}.
(* America/New_York around the 2024-03-10 07:00Z spring-forward transition (EST -> EDT) *)
Definition tr_ex_new_york : tr_zone := {| tz_init := -18000; tz_trans := [(1710054000, -14400)] |}.

(* Saturday-only 22:00-06:00 UTC (the configuration of the repaired defect F10) *)
Definition tr_ex_saturday_night : tr_range := tr_new_time_range_in_location 79200 21600 [6] tr_ex_utc.
(* Monday-only 10:00:00-10:00:00 UTC *)
Definition tr_ex_monday_24h : tr_range := tr_new_time_range_in_location 36000 36000 [1] tr_ex_utc.
(* weekly Sunday 17:00 - Friday 17:00 UTC *)
Definition tr_ex_week : tr_range := tr_new_week_range_in_location 61200 61200 0 5 tr_ex_utc.
(* daily 22:00-02:00 New York *)
Definition tr_ex_ny_night : tr_range := tr_new_time_range_in_location 79200 7200 [] tr_ex_new_york.

Lemma tr_ex_saturday_night_wf : tr_wf tr_ex_saturday_night /\ tr_fixed_zone tr_ex_saturday_night.
Proof. unfold tr_wf, tr_fixed_zone. cbn. split; [lia | reflexivity]. Qed.
Lemma tr_ex_monday_24h_wf : tr_wf tr_ex_monday_24h /\ tr_fixed_zone tr_ex_monday_24h.
Proof. unfold tr_wf, tr_fixed_zone. cbn. split; [lia | reflexivity]. Qed.
Lemma tr_ex_week_wf : tr_wf tr_ex_week /\ tr_fixed_zone tr_ex_week.
Proof. unfold tr_wf, tr_fixed_zone. cbn. split; [|reflexivity]. repeat split; lia. Qed.
Lemma tr_ex_ny_night_wf : tr_wf tr_ex_ny_night.
Proof. unfold tr_wf. cbn. lia. Qed.

(* Sunday 2024-03-10 03:00:00Z lies in the window that opened on Saturday 22:00 *)
Lemma tr_ex_sunday_morning :
  tr_degenerate_open tr_ex_saturday_night (tr_local tr_ex_saturday_night 1710039600) = false /\
  tr_is_in_range tr_ex_saturday_night 1710039600 = true /\
  tr_in_window (tr_windows tr_ex_saturday_night 19794) (tr_local tr_ex_saturday_night 1710039600).
Proof. split; [vm_compute; reflexivity|]. split; [vm_compute; reflexivity|]. vm_compute. split; discriminate. Qed.

(* Saturday 23:00Z and Sunday 03:00Z: same session; Sunday 03:00Z and the following Saturday 23:00Z: not *)
Lemma tr_ex_same_session :
  tr_away_from_edges tr_ex_saturday_night 1710025200 1710039600 /\
  tr_is_in_same_range tr_ex_saturday_night 1710025200 1710039600 = true /\
  tr_away_from_edges tr_ex_saturday_night 1710039600 1710630000 /\
  tr_is_in_same_range tr_ex_saturday_night 1710039600 1710630000 = false.
Proof.
  pose proof (proj1 tr_ex_saturday_night_wf) as Hwf.
  split; [split; apply (tr_at_edge_b_correct _ _ Hwf); vm_compute; reflexivity|].
  split; [vm_compute; reflexivity|].
  split; [split; apply (tr_at_edge_b_correct _ _ Hwf); vm_compute; reflexivity|].
  vm_compute; reflexivity.
Qed.

Lemma tr_ex_week_session :
  tr_away_from_edges tr_ex_week 1710111600 1710500400 /\
  tr_is_in_same_range tr_ex_week 1710111600 1710500400 = true /\
  tr_is_in_same_range tr_ex_week 1710500400 1710111600 = true /\
  tr_is_in_range tr_ex_week 1710543600 = false.
Proof.
  pose proof (proj1 tr_ex_week_wf) as Hwf.
  split; [split; apply (tr_at_edge_b_correct _ _ Hwf); vm_compute; reflexivity|].
  repeat split; vm_compute; reflexivity.
Qed.

(* exactness at an edge second fails in one place: Monday-only 24h window, Monday 1969-12-29 10:00:00Z is its
   opening second (inside the window by the specification) but IsInRange looks at Sunday only *)
Lemma tr_in_range_edge_refuted :
  exists cfg u k, tr_wf cfg /\ tr_fixed_zone cfg /\
    tr_is_in_range cfg u = false /\ tr_in_window (tr_windows cfg k) (tr_local cfg u) /\
    tr_degenerate_open cfg (tr_local cfg u) = true.
Proof.
  exists tr_ex_monday_24h, (-223200), 0.
  split; [exact (proj1 tr_ex_monday_24h_wf)|]. split; [exact (proj2 tr_ex_monday_24h_wf)|].
  split; [vm_compute; reflexivity|]. split; [vm_compute; split; discriminate | vm_compute; reflexivity].
Qed.

(* regression of the repaired defect dst-end-time-skipped (dd0be1e): daily 22:00-02:00 America/New_York, Saturday
   2024-03-09 23:00 EST and Sunday 2024-03-10 01:30 EST lie in the same window, away from its edges, both civil readings
   unambiguous; 02:00 is skipped that night and the unrepaired code answered false. *)
Lemma tr_ex_ny_zone_wf : tr_zone_wf (tr_loc tr_ex_ny_night).
Proof. cbn. exact (conj I I). Qed.

Lemma tr_ex_ny_spring_forward :
  tr_away_from_edges tr_ex_ny_night 1710043200 1710052200 /\
  tr_ambiguous (tr_loc tr_ex_ny_night) (tr_local tr_ex_ny_night 1710043200) = false /\
  tr_ambiguous (tr_loc tr_ex_ny_night) (tr_local tr_ex_ny_night 1710052200) = false /\
  tr_in_window (tr_windows tr_ex_ny_night 19794) (tr_local tr_ex_ny_night 1710043200) /\
  tr_in_window (tr_windows tr_ex_ny_night 19794) (tr_local tr_ex_ny_night 1710052200) /\
  tr_is_in_same_range tr_ex_ny_night 1710043200 1710052200 = true.
Proof.
  pose proof tr_ex_ny_night_wf as Hwf.
  split; [split; apply (tr_at_edge_b_correct _ _ Hwf); vm_compute; reflexivity|].
  split; [vm_compute; reflexivity|]. split; [vm_compute; reflexivity|].
  split; [vm_compute; split; discriminate|]. split; [vm_compute; split; discriminate|].
  vm_compute; reflexivity.
Qed.

(* Without the order condition the statement is false in a zone where the clock is set back: daily 01:30-01:30
   America/New_York over the 2024-11-03 06:00Z transition (EDT -> EST).  01:40 EDT reads after the 01:30 opening,
   01:10 EST (30 minutes later) reads before it: by their readings they are in consecutive windows, IsInSameRange
   says same session (the session that opened at the first 01:30).  The reading 01:10 occurs twice that night; which
   window its second occurrence belongs to is not determined by the property -- not counted as a defect. *)
Definition tr_ex_new_york_autumn : tr_zone := {| tz_init := -14400; tz_trans := [(1730613600, -18000)] |}.
Definition tr_ex_ny_0130 : tr_range := tr_new_time_range_in_location 5400 5400 [] tr_ex_new_york_autumn.

Lemma tr_same_range_reversed_refuted :
  exists cfg u1 u2, tr_wf cfg /\ tr_zone_wf (tr_loc cfg) /\ tr_away_from_edges cfg u1 u2 /\
    u1 < u2 /\ tr_local cfg u2 < tr_local cfg u1 /\
    tr_ambiguous (tr_loc cfg) (tr_local cfg u2) = true /\
    tr_is_in_same_range cfg u1 u2 = true /\
    ~ exists k, tr_in_window (tr_windows cfg k) (tr_local cfg u1) /\ tr_in_window (tr_windows cfg k) (tr_local cfg u2).
Proof.
  exists tr_ex_ny_0130, 1730612400, 1730614200.
  assert (Hwf : tr_wf tr_ex_ny_0130) by (unfold tr_wf; cbn; lia).
  split; [exact Hwf|]. split; [cbn; exact (conj I I)|].
  assert (Haway : tr_away_from_edges tr_ex_ny_0130 1730612400 1730614200)
    by (split; apply (tr_at_edge_b_correct _ _ Hwf); vm_compute; reflexivity).
  split; [exact Haway|].
  split; [lia|]. split; [vm_compute; reflexivity|]. split; [vm_compute; reflexivity|]. split; [vm_compute; reflexivity|].
  intros [k [H1 H2]].
  assert (S : tr_spec_same_range tr_ex_ny_0130 (tr_local tr_ex_ny_0130 1730612400) (tr_local tr_ex_ny_0130 1730614200) = true)
    by (apply (tr_spec_same_range_correct _ _ _ Hwf); exists k; split; assumption).
  vm_compute in S. discriminate.
Qed.
