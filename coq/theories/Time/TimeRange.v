(* internal/time_range.go: isInWeekdays, addWeekdayOffset, isInTimeRange, isInWeekRange, IsInRange, IsInSameRange.
   Function-by-function model (area timerange, prefix tr_).

   Time.  An instant is a whole number of Unix seconds `u : Z` (sub-second parts are not modelled: Clock() drops
   them, so they only matter inside the one-second window edges).  The civil ("wall clock") reading of an instant in
   a location is `tr_in loc u : Z` = seconds on the local clock since Monday 1969-12-29 00:00 local
   (1970-01-01 was a Thursday, hence the shift of 3 days); weekday and time of day are div/mod of that number.
   A location is its table of offsets: `tz_init` before the first transition, then (instant, offset from then on).
   A fixed-offset zone has an empty table.  The fragments of package time used by the code (Location.lookup,
   Time.In/Weekday/Clock/Date, time.Date(..., time.UTC) of a civil reading) are transcribed below; they are modelled,
   not verified.  (Since repair dd0be1e IsInSameRange no longer calls time.Date in the schedule's own location, so
   Go's treatment of skipped / repeated civil times does not enter the model any more.) *)
From Coq Require Import ZArith List Bool.
Import ListNotations.
Open Scope Z_scope.

(* ---------- package time (modelled fragments) ---------- *)
Record tr_zone := { tz_init : Z; tz_trans : list (Z * Z) }.

Definition tr_alpha : Z := - 9223372036854775808.   (* alpha = -1 << 63 *)
Definition tr_omega : Z := 9223372036854775807.     (* omega = 1<<63 - 1 *)
Definition tr_epoch_shift : Z := 259200.            (* Monday 1969-12-29 00:00 .. Thursday 1970-01-01 00:00 *)

(* Location.lookup(sec): (offset, start, end) of the zone period containing sec *)
Fixpoint tr_lookup_from (off start : Z) (tr : list (Z * Z)) (u : Z) : Z * Z * Z :=
  match tr with
  | [] => (off, start, tr_omega)
  | (at_, off') :: rest => if u <? at_ then (off, start, at_) else tr_lookup_from off' at_ rest u
  end.
Definition tr_lookup (z : tr_zone) (u : Z) : Z * Z * Z := tr_lookup_from (tz_init z) tr_alpha (tz_trans z) u.
Definition tr_offset_at (z : tr_zone) (u : Z) : Z := fst (fst (tr_lookup z u)).

(* t.In(loc) read as civil seconds *)
Definition tr_in (z : tr_zone) (u : Z) : Z := u + tr_offset_at z u + tr_epoch_shift.
(* Time.Weekday (Sunday = 0) and Time.Clock (as seconds of the day) of a civil reading *)
Definition tr_weekday (l : Z) : Z := (l / 86400 + 1) mod 7.
Definition tr_clock (l : Z) : Z := l mod 86400.
(* midnight of the civil day of l: Date(t.Year(), t.Month(), t.Day(), 0, 0, 0) before zone adjustment *)
Definition tr_midnight (l : Z) : Z := l / 86400 * 86400.

(* ---------- internal/time_range.go ---------- *)
(* TimeOfDay: only the duration d is modelled, in seconds (hour, minute, second enter time.Date, which normalises
   them to the same number of seconds after midnight). *)
Definition tr_new_time_of_day (hour minute second : Z) : Z := second + minute * 60 + hour * 3600.

(* TimeRange.  startDay/endDay are set together by NewWeekRangeInLocation (the only writer), so one option. *)
Record tr_range := {
  tr_start : Z;                    (* startTime.d, seconds *)
  tr_end : Z;                      (* endTime.d *)
  tr_weekdays : list Z;            (* []time.Weekday, Sunday = 0 *)
  tr_days : option (Z * Z);        (* startDay, endDay *)
  tr_loc : tr_zone;
}.

Definition tr_new_time_range_in_location (st en : Z) (weekdays : list Z) (loc : tr_zone) : tr_range :=
  {| tr_start := st; tr_end := en; tr_weekdays := weekdays; tr_days := None; tr_loc := loc |}.
Definition tr_new_week_range_in_location (st en sd ed : Z) (loc : tr_zone) : tr_range :=
  {| tr_start := st; tr_end := en; tr_weekdays := []; tr_days := Some (sd, ed); tr_loc := loc |}.

(* for _, weekday := range r.weekdays { if day == weekday { found = true; break } } *)
Fixpoint tr_weekday_found (day : Z) (wds : list Z) : bool :=
  match wds with
  | [] => false
  | w :: rest => if day =? w then true else tr_weekday_found day rest
  end.

Definition tr_is_in_weekdays (r : tr_range) (day : Z) : bool :=
  if 0 <? Z.of_nat (length (tr_weekdays r)) then
    if negb (tr_weekday_found day (tr_weekdays r)) then false else true
  else true.

(* (day + time.Weekday(offset%7+7)) % 7 with Go's truncated % *)
Definition tr_add_weekday_offset (day offset : Z) : Z := Z.rem (day + (Z.rem offset 7 + 7)) 7.

Definition tr_is_in_time_range (r : tr_range) (u : Z) : bool :=
  let t := tr_in (tr_loc r) u in
  let ts := tr_clock t in
  if tr_start r <? tr_end r then
    if tr_is_in_weekdays r (tr_weekday t) then (tr_start r <=? ts) && (ts <=? tr_end r) else false
  else if ts <=? tr_end r then tr_is_in_weekdays r (tr_add_weekday_offset (tr_weekday t) (-1))
  else if tr_start r <=? ts then tr_is_in_weekdays r (tr_weekday t)
  else false.

Definition tr_is_in_week_range (r : tr_range) (sd ed : Z) (u : Z) : bool :=
  let t := tr_in (tr_loc r) u in
  let day := tr_weekday t in
  if sd =? ed then
    if day =? sd then tr_is_in_time_range r u
    else if tr_start r <? tr_end r then false
    else true
  else if (if sd <? ed then (day <? sd) || (ed <? day) else (ed <? day) && (day <? sd)) then false
  else
    let time_of_day := tr_clock t in
    if day =? sd then tr_start r <=? time_of_day
    else if day =? ed then time_of_day <=? tr_end r
    else true.

Definition tr_is_in_range (r : tr_range) (u : Z) : bool :=
  match tr_days r with
  | Some (sd, ed) => tr_is_in_week_range r sd ed u
  | None => tr_is_in_time_range r u
  end.

(* the instant `sessionEnd` computed from the earlier instant t1 *)
Definition tr_day_offset (r : tr_range) (t1 : Z) : Z :=
  let t1time := tr_clock t1 in
  match tr_days r with
  | None => if (tr_end r <=? tr_start r) && (tr_start r <=? t1time) then 1 else 0
  | Some (_, ed) =>
      if ed <? tr_weekday t1 then 7 + (ed - tr_weekday t1)
      else if tr_weekday t1 =? ed then (if tr_end r <=? t1time then 7 else 0)
      else ed - tr_weekday t1
  end.

(* sessionEnd := time.Date(t1.Year(), t1.Month(), t1.Day()+dayOffset, end h, m, s, 0, time.UTC), as civil seconds:
   a wall-clock reading placed on the UTC line, where Date is plain day arithmetic *)
Definition tr_session_end (r : tr_range) (u1 : Z) : Z :=
  let t1 := tr_in (tr_loc r) u1 in
  tr_midnight t1 + tr_end r + tr_day_offset r t1 * 86400.

(* t2Wall := time.Date(t2.Year(), t2.Month(), t2.Day(), t2.Clock()..., time.UTC) with t2 = t2.In(r.loc): the civil
   reading of t2 placed on the UTC line; return t2Wall.Before(sessionEnd) *)
Definition tr_is_in_same_range (r : tr_range) (u1 u2 : Z) : bool :=
  if negb (tr_is_in_range r u1 && tr_is_in_range r u2) then false
  else
    let t1 := if u2 <? u1 then u2 else u1 in
    let t2 := if u2 <? u1 then u1 else u2 in
    let t2wall := tr_in (tr_loc r) t2 in
    t2wall <? tr_session_end r t1.

(* nil receiver: `if r == nil { return true }` *)
Definition tr_is_in_range_opt (r : option tr_range) (u : Z) : bool :=
  match r with None => true | Some r => tr_is_in_range r u end.
Definition tr_is_in_same_range_opt (r : option tr_range) (u1 u2 : Z) : bool :=
  match r with None => true | Some r => tr_is_in_same_range r u1 u2 end.

(* ---------- bulk evaluation for the correspondence driver ---------- *)
Fixpoint tr_grid (t0 step : Z) (n : nat) : list Z :=
  match n with O => [] | S n' => t0 :: tr_grid (t0 + step) step n' end.
Definition tr_range_bits (r : tr_range) (us : list Z) : list bool := map (tr_is_in_range r) us.
Definition tr_same_bits (r : tr_range) (ps : list (Z * Z)) : list bool :=
  map (fun p => tr_is_in_same_range r (fst p) (snd p)) ps.
