(* C18 specification, written from the property text (not from the code):
   a configuration denotes a family of windows on the local civil time line (seconds since a Monday 00:00):
     daily : for each day number d whose weekday -- the day the window OPENS -- is allowed (empty list = every day)
             [d*86400 + start, d*86400 + end (+ 86400 if end <= start)]
     weekly: for each week number w
             [w*604800 + sd*86400 + start, w*604800 + ed*86400 + end (+ 604800 if that is not later)]
             (sd, ed = position of StartDay / EndDay in the Monday-based week).
   An instant is in the schedule iff its civil reading lies in one of the windows; two instants are in the same
   session iff one window contains both.  Executable (bounded) versions are proved equivalent in TimeRangeProofs.v
   and evaluated on the implementation's answers by the correspondence driver. *)
From Coq Require Import ZArith List Bool.
From QF Require Import Time.TimeRange.
Import ListNotations.
Open Scope Z_scope.

(* weekday (Sunday = 0) of day number d; day 0 is a Monday *)
Definition tr_wd_of_day (d : Z) : Z := (d + 1) mod 7.
(* position of a weekday (Sunday = 0) in the Monday-based week *)
Definition tr_day_index (wd : Z) : Z := (wd + 6) mod 7.

Definition tr_day_allowed (wds : list Z) (wd : Z) : bool :=
  match wds with [] => true | _ => existsb (Z.eqb wd) wds end.

Definition tr_windows (cfg : tr_range) (k : Z) : option (Z * Z) :=
  match tr_days cfg with
  | None =>
      if tr_day_allowed (tr_weekdays cfg) (tr_wd_of_day k) then
        Some (k * 86400 + tr_start cfg,
              k * 86400 + tr_end cfg + (if tr_end cfg <=? tr_start cfg then 86400 else 0))
      else None
  | Some (sd, ed) =>
      let lo := k * 604800 + tr_day_index sd * 86400 + tr_start cfg in
      let hi := k * 604800 + tr_day_index ed * 86400 + tr_end cfg in
      Some (lo, if hi <=? lo then hi + 604800 else hi)
  end.

Definition tr_in_window (w : option (Z * Z)) (t : Z) : Prop :=
  match w with Some (lo, hi) => lo <= t <= hi | None => False end.

(* the configurations the constructors can produce from parsed settings (HH:MM:SS times, weekday names) *)
Definition tr_wf (cfg : tr_range) : Prop :=
  0 <= tr_start cfg < 86400 /\ 0 <= tr_end cfg < 86400 /\
  match tr_days cfg with
  | None => True
  | Some (sd, ed) => 0 <= sd < 7 /\ 0 <= ed < 7 /\ tr_weekdays cfg = []
  end.
Definition tr_fixed_zone (cfg : tr_range) : Prop := tz_trans (tr_loc cfg) = [].

(* the civil reading of an instant in the configured zone *)
Definition tr_local (cfg : tr_range) (u : Z) : Z := tr_in (tr_loc cfg) u.

(* "evaluated away from the one-second window edges": the civil reading is not the first or last second of a window *)
Definition tr_off_edges (cfg : tr_range) (t : Z) : Prop :=
  forall k lo hi, tr_windows cfg k = Some (lo, hi) -> t <> lo /\ t <> hi.
Definition tr_away_from_edges (cfg : tr_range) (u1 u2 : Z) : Prop :=
  tr_off_edges cfg (tr_local cfg u1) /\ tr_off_edges cfg (tr_local cfg u2).

(* the civil readings of the two instants are in the order of the instants.  Always so in a fixed-offset zone; in a
   zone with transitions it fails only when the clock was set back between the two instants and the later instant
   shows an earlier reading (then "the window containing the reading" is not defined by the property: the clock
   shows that reading twice). *)
Definition tr_order_preserved (cfg : tr_range) (u1 u2 : Z) : Prop :=
  (u1 <= u2 -> tr_local cfg u1 <= tr_local cfg u2) /\ (u2 <= u1 -> tr_local cfg u2 <= tr_local cfg u1).
Definition tr_order_preserved_b (cfg : tr_range) (u1 u2 : Z) : bool :=
  let l1 := tr_local cfg u1 in
  let l2 := tr_local cfg u2 in
  (if u1 <=? u2 then l1 <=? l2 else true) && (if u2 <=? u1 then l2 <=? l1 else true).

(* an offset table whose skipped / repeated civil intervals [T+min(off,off'), T+max(off,off')) follow one another
   without overlapping (true of every real zone: transitions are months apart, offsets change by an hour) *)
Fixpoint tr_table_wf (off : Z) (tr : list (Z * Z)) : Prop :=
  match tr with
  | [] => True
  | (at_, off') :: rest =>
      match rest with
      | [] => True
      | (at2, off2) :: _ => at_ + Z.max off off' <= at2 + Z.min off' off2
      end /\ tr_table_wf off' rest
  end.
Definition tr_zone_wf (z : tr_zone) : Prop := tr_table_wf (tz_init z) (tz_trans z).

(* the one edge second at which IsInRange is not exact: a daily window of exactly 24h (start = end), at its opening
   second, when the day before is not an allowed weekday (the code looks at the previous day only) *)
Definition tr_degenerate_open (cfg : tr_range) (t : Z) : bool :=
  match tr_days cfg with
  | None => (tr_start cfg =? tr_end cfg) && (tr_clock t =? tr_start cfg)
            && tr_day_allowed (tr_weekdays cfg) (tr_wd_of_day (t / 86400))
            && negb (tr_day_allowed (tr_weekdays cfg) (tr_wd_of_day (t / 86400 - 1)))
  | Some _ => false
  end.

(* ---------- executable versions (bounded neighbourhood of window indices) ---------- *)
Definition tr_in_window_b (w : option (Z * Z)) (t : Z) : bool :=
  match w with Some (lo, hi) => (lo <=? t) && (t <=? hi) | None => false end.
Definition tr_period (cfg : tr_range) : Z := match tr_days cfg with None => 86400 | Some _ => 604800 end.
(* a window that contains t, or has t as an edge, has one of these two indices (tr_nbhd_complete) *)
Definition tr_nbhd (cfg : tr_range) (t : Z) : list Z :=
  let q := t / tr_period cfg in [q - 1; q].
Definition tr_spec_in_range (cfg : tr_range) (t : Z) : bool :=
  existsb (fun k => tr_in_window_b (tr_windows cfg k) t) (tr_nbhd cfg t).
Definition tr_spec_same_range (cfg : tr_range) (t1 t2 : Z) : bool :=
  existsb (fun k => tr_in_window_b (tr_windows cfg k) t1 && tr_in_window_b (tr_windows cfg k) t2) (tr_nbhd cfg t1).
Definition tr_at_edge_b (cfg : tr_range) (t : Z) : bool :=
  existsb (fun k => match tr_windows cfg k with Some (lo, hi) => (t =? lo) || (t =? hi) | None => false end) (tr_nbhd cfg t).

(* civil readings that are skipped or repeated by a transition of the zone: [T+min(off,off'), T+max(off,off')) *)
Fixpoint tr_ambiguous_from (off : Z) (tr : list (Z * Z)) (l : Z) : bool :=
  match tr with
  | [] => false
  | (at_, off') :: rest =>
      let a := at_ + Z.min off off' + tr_epoch_shift in
      let b := at_ + Z.max off off' + tr_epoch_shift in
      ((a <=? l) && (l <? b)) || tr_ambiguous_from off' rest l
  end.
Definition tr_ambiguous (z : tr_zone) (l : Z) : bool := tr_ambiguous_from (tz_init z) (tz_trans z) l.

(* Per instant, in one pass over the neighbourhood:
     edge = the civil reading is an edge second of a window: pairs with this instant are not evaluated;
     keys = indices of the windows containing the civil reading. *)
Definition tr_spec_row (cfg : tr_range) (l : Z) (k : Z) : bool * bool :=
  match tr_windows cfg k with
  | Some (lo, hi) => ((l =? lo) || (l =? hi), (lo <=? l) && (l <=? hi))
  | None => (false, false)
  end.
Definition tr_spec_info (cfg : tr_range) (u : Z) : bool * list Z :=
  let l := tr_local cfg u in
  let rows := map (fun k => (k, tr_spec_row cfg l k)) (tr_nbhd cfg l) in
  (existsb (fun r => fst (snd r)) rows, map fst (filter (fun r => snd (snd r)) rows)).
Definition tr_spec_in_range_of (i : bool * list Z) : bool := match snd i with [] => false | _ => true end.
(* per pair: 0 = no common window, 1 = a common window, 2 = not evaluated (an edge second, or the civil readings
   are in the reverse order of the instants) *)
Definition tr_spec_pair_of (cfg : tr_range) (u1 u2 : Z) (i1 i2 : bool * list Z) : Z :=
  if fst i1 || fst i2 then 2
  else if negb (tr_order_preserved_b cfg u1 u2) then 2
  else if existsb (fun k => existsb (Z.eqb k) (snd i2)) (snd i1) then 1 else 0.

(* classification of a failing pair in a zone with transitions: the end time of day is a skipped civil time on
   the civil date of the earlier instant, or on the date the code places the session end (defect
   dst-end-time-skipped, repaired in dd0be1e: time.Date in the zone moved such a time, AddDate kept the moved clock
   reading; kept so that a regression is reported under the same signature) *)
Definition tr_dst_end_skipped (cfg : tr_range) (u1 u2 : Z) : bool :=
  let a := if u2 <? u1 then u2 else u1 in
  let l := tr_local cfg a in
  tr_ambiguous (tr_loc cfg) (tr_midnight l + tr_end cfg)
  || tr_ambiguous (tr_loc cfg) (tr_midnight l + tr_end cfg + tr_day_offset cfg l * 86400).
