(* The text formats of the file store: fmt "%d", "%019d", strconv.Atoi(strings.Trim(s,"\r\n")),
   fmt.Fscanf(r, "%d,%d,%d\n", ...) on a reader that is not a RuneScanner (each call starts a fresh
   one-rune look-ahead), and the creation-time text.  Go library fragments: modelled, validated by the
   correspondence streams (trace comparison and recovery on crash images), not verified against Go's source. *)
From Coq Require Import ZArith List Bool.
From QF Require Import Base.Res Base.Bytes.
Import ListNotations.
Open Scope Z_scope.

Definition COMMA : Z := 44.
Definition NL : Z := 10.
Definition CR : Z := 13.
Definition PLUS : Z := 43.

(* the w low decimal digits of n >= 0, most significant first *)
Fixpoint st_digits (w : nat) (n : Z) : bytes :=
  match w with
  | O => []
  | S w' => st_digits w' (n / 10) ++ [CH0 + n mod 10]
  end.

(* drop leading '0's but keep the last digit *)
Fixpoint st_strip0 (l : bytes) : bytes :=
  match l with
  | c :: (_ :: _) as r => if c =? CH0 then st_strip0 r else l
  | _ => l
  end.

(* decimal text of n >= 0 (n < 10^20; a Go int has at most 19 digits) *)
Definition st_udec (n : Z) : bytes := st_strip0 (st_digits 20 n).

(* fmt "%d" *)
Definition st_fmt_d (n : Z) : bytes := if n <? 0 then MINUS :: st_udec (- n) else st_udec n.

Definition ten18 : Z := 1000000000000000000.
Definition ten19 : Z := 10000000000000000000.

(* fmt "%019d": width 19 including the sign, zero padded, never truncated *)
Definition st_fmt_019d (n : Z) : bytes :=
  if (0 <=? n) && (n <? ten19) then st_digits 19 n
  else if (- ten18 <? n) && (n <? 0) then MINUS :: st_digits 18 (- n)
  else st_fmt_d n.

(* header line: fmt.Fprintf(headerFile, "%d,%d,%d\n", seqNum, offset, len(msg)) *)
Definition st_header_line (seq off size : Z) : bytes :=
  st_fmt_d seq ++ [COMMA] ++ st_fmt_d off ++ [COMMA] ++ st_fmt_d size ++ [NL].

(* value of a digit string *)
Fixpoint st_dec_value (d : bytes) (acc : Z) : Z :=
  match d with
  | [] => acc
  | c :: r => st_dec_value r (acc * 10 + (c - CH0))
  end.

(* strconv.ParseInt(s, 10, 64) / strconv.Atoi on 64-bit: optional sign, at least one digit, digits only, range checked *)
Definition st_atoi (s : bytes) : option Z :=
  let '(neg, d) := match s with
                   | c :: r => if c =? MINUS then (true, r) else if c =? PLUS then (false, r) else (false, s)
                   | [] => (false, s)
                   end in
  match d with
  | [] => None
  | _ =>
      if forallb is_digit d then
        let v := st_dec_value d 0 in
        if neg then (if v <=? two63 then Some (- v) else None)
        else (if v <? two63 then Some v else None)
      else None
  end.

(* strings.Trim(s, "\r\n") *)
Definition is_crlf (c : Z) : bool := (c =? CR) || (c =? NL).
Fixpoint st_trim_left (s : bytes) : bytes :=
  match s with
  | c :: r => if is_crlf c then st_trim_left r else s
  | [] => []
  end.
Definition st_trim_crlf (s : bytes) : bytes := rev (st_trim_left (rev (st_trim_left s))).

(* ---- fmt.Fscanf(headerFile, "%d,%d,%d\n", &seqNum, &offset, &size) *)

(* isSpace restricted to one-byte runes other than newline *)
Definition is_space_nonl (c : Z) : bool :=
  (c =? 32) || (c =? 9) || (c =? CR) || (c =? 11) || (c =? 12).

Inductive scan1 :=
| S1Val (v : Z) (rest : bytes)
| S1EOF            (* io.EOF *)
| S1Err.           (* any other error *)

Fixpoint st_take_digits (s : bytes) : bytes * bytes :=
  match s with
  | c :: r => if is_digit c then let '(d, rest) := st_take_digits r in (c :: d, rest) else ([], s)
  | [] => ([], [])
  end.

(* SkipSpace with nlIsSpace = false: a newline is the error "unexpected newline" *)
Fixpoint st_skip_space (s : bytes) : option bytes :=
  match s with
  | c :: r => if c =? NL then None else if is_space_nonl c then st_skip_space r else Some s
  | [] => Some []
  end.

(* the %d verb: SkipSpace; notEOF; accept(sign); scanNumber; ParseInt *)
Definition st_scan_int (s : bytes) : scan1 :=
  match st_skip_space s with
  | None => S1Err
  | Some [] => S1EOF
  | Some ((c :: r) as s1) =>
      let '(sign, s2) := if (c =? MINUS) || (c =? PLUS) then ([c], r) else ([], s1) in
      match s2 with
      | [] => S1EOF                                     (* scanNumber: notEOF *)
      | _ =>
          let '(d, rest) := st_take_digits s2 in
          match d with
          | [] => S1Err                                 (* "expected integer" *)
          | _ => match st_atoi (sign ++ d) with
                 | Some v => S1Val v rest
                 | None => S1Err                        (* value out of range *)
                 end
          end
      end
  end.

(* a literal of the format: mustReadRune, must match *)
Definition st_scan_lit (c : Z) (s : bytes) : option bytes :=
  match s with
  | x :: r => if x =? c then Some r else None
  | [] => None                                          (* io.ErrUnexpectedEOF *)
  end.

(* the trailing newline of the format: spaces, then newline or end of input *)
Fixpoint st_scan_nl (s : bytes) : option bytes :=
  match s with
  | [] => Some []
  | c :: r => if c =? NL then Some r else if is_space_nonl c then st_scan_nl r else None
  end.

Inductive scanline :=
| SLine (seq off size : Z) (rest : bytes)
| SEOF
| SErr.

Definition st_fscanf_line (s : bytes) : scanline :=
  match st_scan_int s with
  | S1EOF => SEOF | S1Err => SErr
  | S1Val seq s1 =>
    match st_scan_lit COMMA s1 with
    | None => SErr
    | Some s2 =>
      match st_scan_int s2 with
      | S1EOF => SEOF | S1Err => SErr
      | S1Val off s3 =>
        match st_scan_lit COMMA s3 with
        | None => SErr
        | Some s4 =>
          match st_scan_int s4 with
          | S1EOF => SEOF | S1Err => SErr
          | S1Val size s5 =>
            match st_scan_nl s5 with
            | None => SErr
            | Some s6 => SLine seq off size s6
            end
          end
        end
      end
    end
  end.

(* ---- creation time text.  The real text is RFC 3339 with nanoseconds (time.Time.MarshalText); the
   model writes the epoch id in decimal followed by 'Z'.  What matters and is shared with the real format:
   the text parses back to the same time, and no proper prefix of it parses. *)
Definition CHZ : Z := 90.
Definition st_time_text (t : Z) : bytes := st_fmt_d t ++ [CHZ].
Definition st_parse_time (s : bytes) : option Z :=
  match rev s with
  | c :: r => if c =? CHZ then st_atoi (rev r) else None
  | [] => None
  end.
