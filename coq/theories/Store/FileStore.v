(* store/file/file_store.go + util.go, operation by operation.  Every operation is (1) a list of file
   primitives computed from the store and the file system as they are when the operation starts and (2) the
   new in-memory cache; reads (os.ReadFile, Fscanf, ReadAt) do not appear in the primitive list.
   fileSync = true (the default).  I/O errors of the primitives are not modelled. *)
From Coq Require Import ZArith List Bool.
From QF Require Import Base.Res Base.Bytes Store.AbsStore Store.MemStore Store.Dec Store.FS.
Import ListNotations.
Open Scope Z_scope.

Definition FK_BODY : Z := 0.
Definition FK_HEADER : Z := 1.
Definition FK_SESSION : Z := 2.
Definition FK_SENDER : Z := 3.
Definition FK_TARGET : Z := 4.
(* file name: <prefix of the session id>.<kind>; session ids are numbers here, createFilenamePrefix is assumed
   injective on the ids in use (ids containing '_' or '-' can collide in the real code: outside distinct_prefix) *)
Definition fnm (sid kind : Z) : Z := sid * 8 + kind.
Definition fnm_sid (n : Z) : Z := n / 8.
Definition fnm_kind (n : Z) : Z := n mod 8.

Record fstore := mk_fstore {
  ft_sid : Z;
  ft_cache : memstore;
  ft_open : bool          (* the five *os.File handles are non-nil *)
}.

Definition file_kinds : list Z := [FK_BODY; FK_HEADER; FK_SESSION; FK_SENDER; FK_TARGET].

(* Close: closeSyncFile on body, header, session, senderSeqNums, targetSeqNums (Sync then Close; nil handles skipped) *)
Definition file_close_prims (st : fstore) : list prim :=
  if ft_open st then map (fun k => PSync (fnm (ft_sid st) k)) file_kinds else [].

(* setSeqNum(f, seqNum): Seek(0, SeekStart); Fprintf(f, "%019d", seqNum); Sync *)
Definition file_set_seq_num_prims (f : Z) (n : Z) : list prim :=
  [PSeekStart f; PWrite f O (st_fmt_019d n); PSync f].

(* setSession: Seek(0, SeekStart); Write(CreationTime().MarshalText()); Sync *)
Definition file_set_session_prims (sid : Z) (t : Z) : list prim :=
  let f := fnm sid FK_SESSION in [PSeekStart f; PWrite f O (st_time_text t); PSync f].

(* populateCache *)
Definition file_populate_cache (sid : Z) (c : memstore) (fs : fsys) : memstore * bool :=
  let '(c1, populated) :=
    match fs_read (fnm sid FK_SESSION) fs with
    | Some tb => match st_parse_time tb with
                 | Some t => (mem_set_creation_time c t, true)
                 | None => (c, false)
                 end
    | None => (c, false)
    end in
  let c2 :=
    match fs_read (fnm sid FK_SENDER) fs with
    | Some sb => match st_atoi (st_trim_crlf sb) with Some n => mem_set_next_sender c1 n | None => c1 end
    | None => c1
    end in
  let c3 :=
    match fs_read (fnm sid FK_TARGET) fs with
    | Some sb => match st_atoi (st_trim_crlf sb) with Some n => mem_set_next_target c2 n | None => c2 end
    | None => c2
    end in
  (c3, populated).

(* Refresh: cache.Reset; Close; populateCache; open the five files; setSession unless the creation time was read;
   SetNextSenderMsgSeqNum(NextSenderMsgSeqNum()); SetNextTargetMsgSeqNum(NextTargetMsgSeqNum()) *)
Definition file_refresh (st : fstore) (fs : fsys) (now : Z) : list prim * memstore :=
  let sid := ft_sid st in
  let '(c, populated) := file_populate_cache sid (mem_reset now) fs in
  (file_close_prims st
   ++ map (fun k => POpen (fnm sid k)) file_kinds
   ++ (if populated then [] else file_set_session_prims sid (mem_creation_time c))
   ++ file_set_seq_num_prims (fnm sid FK_SENDER) (mem_next_sender c)
   ++ file_set_seq_num_prims (fnm sid FK_TARGET) (mem_next_target c),
   c).

(* newFileStore *)
Definition file_new_store (sid : Z) (now : Z) (fs : fsys) : fstore * fsys :=
  let st0 := mk_fstore sid (mem_create now) false in
  let '(ps, c) := file_refresh st0 fs now in
  (mk_fstore sid c true, fs_run fs ps).

(* Reset: cache.Reset; Close; remove the five files; Refresh *)
Definition file_reset (st : fstore) (fs : fsys) (now : Z) : list prim * memstore :=
  let sid := ft_sid st in
  let ps1 := file_close_prims st ++ map (fun k => PRemove (fnm sid k)) file_kinds in
  let '(ps2, c) := file_refresh (mk_fstore sid (mem_reset now) false) (fs_run fs ps1) now in
  (ps1 ++ ps2, c).

(* SaveMessage: offset = bodyFile.Seek(0, SeekEnd); headerFile.Seek(0, SeekEnd); Fprintf(headerFile, "%d,%d,%d\n", ...);
   bodyFile.Write(msg); bodyFile.Sync(); headerFile.Sync() *)
Definition file_save_message_prims (sid : Z) (fs : fsys) (n : Z) (bs : bytes) : list prim :=
  let fb := fnm sid FK_BODY in
  let fh := fnm sid FK_HEADER in
  let off := fs_size fb fs in
  [PSeekEnd fb; PSeekEnd fh;
   PWrite fh (fs_size fh fs) (st_header_line n (Z.of_nat off) (len bs));
   PWrite fb off bs;
   PSync fb; PSync fh].

(* IterateMessages: sync body and header, open read-only views of both, then scan the header *)
Definition file_iterate_prims (sid : Z) : list prim :=
  [PSync (fnm sid FK_BODY); PSync (fnm sid FK_HEADER); POpen (fnm sid FK_BODY); POpen (fnm sid FK_HEADER)].

Fixpoint file_iter_loop (fuel : nat) (hdr body : bytes) (b e : Z) (abort : option nat) (seen : list bytes) : sout :=
  match fuel with
  | O => mk_sout ST_FUEL seen
  | S fuel' =>
      match st_fscanf_line hdr with
      | SEOF => mk_sout ST_OK seen
      | SErr => mk_sout ST_ERR seen
      | SLine seq off size rest =>
          if e <? seq then mk_sout ST_OK seen
          else if seq <? b then file_iter_loop fuel' rest body b e abort seen
          else match read_at body off size with
               | Ok msg =>
                   let '(seen', fail) := cb_call abort seen msg in
                   if fail then mk_sout ST_CB seen' else file_iter_loop fuel' rest body b e abort seen'
               | Err _ => mk_sout ST_ERR seen
               | Panic => mk_sout ST_PANIC seen
               | OutOfFuel => mk_sout ST_FUEL seen
               end
      end
  end.

Definition fs_data (n : Z) (fs : fsys) : bytes := match fs_read n fs with Some d => d | None => [] end.

Definition file_iterate_messages (sid : Z) (fs : fsys) (b e : Z) (abort : option nat) : sout :=
  let hdr := fs_data (fnm sid FK_HEADER) fs in
  file_iter_loop (S (length hdr)) hdr (fs_data (fnm sid FK_BODY) fs) b e abort [].

(* the primitive list and the new cache of one operation *)
Definition file_op (st : fstore) (fs : fsys) (op : sop) : list prim * memstore :=
  let sid := ft_sid st in
  let c := ft_cache st in
  match op with
  | OSetSender n => (file_set_seq_num_prims (fnm sid FK_SENDER) n, mem_set_next_sender c n)
  | OSetTarget n => (file_set_seq_num_prims (fnm sid FK_TARGET) n, mem_set_next_target c n)
  | OIncrSender => let n := mem_next_sender c + 1 in (file_set_seq_num_prims (fnm sid FK_SENDER) n, mem_set_next_sender c n)
  | OIncrTarget => let n := mem_next_target c + 1 in (file_set_seq_num_prims (fnm sid FK_TARGET) n, mem_set_next_target c n)
  | OSave n bs => (file_save_message_prims sid fs n bs, c)
  | OSaveIncr n bs =>
      let nx := mem_next_sender c + 1 in
      (file_save_message_prims sid fs n bs ++ file_set_seq_num_prims (fnm sid FK_SENDER) nx, mem_set_next_sender c nx)
  | OGet _ _ | OIterate _ _ _ => (file_iterate_prims sid, c)
  | ORefresh now => file_refresh st fs now
  | OReset now => file_reset st fs now
  | OReopen now =>
      let ps0 := file_close_prims st in
      let '(ps, c') := file_refresh (mk_fstore sid (mem_create now) false) (fs_run fs ps0) now in
      (ps0 ++ ps, c')
  end.

Definition file_op_prims (st : fstore) (fs : fsys) (op : sop) : list prim := fst (file_op st fs op).

Definition file_step (st : fstore) (fs : fsys) (op : sop) : fstore * fsys * sout :=
  let '(ps, c) := file_op st fs op in
  let fs' := fs_run fs ps in
  let out := match op with
             | OGet b e => file_iterate_messages (ft_sid st) fs' b e None
             | OIterate b e abort => file_iterate_messages (ft_sid st) fs' b e abort
             | _ => sout_ok
             end in
  (mk_fstore (ft_sid st) c true, fs', out).

Definition file_obs (st : fstore) : sobs := mem_obs (ft_cache st).

Fixpoint file_run (st : fstore) (fs : fsys) (ops : list sop) : fstore * fsys * list (sout * sobs) :=
  match ops with
  | [] => (st, fs, [])
  | op :: r =>
      let '(st1, fs1, o) := file_step st fs op in
      let '(st2, fs2, outs) := file_run st1 fs1 r in
      (st2, fs2, (o, file_obs st1) :: outs)
  end.

Fixpoint file_run2 (p : fstore * fstore) (fs : fsys) (ops : list (bool * sop)) : list (sout * sobs) :=
  match ops with
  | [] => []
  | (i, op) :: r =>
      let '(st1, fs1, o) := file_step (pick2 i p) fs op in
      (o, file_obs st1) :: file_run2 (set2 i p st1) fs1 r
  end.

(* ---- abstraction function: what the files of session sid say *)
Fixpoint file_scan_all (fuel : nat) (hdr body : bytes) : option amap :=
  match fuel with
  | O => None
  | S fuel' =>
      match st_fscanf_line hdr with
      | SEOF => Some []
      | SErr => None
      | SLine seq off size rest =>
          match read_at body off size with
          | Ok msg => option_map (cons (seq, msg)) (file_scan_all fuel' rest body)
          | _ => None
          end
      end
  end.

Definition file_abs (sid : Z) (fs : fsys) : option astore :=
  match fs_read (fnm sid FK_SENDER) fs, fs_read (fnm sid FK_TARGET) fs, fs_read (fnm sid FK_SESSION) fs,
        fs_read (fnm sid FK_HEADER) fs, fs_read (fnm sid FK_BODY) fs with
  | Some sb, Some tb, Some cb, Some hdr, Some body =>
      match st_atoi (st_trim_crlf sb), st_atoi (st_trim_crlf tb), st_parse_time cb, file_scan_all (S (length hdr)) hdr body with
      | Some s, Some t, Some c, Some m => Some (mk_astore s t c m)
      | _, _, _, _ => None
      end
  | _, _, _, _, _ => None
  end.

(* the cache agrees with the abstract state (the cache never holds messages) *)
Definition file_cache_agrees (st : fstore) (a : astore) : Prop :=
  mem_obs (ft_cache st) = abs_obs a /\ m_map (ft_cache st) = [].
