(* Round trips of the text formats of the file store: "%d" / "%019d" against Atoi, header lines against Fscanf,
   the creation-time text. *)
From Coq Require Import ZArith List Bool Lia.
From QF Require Import Base.Res Base.Bytes Store.Dec.
Import ListNotations.
Open Scope Z_scope.

Lemma st_dec_value_app l c acc : st_dec_value (l ++ [c]) acc = st_dec_value l acc * 10 + (c - CH0).
Proof. revert acc. induction l as [|x r IH]; intros acc; cbn [app st_dec_value]; [reflexivity | apply IH]. Qed.

Lemma st_digits_length w n : length (st_digits w n) = w.
Proof. revert n. induction w as [|w IH]; intros n; cbn [st_digits]; [reflexivity|]. rewrite app_length, IH. cbn. lia. Qed.

Lemma is_digit_mod n : is_digit (CH0 + n mod 10) = true.
Proof. unfold is_digit, CH0, CH9. pose proof (Z.mod_pos_bound n 10 ltac:(lia)). lia. Qed.

Lemma st_digits_digits w n : forallb is_digit (st_digits w n) = true.
Proof.
  revert n. induction w as [|w IH]; intros n; cbn [st_digits]; [reflexivity|].
  rewrite forallb_app, IH. cbn [forallb]. rewrite is_digit_mod. reflexivity.
Qed.

Lemma st_digits_value w : forall n acc,
  st_dec_value (st_digits w n) acc = acc * 10 ^ Z.of_nat w + n mod 10 ^ Z.of_nat w.
Proof.
  induction w as [|w IH]; intros n acc.
  - cbn [st_digits st_dec_value]. change (10 ^ Z.of_nat 0) with 1. rewrite Z.mod_1_r. lia.
  - cbn [st_digits]. rewrite st_dec_value_app, IH.
    rewrite Nat2Z.inj_succ, Z.pow_succ_r by lia.
    rewrite (Z.rem_mul_r n 10 (10 ^ Z.of_nat w)) by lia.
    unfold CH0. lia.
Qed.

Lemma st_strip0_value l : st_dec_value (st_strip0 l) 0 = st_dec_value l 0.
Proof.
  induction l as [|c r IH]; [reflexivity|]. cbn [st_strip0]. destruct r as [|x r']; [reflexivity|].
  destruct (c =? CH0) eqn:E; [|reflexivity]. rewrite IH. cbn [st_dec_value].
  assert (c = CH0) by lia. subst c. reflexivity.
Qed.

Lemma st_strip0_digits l : forallb is_digit l = true -> forallb is_digit (st_strip0 l) = true.
Proof.
  induction l as [|c r IH]; intros H; [reflexivity|]. cbn [st_strip0]. destruct r as [|x r']; [exact H|].
  destruct (c =? CH0); [|exact H]. apply IH. cbn [forallb] in H. apply andb_true_iff in H. apply H.
Qed.

Lemma st_strip0_nonempty l : l <> [] -> st_strip0 l <> [].
Proof.
  induction l as [|c r IH]; intros H; [contradiction|]. cbn [st_strip0]. destruct r as [|x r']; [exact H|].
  destruct (c =? CH0); [|exact H]. apply IH. discriminate.
Qed.

Definition ten20 : Z := 100000000000000000000.

Lemma st_udec_digits n : forallb is_digit (st_udec n) = true.
Proof. apply st_strip0_digits, st_digits_digits. Qed.

Lemma st_udec_nonempty n : st_udec n <> [].
Proof. apply st_strip0_nonempty. intros E. pose proof (st_digits_length 20 n) as L. rewrite E in L. discriminate. Qed.

Lemma st_udec_value n : 0 <= n < ten20 -> st_dec_value (st_udec n) 0 = n.
Proof.
  intros H. unfold st_udec. rewrite st_strip0_value, st_digits_value.
  change (10 ^ Z.of_nat 20) with ten20. rewrite Z.mod_small by exact H. lia.
Qed.

Lemma digit_not_sign c : is_digit c = true -> (c =? MINUS) = false /\ (c =? PLUS) = false.
Proof. unfold is_digit, CH0, CH9, MINUS, PLUS. lia. Qed.

Lemma st_atoi_digits d : d <> [] -> forallb is_digit d = true ->
  st_atoi d = if st_dec_value d 0 <? two63 then Some (st_dec_value d 0) else None.
Proof.
  intros Hne Hd. unfold st_atoi. destruct d as [|c r]; [contradiction|].
  cbn [forallb] in Hd. apply andb_true_iff in Hd. destruct Hd as [Hc Hr].
  destruct (digit_not_sign c Hc) as [E1 E2]. rewrite E1, E2.
  cbn [forallb]. rewrite Hc, Hr. reflexivity.
Qed.

Lemma st_atoi_neg d : d <> [] -> forallb is_digit d = true ->
  st_atoi (MINUS :: d) = if st_dec_value d 0 <=? two63 then Some (- st_dec_value d 0) else None.
Proof.
  intros Hne Hd. unfold st_atoi. rewrite Z.eqb_refl. destruct d as [|c r]; [contradiction|]. rewrite Hd. reflexivity.
Qed.

Lemma two63_lt_ten20 : two63 < ten20. Proof. reflexivity. Qed.

(* strconv.Atoi(fmt.Sprintf("%d", n)) = n for every Go int *)
Lemma st_atoi_fmt_d n : - two63 <= n < two63 -> st_atoi (st_fmt_d n) = Some n.
Proof.
  intros H. pose proof two63_lt_ten20 as T. unfold st_fmt_d. destruct (n <? 0) eqn:E.
  - rewrite st_atoi_neg by (apply st_udec_nonempty || apply st_udec_digits).
    rewrite st_udec_value by lia. assert (E2 : (- n <=? two63) = true) by lia. rewrite E2. f_equal; lia.
  - rewrite st_atoi_digits by (apply st_udec_nonempty || apply st_udec_digits).
    rewrite st_udec_value by lia. assert (E2 : (n <? two63) = true) by lia. rewrite E2. reflexivity.
Qed.

(* ---- "%019d" *)
Definition ctr_rng (n : Z) : Prop := - ten18 < n < two63.

Lemma st_fmt_019d_length n : ctr_rng n -> length (st_fmt_019d n) = 19%nat.
Proof.
  intros [H1 H2]. unfold st_fmt_019d.
  destruct ((0 <=? n) && (n <? ten19)) eqn:E1; [apply st_digits_length|].
  assert (E2 : (- ten18 <? n) && (n <? 0) = true) by (unfold ten19, two63 in *; lia).
  rewrite E2. cbn [length]. rewrite st_digits_length. reflexivity.
Qed.

Lemma st_atoi_fmt_019d n : ctr_rng n -> st_atoi (st_fmt_019d n) = Some n.
Proof.
  intros [H1 H2]. unfold st_fmt_019d.
  destruct ((0 <=? n) && (n <? ten19)) eqn:E1.
  - rewrite st_atoi_digits.
    + rewrite st_digits_value. change (10 ^ Z.of_nat 19) with ten19. rewrite Z.mod_small by lia.
      assert (E2 : (0 * ten19 + n <? two63) = true) by lia. rewrite E2. f_equal; lia.
    + intros E. pose proof (st_digits_length 19 n) as L. rewrite E in L. discriminate.
    + apply st_digits_digits.
  - assert (E2 : (- ten18 <? n) && (n <? 0) = true) by (unfold ten19, two63 in *; lia).
    rewrite E2. rewrite st_atoi_neg.
    + rewrite st_digits_value. change (10 ^ Z.of_nat 18) with ten18. rewrite Z.mod_small by lia.
      assert (E3 : (0 * ten18 + - n <=? two63) = true) by (unfold ten18, two63 in *; lia). rewrite E3. f_equal; lia.
    + intros E. pose proof (st_digits_length 18 (- n)) as L. rewrite E in L. discriminate.
    + apply st_digits_digits.
Qed.

Definition no_crlf (s : bytes) : Prop := Forall (fun c => is_crlf c = false) s.

Lemma st_trim_left_id s : no_crlf s -> st_trim_left s = s.
Proof. intros H. destruct s as [|c r]; [reflexivity|]. inversion H as [|? ? H1 _]; subst. cbn [st_trim_left]. rewrite H1. reflexivity. Qed.

Lemma st_trim_crlf_id s : no_crlf s -> st_trim_crlf s = s.
Proof.
  intros H. unfold st_trim_crlf. rewrite (st_trim_left_id s H).
  rewrite st_trim_left_id by (apply Forall_rev; exact H). apply rev_involutive.
Qed.

Lemma digits_no_crlf d : forallb is_digit d = true -> no_crlf d.
Proof.
  intros H. apply Forall_forall. intros c Hc. rewrite forallb_forall in H. specialize (H c Hc).
  unfold is_digit, is_crlf, CH0, CH9, CR, NL in *. lia.
Qed.

Lemma st_fmt_019d_no_crlf n : ctr_rng n -> no_crlf (st_fmt_019d n).
Proof.
  intros [H1 H2]. unfold st_fmt_019d.
  destruct ((0 <=? n) && (n <? ten19)) eqn:E1; [apply digits_no_crlf, st_digits_digits|].
  assert (E2 : (- ten18 <? n) && (n <? 0) = true) by (unfold ten19, two63 in *; lia).
  rewrite E2. constructor; [reflexivity | apply digits_no_crlf, st_digits_digits].
Qed.

(* what populateCache reads from a counter file written by setSeqNum *)
Lemma st_counter_roundtrip n : ctr_rng n -> st_atoi (st_trim_crlf (st_fmt_019d n)) = Some n.
Proof. intros H. rewrite st_trim_crlf_id by (apply st_fmt_019d_no_crlf; exact H). apply st_atoi_fmt_019d. exact H. Qed.

(* ---- Fscanf on a header line *)
Lemma st_take_digits_app d c rest :
  forallb is_digit d = true -> is_digit c = false -> st_take_digits (d ++ c :: rest) = (d, c :: rest).
Proof.
  intros Hd Hc. induction d as [|x r IH]; cbn [app st_take_digits].
  - rewrite Hc. reflexivity.
  - cbn [forallb] in Hd. apply andb_true_iff in Hd. destruct Hd as [Hx Hr]. rewrite Hx, (IH Hr). reflexivity.
Qed.

Lemma digit_not_space c : is_digit c = true -> (c =? NL) = false /\ is_space_nonl c = false.
Proof. unfold is_digit, is_space_nonl, CH0, CH9, NL, CR. lia. Qed.

Lemma st_scan_int_fmt_d n c rest :
  - two63 <= n < two63 -> is_digit c = false ->
  st_scan_int (st_fmt_d n ++ c :: rest) = S1Val n (c :: rest).
Proof.
  intros Hn Hc. pose proof (st_atoi_fmt_d n Hn) as Hat. unfold st_fmt_d in *.
  pose proof two63_lt_ten20 as T.
  destruct (n <? 0) eqn:E.
  - unfold st_scan_int. cbn [app st_skip_space]. change (MINUS =? NL) with false. change (is_space_nonl MINUS) with false. cbn iota.
    rewrite Z.eqb_refl. cbn [orb].
    pose proof (st_udec_nonempty (- n)) as Hne. pose proof (st_udec_digits (- n)) as Hd.
    destruct (st_udec (- n) ++ c :: rest) as [|y ys] eqn:Ey; [destruct (st_udec (- n)); discriminate|]. rewrite <- Ey.
    rewrite st_take_digits_app by assumption.
    destruct (st_udec (- n)) as [|u us] eqn:Eu; [contradiction|]. cbn [app] in Hat |- *. rewrite Hat. reflexivity.
  - pose proof (st_udec_nonempty n) as Hne. pose proof (st_udec_digits n) as Hd.
    destruct (st_udec n) as [|u us] eqn:Eu; [contradiction|].
    cbn [forallb] in Hd. apply andb_true_iff in Hd. destruct Hd as [Hu Hus].
    destruct (digit_not_space u Hu) as [S1 S2]. destruct (digit_not_sign u Hu) as [G1 G2].
    unfold st_scan_int. cbn [app st_skip_space]. rewrite S1, S2, G1, G2. cbn [orb].
    change (u :: us ++ c :: rest) with ((u :: us) ++ c :: rest).
    rewrite st_take_digits_app by (cbn [forallb]; rewrite ?Hu, ?Hus; auto).
    cbn [app]. rewrite Hat. reflexivity.
Qed.

Lemma st_fscanf_header_line seq off size rest :
  - two63 <= seq < two63 -> - two63 <= off < two63 -> - two63 <= size < two63 ->
  st_fscanf_line (st_header_line seq off size ++ rest) = SLine seq off size rest.
Proof.
  intros H1 H2 H3. unfold st_header_line, st_fscanf_line.
  repeat rewrite <- app_assoc. cbn [app].
  rewrite st_scan_int_fmt_d by (assumption || reflexivity). cbn [st_scan_lit]. rewrite Z.eqb_refl.
  rewrite st_scan_int_fmt_d by (assumption || reflexivity). cbn [st_scan_lit]. rewrite Z.eqb_refl.
  rewrite st_scan_int_fmt_d by (assumption || reflexivity). cbn [st_scan_nl]. rewrite Z.eqb_refl. reflexivity.
Qed.

Lemma st_fscanf_empty : st_fscanf_line [] = SEOF.
Proof. reflexivity. Qed.

Lemma st_header_line_length seq off size : (0 < length (st_header_line seq off size))%nat.
Proof. unfold st_header_line. repeat rewrite app_length. cbn [length]. lia. Qed.

(* ---- creation time *)
Lemma st_parse_time_text t : - two63 <= t < two63 -> st_parse_time (st_time_text t) = Some t.
Proof.
  intros H. unfold st_parse_time, st_time_text. rewrite rev_app_distr. cbn [rev app].
  rewrite Z.eqb_refl, rev_involutive. apply st_atoi_fmt_d. exact H.
Qed.
