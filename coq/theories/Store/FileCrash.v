(* Crash images of the file store (C17): the process dies after k complete primitives of the interrupted
   operation, possibly with the next write cut after j bytes.
   Variant A: everything written so far is kept.  Variant B (power loss): only durable content is kept.
   recover = newFileStore on the image.  c17_recovered_ok is the specification predicate (evaluated both on
   the model's recovery, in the theorems, and on the real store's recovery, in the correspondence stream);
   c17_class describes the classes of crash points of the known design defects of the file format. *)
From Coq Require Import ZArith List Bool.
From QF Require Import Base.Res Base.Bytes Store.AbsStore Store.MemStore Store.Dec Store.FS Store.FileStore.
Import ListNotations.
Open Scope Z_scope.

Inductive cvariant := VA | VB.
Record cpoint := mk_cpoint { cp_k : nat; cp_j : nat; cp_var : cvariant }.

Definition image := list (Z * bytes).

Definition inflight (prims : list prim) (k j : nat) : option (Z * nat * bytes) :=
  match nth_error prims k with
  | Some (PWrite f off bs) => if Nat.ltb 0 j && Nat.ltb j (length bs) then Some (f, off, firstn j bs) else None
  | _ => None
  end.

Definition crash_fs (fs : fsys) (prims : list prim) (k j : nat) : fsys :=
  let fs1 := fs_run fs (firstn k prims) in
  match inflight prims k j with
  | Some (f, off, part) => fs_step fs1 (PWrite f off part)
  | None => fs1
  end.

Definition image_of (v : cvariant) (fs : fsys) : image :=
  map (fun nf => (fst nf, match v with VA => f_data (snd nf) | VB => f_dur (snd nf) end)) fs.

Definition crash_image (fs : fsys) (prims : list prim) (cp : cpoint) : image :=
  image_of (cp_var cp) (crash_fs fs prims (cp_k cp) (cp_j cp)).

Definition fs_of_image (img : image) : fsys := map (fun nd => (fst nd, mk_ffile (snd nd) (snd nd))) img.

(* cut positions inside a write of n bytes: all of them ... *)
Definition all_cuts (n : nat) : list nat := seq 1 (n - 1).
(* ... or, in the correspondence stream, all for short writes and nine sampled ones for long writes *)
Definition sampled_cuts (n : nat) : list nat :=
  if Nat.leb n 40 then all_cuts n
  else [1; n / 8; 2 * n / 8; 3 * n / 8; 4 * n / 8; 5 * n / 8; 6 * n / 8; 7 * n / 8; n - 1]%nat.

Definition is_kind (kind : Z) (f : Z) : bool := fnm_kind f =? kind.

Definition all_cuts_for (_ : Z) (n : nat) : list nat := all_cuts n.
(* the correspondence stream does not cut the write of the creation-time text: its real length (RFC 3339 with nanoseconds)
   differs from the model's, the creation time is not part of C17 and a cut text never parses *)
Definition sampled_cuts_for (f : Z) (n : nat) : list nat := if is_kind FK_SESSION f then [] else sampled_cuts n.

Definition crash_points (cuts : Z -> nat -> list nat) (prims : list prim) : list cpoint :=
  flat_map (fun k =>
    [mk_cpoint k 0 VA; mk_cpoint k 0 VB] ++
    match nth_error prims k with
    | Some (PWrite f _ bs) => map (fun j => mk_cpoint k j VA) (cuts f (length bs))
    | _ => []
    end) (seq 0 (S (length prims))).

(* ---- what is observed on a store opened on the image *)
Record recobs := mk_recobs {
  ro_open_ok : bool;                 (* newFileStore returned no error *)
  ro_snd : Z;
  ro_tgt : Z;
  ro_gets : list (Z * sout);         (* GetMessages(k, k) for every sequence number k saved before or by the interrupted operation *)
  ro_all : sout;                     (* GetMessages over the whole range *)
  ro_post : sout                     (* after SaveMessageAndIncrNextSenderMsgSeqNum(recovered sender number, pb): GetMessages over the whole range *)
}.

Definition RANGE_LO : Z := - two63.
Definition RANGE_HI : Z := two63 - 1.

Definition c17_recover (sid now : Z) (img : image) : fstore * fsys := file_new_store sid now (fs_of_image img).

Definition c17_observe (sid now : Z) (img : image) (keys : list Z) (pb : bytes) : recobs :=
  let '(st, fs) := c17_recover sid now img in
  let '(_, fs2, _) := file_step st fs (OSaveIncr (mem_next_sender (ft_cache st)) pb) in
  mk_recobs true (mem_next_sender (ft_cache st)) (mem_next_target (ft_cache st))
    (map (fun k => (k, file_iterate_messages sid fs k k None)) keys)
    (file_iterate_messages sid fs RANGE_LO RANGE_HI None)
    (file_iterate_messages sid fs2 RANGE_LO RANGE_HI None).

(* keys of interest: everything saved before or by the interrupted operation, ascending *)
Fixpoint keys_union (l1 l2 : list Z) : list Z :=
  match l2 with
  | [] => l1
  | k :: r => if existsb (Z.eqb k) l1 then keys_union l1 r else keys_union (st_insert k l1) r
  end.
Definition c17_keys (a0 a1 : astore) : list Z := keys_union (st_isort (map fst (a_msgs a0))) (map fst (a_msgs a1)).

Fixpoint beq_msgs (a b : list bytes) : bool :=
  match a, b with
  | [], [] => true
  | x :: a', y :: b' => beq_bytes x y && beq_msgs a' b'
  | _, _ => false
  end.

Definition opt_is (o : option bytes) (bs : bytes) : bool :=
  match o with Some v => beq_bytes v bs | None => false end.

Fixpoint find_get (k : Z) (gets : list (Z * sout)) : option sout :=
  match gets with
  | [] => None
  | (k', o) :: r => if k =? k' then Some o else find_get k r
  end.

Definition get_is (gets : list (Z * sout)) (k : Z) (bs : bytes) : bool :=
  match find_get k gets with
  | Some o => (so_st o =? ST_OK) && match so_msgs o with [m] => beq_bytes m bs | _ => false end
  | None => false
  end.

Definition known_bytes (a0 a1 : astore) (m : bytes) : bool :=
  existsb (fun kv => beq_bytes (snd kv) m) (a_msgs a0) || existsb (fun kv => beq_bytes (snd kv) m) (a_msgs a1).

(* the messages that must be there: completed saves that the interrupted operation does not delete, and, when the
   operation moves the sender counter, everything below the recovered counter in the state the counter belongs to *)
Definition c17_required (a0 a1 : astore) (snd' : Z) : amap :=
  filter (fun kv => opt_is (amap_get (fst kv) (a_msgs a1)) (snd kv)) (a_msgs a0)
  ++ (if a_snd a0 =? a_snd a1 then []
      else filter (fun kv => fst kv <? snd') (if snd' =? a_snd a1 then a_msgs a1 else a_msgs a0)).

(* which clause fails: 0 = none; 1 = reopen failed; 2 = a counter is neither its before- nor its after-value;
   3 = a single-number read fails or returns torn/foreign/duplicated bytes; 4 = a required message is missing;
   5 = the whole-range read fails or disagrees with the single reads; 6 = after saving the next message the whole-range
   read fails, returns torn or foreign bytes or lacks the new message *)
Definition c17_failure (a0 a1 : astore) (pb : bytes) (ro : recobs) : Z :=
  if negb (ro_open_ok ro) then 1 else
  if negb (((ro_snd ro =? a_snd a0) || (ro_snd ro =? a_snd a1)) && ((ro_tgt ro =? a_tgt a0) || (ro_tgt ro =? a_tgt a1))) then 2 else
  if negb (forallb (fun ko =>
             (so_st (snd ko) =? ST_OK) &&
             match so_msgs (snd ko) with
             | [] => true
             | [m] => opt_is (amap_get (fst ko) (a_msgs a0)) m || opt_is (amap_get (fst ko) (a_msgs a1)) m
             | _ => false
             end) (ro_gets ro)) then 3 else
  if negb (forallb (fun kv => get_is (ro_gets ro) (fst kv) (snd kv)) (c17_required a0 a1 (ro_snd ro))) then 4 else
  if negb ((so_st (ro_all ro) =? ST_OK) &&
           (beq_msgs (so_msgs (ro_all ro)) (flat_map (fun ko => so_msgs (snd ko)) (ro_gets ro)))) then 5 else
  if negb ((so_st (ro_post ro) =? ST_OK) &&
           forallb (fun m => known_bytes a0 a1 m || beq_bytes m pb) (so_msgs (ro_post ro)) &&
           existsb (beq_bytes pb) (so_msgs (ro_post ro))) then 6 else 0.

Definition c17_recovered_ok (a0 a1 : astore) (pb : bytes) (ro : recobs) : bool := c17_failure a0 a1 pb ro =? 0.

(* ---- classes of crash points of the known design defects (DESIGN section 7, F9) *)

Definition prim_write_to (kind : Z) (nonempty : bool) (p : prim) : bool :=
  match p with
  | PWrite f _ bs => is_kind kind f && (negb nonempty || negb (Nat.eqb (length bs) 0))
  | _ => false
  end.
Definition prim_remove_of (kind : Z) (p : prim) : bool :=
  match p with PRemove f => is_kind kind f | _ => false end.

Definition ctr_value (s : bytes) : option Z := st_atoi (st_trim_crlf s).
Definition optz_eqb (a b : option Z) : bool :=
  match a, b with Some x, Some y => x =? y | None, None => true | _, _ => false end.

(* 1 save-header-before-body: the header line is complete, the (non-empty) body is not
   2 counter-inplace-torn-carry: an existing counter file is being rewritten in place and the mix of new and old digits
     reads as neither the old nor the new number
   3 header-line-torn: the header line is cut
   4 reset-not-atomic: Reset has removed the body file but not yet the sender counter file
   5 counter-new-file-torn: the first write to a new (empty) counter file is cut
   Only variant A has torn writes; class 4 also exists under variant B (removal is taken to be durable at once). *)
Definition c17_class (fs : fsys) (prims : list prim) (cp : cpoint) : Z :=
  let k := cp_k cp in
  let done := firstn k prims in
  let todo := skipn k prims in
  if existsb (prim_remove_of FK_BODY) done && existsb (prim_remove_of FK_SENDER) todo then 4 else
  match cp_var cp with
  | VB => 0
  | VA =>
      match inflight prims k (cp_j cp) with
      | Some (f, off, part) =>
          if is_kind FK_HEADER f then 3
          else if is_kind FK_SENDER f || is_kind FK_TARGET f then
            let old := fs_data f (fs_run fs done) in
            let new := match nth_error prims k with Some (PWrite _ _ bs) => bs | _ => [] end in
            let torn := write_at old off part in
            if optz_eqb (ctr_value torn) (ctr_value old) || optz_eqb (ctr_value torn) (ctr_value new) then 0
            else if Nat.eqb (length old) 0 then 5 else 2
          else if existsb (prim_write_to FK_HEADER false) done && existsb (prim_write_to FK_BODY true) todo then 1
          else 0
      | None =>
          if existsb (prim_write_to FK_HEADER false) done && existsb (prim_write_to FK_BODY true) todo then 1 else 0
      end
  end.

(* one crash case, evaluated on the model: the abstract states before/after, the class and the model's recovery *)
Definition c17_model_case (sid now : Z) (a0 : astore) (st : fstore) (fs : fsys) (op : sop) (pb : bytes) (cp : cpoint)
  : Z * recobs :=
  let prims := file_op_prims st fs op in
  let a1 := fst (abs_step a0 op) in
  (c17_class fs prims cp, c17_observe sid now (crash_image fs prims cp) (c17_keys a0 a1) pb).

(* all sampled crash cases of one interrupted operation (driver of the correspondence stream) *)
Definition c17_model_cases (sid now : Z) (a0 : astore) (st : fstore) (fs : fsys) (op : sop) (pb : bytes)
  : list (cpoint * (Z * recobs)) :=
  map (fun cp => (cp, c17_model_case sid now a0 st fs op pb cp))
      (crash_points sampled_cuts_for (file_op_prims st fs op)).
