(* C17: the crash-consistency statement is false of the faithful model inside each class of the known design defects of
   the file format: one witness per class, checked by computation. *)
From Coq Require Import ZArith List Bool String.
From QF Require Import Base.Res Base.Bytes Store.AbsStore Store.MemStore Store.Dec Store.FS Store.FileStore Store.FileCrash.
Import ListNotations.
Open Scope Z_scope.

Definition cp_eqb (a b : cpoint) : bool :=
  Nat.eqb (cp_k a) (cp_k b) && Nat.eqb (cp_j a) (cp_j b) &&
  match cp_var a, cp_var b with VA, VA | VB, VB => true | _, _ => false end.

(* history h (ascending, on a store created in an empty directory), interrupted operation op, crash point cp of op:
   the crash point is one of the enumerated ones, lies in class cls, and the store recovered from the image violates
   c17_recovered_ok; `clause` is the clause of c17_failure that fails *)
Definition c17_witness (h : list sop) (op : sop) (cp : cpoint) (cls clause : Z) : bool :=
  let sid := 1 in
  let pb := B"POST-CRASH-MESSAGE" in
  let a0 := fst (abs_run (abs_init 0) h) in
  let a1 := fst (abs_step a0 op) in
  let '(st0, fs0) := file_new_store sid 0 [] in
  let '(st, fs, _) := file_run st0 fs0 h in
  let prims := file_op_prims st fs op in
  let ro := c17_observe sid 2000 (crash_image fs prims cp) (c17_keys a0 a1) pb in
  abs_hist_ok (abs_init 0) (h ++ [op])
  && existsb (cp_eqb cp) (crash_points all_cuts_for prims)
  && (c17_class fs prims cp =? cls)
  && negb (c17_recovered_ok a0 a1 pb ro)
  && (c17_failure a0 a1 pb ro =? clause).

(* F9(a): SaveMessageAndIncr(2, "SECOND-MESSAGE") dies after the header line "2,13,14\n" and 9 bytes of the body:
   GetMessages(2,2) fails (and after the next save returns torn bytes) *)
Theorem c17_refuted_save_header_before_body_w :
  c17_witness [OSaveIncr 1 (B"FIRST-MESSAGE")] (OSaveIncr 2 (B"SECOND-MESSAGE")) (mk_cpoint 3 9 VA) 1 3 = true.
Proof. vm_compute. reflexivity. Qed.

(* F9(b): the sender counter is 9; IncrNextSenderMsgSeqNum rewrites "0000000000000000009" as "0000000000000000010" in place
   and dies after 18 bytes: the file reads 19 *)
Theorem c17_refuted_counter_inplace_torn_carry_w :
  c17_witness [OSetSender 9] OIncrSender (mk_cpoint 1 18 VA) 2 2 = true.
Proof. vm_compute. reflexivity. Qed.

(* F9(c): the header line "3,2,1\n" is cut after "3,2": reading the completed save 2 fails *)
Theorem c17_refuted_header_line_torn_w :
  c17_witness [OSaveIncr 1 (B"A"); OSaveIncr 2 (B"B")] (OSaveIncr 3 (B"C")) (mk_cpoint 2 3 VA) 3 3 = true.
Proof. vm_compute. reflexivity. Qed.

(* Reset dies after removing the body file: the header still lists 1 and 2, the sender counter still says 3 *)
Theorem c17_refuted_reset_not_atomic_w :
  c17_witness [OSaveIncr 1 (B"A"); OSaveIncr 2 (B"B")] (OReset 50) (mk_cpoint 6 0 VA) 4 3 = true.
Proof. vm_compute. reflexivity. Qed.

(* the same under power loss (removal durable at once): after the header is removed too the store is empty but the sender counter says 3 *)
Theorem c17_refuted_reset_not_atomic_powerloss_w :
  c17_witness [OSaveIncr 1 (B"A"); OSaveIncr 2 (B"B")] (OReset 50) (mk_cpoint 7 0 VB) 4 4 = true.
Proof. vm_compute. reflexivity. Qed.

(* Reset dies 5 bytes into the first write of the new sender counter file: "00000" reads 0, neither 3 nor 1 *)
Theorem c17_refuted_counter_new_file_torn_w :
  c17_witness [OSaveIncr 1 (B"A"); OSaveIncr 2 (B"B")] (OReset 50) (mk_cpoint 19 5 VA) 5 2 = true.
Proof. vm_compute. reflexivity. Qed.

Theorem c17_refuted_save_header_before_body : exists h op cp clause, c17_witness h op cp 1 clause = true.
Proof. do 4 eexists. exact c17_refuted_save_header_before_body_w. Qed.
Theorem c17_refuted_counter_inplace_torn_carry : exists h op cp clause, c17_witness h op cp 2 clause = true.
Proof. do 4 eexists. exact c17_refuted_counter_inplace_torn_carry_w. Qed.
Theorem c17_refuted_header_line_torn : exists h op cp clause, c17_witness h op cp 3 clause = true.
Proof. do 4 eexists. exact c17_refuted_header_line_torn_w. Qed.
Theorem c17_refuted_reset_not_atomic : exists h op cp clause, c17_witness h op cp 4 clause = true.
Proof. do 4 eexists. exact c17_refuted_reset_not_atomic_w. Qed.
Theorem c17_refuted_counter_new_file_torn : exists h op cp clause, c17_witness h op cp 5 clause = true.
Proof. do 4 eexists. exact c17_refuted_counter_new_file_torn_w. Qed.

(* non-vacuity of the positive statement: outside the classes the same experiment passes, e.g. save-and-increment dying
   between the body write and the syncs, or (power loss) between the two syncs *)
Definition c17_passes (h : list sop) (op : sop) (cp : cpoint) : bool :=
  let sid := 1 in
  let pb := B"POST-CRASH-MESSAGE" in
  let a0 := fst (abs_run (abs_init 0) h) in
  let a1 := fst (abs_step a0 op) in
  let '(st0, fs0) := file_new_store sid 0 [] in
  let '(st, fs, _) := file_run st0 fs0 h in
  let prims := file_op_prims st fs op in
  abs_hist_ok (abs_init 0) (h ++ [op])
  && existsb (cp_eqb cp) (crash_points all_cuts_for prims)
  && (c17_class fs prims cp =? 0)
  && c17_recovered_ok a0 a1 pb (c17_observe sid 2000 (crash_image fs prims cp) (c17_keys a0 a1) pb).

Lemma c17_example_passes :
  c17_passes [OSaveIncr 1 (B"FIRST-MESSAGE")] (OSaveIncr 2 (B"SECOND-MESSAGE")) (mk_cpoint 4 0 VA) = true /\
  c17_passes [OSaveIncr 1 (B"FIRST-MESSAGE")] (OSaveIncr 2 (B"SECOND-MESSAGE")) (mk_cpoint 5 0 VB) = true /\
  c17_passes [OSaveIncr 1 (B"FIRST-MESSAGE")] (OSaveIncr 2 (B"SECOND-MESSAGE")) (mk_cpoint 7 12 VA) = true /\
  c17_passes [OSetSender 8] OIncrSender (mk_cpoint 1 18 VA) = true.
Proof. vm_compute. repeat split. Qed.
