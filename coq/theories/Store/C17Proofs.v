(* C17: the run-level statement (from a history) with the consequences spelled out. *)
From Coq Require Import ZArith List Bool Lia.
From QF Require Import Base.Res Base.Bytes Store.AbsStore Store.AbsStoreProofs Store.MemStore Store.Dec Store.DecProofs
  Store.FS Store.FSProofs Store.FileStore Store.FileStoreProofs Store.FileCrash Store.FileCrashProofs.
Import ListNotations.
Open Scope Z_scope.

Lemma abs_run_app a h : forall op,
  abs_hist_ok a (h ++ [op]) = abs_hist_ok a h && abs_op_ok (fst (abs_run a h)) op.
Proof.
  revert a. induction h as [|x r IH]; intros a op; cbn [app abs_hist_ok abs_run].
  - cbn. rewrite andb_true_r. reflexivity.
  - rewrite IH. destruct (abs_step a x) as [a1 o] eqn:E. cbn [fst]. destruct (abs_run a1 r) as [a2 outs] eqn:E2. cbn [fst].
    rewrite andb_assoc. reflexivity.
Qed.

Lemma amap_range_single m k : amap_sorted m ->
  amap_range k k m = match amap_get k m with Some v => [v] | None => [] end.
Proof.
  intros Hs. rewrite (amap_range_step k k m Hs) by lia. rewrite (amap_range_empty (k + 1) k m) by lia. apply app_nil_r.
Qed.

Lemma amap_get_app_old k v m x : amap_get k m = Some v -> amap_get k (m ++ x) = Some v.
Proof.
  induction m as [|[k' v'] r IH]; cbn [amap_get app]; intros H; [discriminate|].
  destruct (k =? k'); [exact H | apply IH; exact H].
Qed.

(* the operations covered by the theorem only add messages *)
Lemma covered_monotone a op : c17_covered op = true -> abs_op_ok a op = true ->
  forall k bs, amap_get k (a_msgs a) = Some bs -> amap_get k (a_msgs (fst (abs_step a op))) = Some bs.
Proof.
  intros Hcov Hok k bs Hg. destruct op; try discriminate Hcov; cbn [abs_step fst a_msgs abs_op_ok] in *; try exact Hg.
  - rewrite amap_put_append by (apply ok_save_keys with (bs := bs0); exact Hok). apply amap_get_app_old. exact Hg.
  - apply andb_true_iff in Hok. destruct Hok as [Hok _].
    rewrite amap_put_append by (apply ok_save_keys with (bs := bs0); exact Hok). apply amap_get_app_old. exact Hg.
Qed.

Definition get_one (sid : Z) (fs : fsys) (k : Z) : sout := file_iterate_messages sid fs k k None.

(* C17 for the file store over the file-system model, operations set/incr/save/save-and-incr/get/iterate.
   After any ascending history h, interrupt op at any crash point cp (after any primitive; inside any write at any byte;
   variant A: what was written is kept, variant B: only synced content is kept) outside the classes of c17_class.  Then the
   store reopened on the crash image
   - holds an abstract state a' whose counters are each the before- or the after-value, whose messages are those before or
     after the operation, and whose sender counter has moved only if the message is there (c17_consistent);
   - its getters show a'; every read returns exactly the messages of a' in range, byte-identical (no torn or foreign bytes);
   - every completed save is returned intact; if the recovered sender counter is the after-value, every message of the
     after-state (the one being saved included) is returned intact. *)
Theorem crash_consistent_run_partial : forall sid now h op cp now',
  - two63 <= now < two63 -> abs_hist_ok (abs_init now) (h ++ [op]) = true -> c17_covered op = true ->
  let r0 := file_run (fst (file_new_store sid now [])) (snd (file_new_store sid now [])) h in
  let st := fst (fst r0) in let fs := snd (fst r0) in
  let a0 := fst (abs_run (abs_init now) h) in
  let a1 := fst (abs_step a0 op) in
  let prims := file_op_prims st fs op in
  In cp (crash_points all_cuts_for prims) -> c17_class fs prims cp = 0 ->
  let r := c17_recover sid now' (crash_image fs prims cp) in
  exists a',
    c17_consistent a0 a1 a' /\
    file_obs (fst r) = abs_obs a' /\
    (forall b e abort, file_iterate_messages sid (snd r) b e abort = st_deliver abort [] (amap_range b e (a_msgs a'))) /\
    (forall k bs, amap_get k (a_msgs a0) = Some bs -> get_one sid (snd r) k = mk_sout ST_OK [bs]) /\
    (a_snd a' <> a_snd a0 -> forall k bs, amap_get k (a_msgs a1) = Some bs -> get_one sid (snd r) k = mk_sout ST_OK [bs]) /\
    (forall k, get_one sid (snd r) k = mk_sout ST_OK [] \/
               exists bs, amap_get k (a_msgs a1) = Some bs /\ get_one sid (snd r) k = mk_sout ST_OK [bs]).
Proof.
  intros sid now h op cp now' Hnow Hok Hcov r0 st fs a0 a1 prims Hin Hcls r.
  rewrite abs_run_app in Hok. apply andb_true_iff in Hok. destruct Hok as [Hokh Hokop]. fold a0 in Hokop.
  assert (Hinv0 : file_inv sid (fst (file_new_store sid now [])) (snd (file_new_store sid now [])) (abs_init now)).
  { apply file_new_store_inv; [|exact Hnow]. unfold file_absent, file_kinds. repeat constructor. }
  destruct (file_run_refines sid h _ _ _ Hinv0 Hokh) as [_ Hinv]. fold r0 in Hinv. fold st fs a0 in Hinv.
  destruct (crash_consistent_partial sid st fs a0 op cp now' Hinv Hokop Hcov Hin Hcls) as (a' & extra & Hcons & Hwf' & Hr).
  fold prims in Hr. fold r in Hr. cbn zeta in Hr. destruct Hr as (Hx & Ho & _ & _ & Hit).
  pose proof Hinv as (_ & _ & _ & _ & Hwf0).
  pose proof (abs_step_wf a0 op Hwf0 Hokop) as Hwf1. fold a1 in Hwf1.
  pose proof (covered_monotone a0 op Hcov Hokop) as Hmono. fold a1 in Hmono.
  destruct Hwf' as (Hs' & _).
  assert (Hone : forall k, get_one sid (snd r) k = mk_sout ST_OK (match amap_get k (a_msgs a') with Some v => [v] | None => [] end)).
  { intros k. unfold get_one. rewrite Hit, st_deliver_none, amap_range_single by exact Hs'. reflexivity. }
  destruct Hcons as (Hsn & Htg & Hct & Hm & Hsm). unfold a1 in *.
  exists a'. split; [repeat split; assumption|]. split; [exact Ho|]. split; [exact Hit|].
  split; [|split].
  - intros k bs Hg. rewrite Hone. destruct Hm as [Hm|Hm]; rewrite Hm.
    + rewrite Hg. reflexivity.
    + rewrite (Hmono k bs Hg). reflexivity.
  - intros Hne k bs Hg. rewrite Hone, (Hsm Hne), Hg. reflexivity.
  - intros k. rewrite Hone. destruct (amap_get k (a_msgs a')) as [v|] eqn:Eg; [|left; reflexivity].
    right. exists v. split; [|reflexivity]. destruct Hm as [Hm|Hm]; rewrite Hm in Eg; [apply Hmono; exact Eg | exact Eg].
Qed.
