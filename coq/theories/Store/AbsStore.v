(* The abstract message store of C16/C17: two counters, a creation-time epoch id and a finite map
   sequence number -> bytes (association list kept sorted by key), the operation alphabet of
   store.go (MessageStore) and the results every implementation has to reproduce.
   Executable definitions only; lemmas in AbsStoreProofs.v. *)
From Coq Require Import ZArith List Bool.
From QF Require Import Base.Res Base.Bytes.
Import ListNotations.
Open Scope Z_scope.

Definition amap := list (Z * bytes).

Record astore := mk_astore {
  a_snd : Z;      (* NextSenderMsgSeqNum() *)
  a_tgt : Z;      (* NextTargetMsgSeqNum() *)
  a_ctime : Z;    (* CreationTime(), as an epoch id: the value of the clock when the epoch began *)
  a_msgs : amap   (* saved messages, ascending by sequence number *)
}.

(* Operation alphabet. `now` is what time.Now() returns while the operation runs (an oracle input:
   the harness cannot choose it, it only observes renewed/unchanged).  SetCreationTime is not part of the
   alphabet: it is a no-op for the persistent stores and is only used on their caches. *)
Inductive sop :=
| OSetSender (n : Z)
| OSetTarget (n : Z)
| OIncrSender
| OIncrTarget
| OSave (n : Z) (bs : bytes)                       (* SaveMessage *)
| OSaveIncr (n : Z) (bs : bytes)                   (* SaveMessageAndIncrNextSenderMsgSeqNum *)
| OGet (b e : Z)                                   (* GetMessages *)
| OIterate (b e : Z) (abort : option nat)          (* IterateMessages; callback fails at its abort-th call (0-based) *)
| ORefresh (now : Z)
| OReset (now : Z)
| OReopen (now : Z).                               (* Close, then a fresh store on the same backing medium *)

(* result of one operation: status + the messages returned / delivered to the callback.
   status 0 = nil error, 1 = an error of the store, 2 = the callback's error, 3 = panic, 4 = out of fuel (hang) *)
Record sout := mk_sout { so_st : Z; so_msgs : list bytes }.
Definition ST_OK : Z := 0.
Definition ST_ERR : Z := 1.
Definition ST_CB : Z := 2.
Definition ST_PANIC : Z := 3.
Definition ST_FUEL : Z := 4.
Definition sout_ok : sout := mk_sout ST_OK [].

(* the callback of IterateMessages: records what it is given, fails at call number `abort` *)
Definition cb_call (abort : option nat) (seen : list bytes) (m : bytes) : list bytes * bool :=
  (seen ++ [m], match abort with Some k => Nat.eqb k (length seen) | None => false end).

(* delivering a list of messages to the callback, in order, stopping at the callback's error *)
Fixpoint st_deliver (abort : option nat) (seen : list bytes) (l : list bytes) : sout :=
  match l with
  | [] => mk_sout ST_OK seen
  | m :: r =>
      let '(seen', fail) := cb_call abort seen m in
      if fail then mk_sout ST_CB seen' else st_deliver abort seen' r
  end.

Definition in_rng (b e k : Z) : bool := (b <=? k) && (k <=? e).

Definition amap_range (b e : Z) (m : amap) : list bytes :=
  map snd (filter (fun kv => in_rng b e (fst kv)) m).

Fixpoint amap_put (n : Z) (bs : bytes) (m : amap) : amap :=
  match m with
  | [] => [(n, bs)]
  | (k, v) :: r =>
      if n <? k then (n, bs) :: m
      else if n =? k then (n, bs) :: r
      else (k, v) :: amap_put n bs r
  end.

Fixpoint amap_get (k : Z) (m : amap) : option bytes :=
  match m with
  | [] => None
  | (k', v) :: r => if k =? k' then Some v else amap_get k r
  end.

Definition abs_init (now : Z) : astore := mk_astore 1 1 now [].

Definition abs_step (a : astore) (op : sop) : astore * sout :=
  match op with
  | OSetSender n => (mk_astore n (a_tgt a) (a_ctime a) (a_msgs a), sout_ok)
  | OSetTarget n => (mk_astore (a_snd a) n (a_ctime a) (a_msgs a), sout_ok)
  | OIncrSender => (mk_astore (a_snd a + 1) (a_tgt a) (a_ctime a) (a_msgs a), sout_ok)
  | OIncrTarget => (mk_astore (a_snd a) (a_tgt a + 1) (a_ctime a) (a_msgs a), sout_ok)
  | OSave n bs => (mk_astore (a_snd a) (a_tgt a) (a_ctime a) (amap_put n bs (a_msgs a)), sout_ok)
  | OSaveIncr n bs => (mk_astore (a_snd a + 1) (a_tgt a) (a_ctime a) (amap_put n bs (a_msgs a)), sout_ok)
  | OGet b e => (a, mk_sout ST_OK (amap_range b e (a_msgs a)))
  | OIterate b e abort => (a, st_deliver abort [] (amap_range b e (a_msgs a)))
  | ORefresh _ => (a, sout_ok)
  | OReset now => (mk_astore 1 1 now [], sout_ok)
  | OReopen _ => (a, sout_ok)
  end.

(* what is observed after every operation: the three getters *)
Definition sobs := (Z * Z * Z)%type.
Definition abs_obs (a : astore) : sobs := (a_snd a, a_tgt a, a_ctime a).

Fixpoint abs_run (a : astore) (ops : list sop) : astore * list (sout * sobs) :=
  match ops with
  | [] => (a, [])
  | op :: r =>
      let '(a1, o) := abs_step a op in
      let '(a2, outs) := abs_run a1 r in
      (a2, (o, abs_obs a1) :: outs)
  end.

(* ---- the hypothesis of C16/C17: "ascending save numbers per epoch", with the value ranges of Go made explicit *)

Definition ctr_lo : Z := - 1000000000000000000.           (* -10^18: below it "%019d" prints 20 characters *)
Definition ctr_ok (n : Z) : bool := (ctr_lo <? n) && (n <? two63).

Definition amap_keys_lt (n : Z) (m : amap) : bool := forallb (fun kv => fst kv <? n) m.
Definition amap_size (m : amap) : Z := fold_right (fun kv s => len (snd kv) + s) 0 m.

Definition save_ok (a : astore) (n : Z) (bs : bytes) : bool :=
  amap_keys_lt n (a_msgs a) && in_int64b n && (amap_size (a_msgs a) + len bs <? two63).

Definition abs_op_ok (a : astore) (op : sop) : bool :=
  match op with
  | OSetSender n | OSetTarget n => ctr_ok n
  | OIncrSender => ctr_ok (a_snd a + 1)
  | OIncrTarget => ctr_ok (a_tgt a + 1)
  | OSave n bs => save_ok a n bs
  | OSaveIncr n bs => save_ok a n bs && ctr_ok (a_snd a + 1)
  | ORefresh now | OReset now | OReopen now => in_int64b now     (* clock readings fit in 64 bits *)
  | OGet _ _ | OIterate _ _ _ => true
  end.

Fixpoint abs_hist_ok (a : astore) (ops : list sop) : bool :=
  match ops with
  | [] => true
  | op :: r => abs_op_ok a op && abs_hist_ok (fst (abs_step a op)) r
  end.

(* two sessions side by side (driver of the correspondence stream; isolation is a theorem about the concrete stores) *)
Definition pick2 {A} (i : bool) (p : A * A) : A := if i then snd p else fst p.
Definition set2 {A} (i : bool) (p : A * A) (x : A) : A * A := if i then (fst p, x) else (x, snd p).

Fixpoint abs_run2 (p : astore * astore) (ops : list (bool * sop)) : list (sout * sobs) :=
  match ops with
  | [] => []
  | (i, op) :: r =>
      let '(a1, o) := abs_step (pick2 i p) op in
      (o, abs_obs a1) :: abs_run2 (set2 i p a1) r
  end.
