(* Lemmas about the file-system model: what a list of primitives does to one named file. *)
From Coq Require Import ZArith List Bool Lia.
From QF Require Import Base.Res Base.Bytes Store.FS.
Import ListNotations.
Open Scope Z_scope.

(* the effect of one primitive on the file named n *)
Definition ostep (n : Z) (x : option ffile) (p : prim) : option ffile :=
  match p with
  | PSeekStart _ | PSeekEnd _ => x
  | PWrite f off bs => if f =? n then option_map (fun y => mk_ffile (write_at (f_data y) off bs) (f_dur y)) x else x
  | PSync f => if f =? n then option_map (fun y => mk_ffile (f_data y) (f_data y)) x else x
  | PRemove f => if f =? n then None else x
  | POpen f => match x with Some y => Some y | None => if f =? n then Some (mk_ffile [] []) else None end
  end.

Lemma fs_find_update n f g fs :
  fs_find n (fs_update f g fs) = if f =? n then option_map g (fs_find n fs) else fs_find n fs.
Proof.
  induction fs as [|[k x] r IH]; cbn [fs_update fs_find].
  - destruct (f =? n); reflexivity.
  - destruct (k =? f) eqn:E1; cbn [fs_find].
    + destruct (k =? n) eqn:E2.
      * assert (E3 : (f =? n) = true) by lia. rewrite E3. reflexivity.
      * destruct (f =? n) eqn:E3; [lia | reflexivity].
    + destruct (k =? n) eqn:E2.
      * assert (E3 : (f =? n) = false) by lia. rewrite E3. reflexivity.
      * exact IH.
Qed.

Lemma fs_find_remove n f fs : fs_find n (fs_remove f fs) = if f =? n then None else fs_find n fs.
Proof.
  unfold fs_remove. induction fs as [|[k x] r IH]; cbn [filter fs_find fst].
  - destruct (f =? n); reflexivity.
  - destruct (k =? f) eqn:E1; cbn [negb fs_find].
    + destruct (k =? n) eqn:E2.
      * assert (E3 : (f =? n) = true) by lia. rewrite E3 in *. exact IH.
      * exact IH.
    + destruct (k =? n) eqn:E2.
      * assert (E3 : (f =? n) = false) by lia. rewrite E3. reflexivity.
      * exact IH.
Qed.

Lemma fs_find_app n fs k x : fs_find n (fs ++ [(k, x)]) =
  match fs_find n fs with Some y => Some y | None => if k =? n then Some x else None end.
Proof.
  induction fs as [|[k' x'] r IH]; cbn [app fs_find]; [reflexivity|].
  destruct (k' =? n); [reflexivity | exact IH].
Qed.

Lemma fs_find_step n fs p : fs_find n (fs_step fs p) = ostep n (fs_find n fs) p.
Proof.
  destruct p as [f|f|f off bs|f|f|f]; cbn [fs_step ostep]; try reflexivity.
  - apply fs_find_update.
  - apply fs_find_update.
  - apply fs_find_remove.
  - destruct (fs_find f fs) as [y|] eqn:Ef.
    + destruct (fs_find n fs) as [z|] eqn:En; [reflexivity|].
      destruct (f =? n) eqn:E; [|reflexivity]. assert (f = n) by lia. subst. congruence.
    + rewrite fs_find_app. reflexivity.
Qed.

Lemma fs_find_run n ps : forall fs, fs_find n (fs_run fs ps) = fold_left (ostep n) ps (fs_find n fs).
Proof.
  unfold fs_run. induction ps as [|p r IH]; intros fs; cbn [fold_left]; [reflexivity|].
  rewrite IH, fs_find_step. reflexivity.
Qed.

Lemma fs_run_app fs p1 p2 : fs_run fs (p1 ++ p2) = fs_run (fs_run fs p1) p2.
Proof. unfold fs_run. apply fold_left_app. Qed.

(* primitives on other files leave the file alone *)
Definition prim_file (p : prim) : Z :=
  match p with PSeekStart f | PSeekEnd f | PWrite f _ _ | PSync f | PRemove f | POpen f => f end.

Lemma ostep_other n x p : prim_file p <> n -> ostep n x p = match p, x with POpen _, None => None | _, _ => x end.
Proof.
  destruct p as [f|f|f off bs|f|f|f]; cbn [prim_file ostep]; intros H; try reflexivity;
    assert (E : (f =? n) = false) by lia; rewrite E; try reflexivity.
  destruct x; reflexivity.
Qed.

Lemma ostep_other_id n x p : prim_file p <> n -> ostep n x p = x.
Proof. intros H. rewrite ostep_other by exact H. destruct p, x; reflexivity. Qed.

Lemma fold_ostep_other n ps : forall x, Forall (fun p => prim_file p <> n) ps -> fold_left (ostep n) ps x = x.
Proof.
  induction ps as [|p r IH]; intros x H; cbn [fold_left]; [reflexivity|].
  inversion H as [|? ? H1 H2]; subst. rewrite ostep_other_id by exact H1. apply IH. exact H2.
Qed.

(* writes *)
Lemma write_at_end d bs : write_at d (length d) bs = d ++ bs.
Proof.
  unfold write_at. rewrite firstn_all, Nat.sub_diag. cbn [repeat app].
  rewrite skipn_all2 by lia. rewrite app_nil_r. reflexivity.
Qed.

Lemma write_at_over d bs : (length d <= length bs)%nat -> write_at d 0 bs = bs.
Proof.
  intros H. unfold write_at. cbn [firstn Nat.sub repeat app Nat.add]. rewrite skipn_all2 by lia. apply app_nil_r.
Qed.

Lemma read_at_mid pre bs rest : read_at (pre ++ bs ++ rest) (len pre) (len bs) = Ok bs.
Proof.
  unfold read_at, len. pose proof (Nat2Z.is_nonneg (length bs)) as P1. pose proof (Nat2Z.is_nonneg (length pre)) as P2.
  assert (E1 : (Z.of_nat (length bs) <? 0) = false) by lia.
  assert (E2 : (Z.of_nat (length pre) <? 0) = false) by lia. rewrite E1, E2.
  destruct (Z.of_nat (length bs) =? 0) eqn:E3.
  - destruct bs; [reflexivity | cbn in E3; lia].
  - repeat rewrite app_length.
    assert (E4 : (Z.of_nat (length pre) + Z.of_nat (length bs) <=? Z.of_nat (length pre + (length bs + length rest))) = true) by (apply Z.leb_le; lia).
    rewrite E4. rewrite !Nat2Z.id. rewrite skipn_app, skipn_all, Nat.sub_diag. cbn [app skipn].
    rewrite firstn_app, firstn_all, Nat.sub_diag. cbn [firstn]. rewrite app_nil_r. reflexivity.
Qed.
