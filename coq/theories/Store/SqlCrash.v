(* C17, SQL part: the specification predicate for save-and-increment with an injected statement failure. *)
From Coq Require Import ZArith List Bool.
From QF Require Import Base.Res Base.Bytes Store.AbsStore Store.MemStore Store.SqlStore Store.FileCrash.
Import ListNotations.
Open Scope Z_scope.

(* what is observed after the failed call: its status, NextSenderMsgSeqNum() of the cache, and after Refresh() the two
   counters and the messages of the whole range.  Neither the message nor the increment may be left behind. *)
Definition c17_sql_atomic_ok (a : astore) (status snd_cache snd_db tgt_db : Z) (msgs : list bytes) : bool :=
  (status =? ST_ERR) && (snd_cache =? a_snd a) && (snd_db =? a_snd a) && (tgt_db =? a_tgt a)
  && beq_msgs msgs (map snd (a_msgs a)).

(* the model's observation for the same experiment *)
Definition sql_fail_observe (st : sqlstore) (db : sqldb) (n : Z) (bs : bytes) (fail : Z)
  : Z * Z * Z * Z * list bytes * (Z * Z * list bytes) :=
  let '(st1, db1, o1) := sql_save_message_and_incr st db n bs fail in
  let '(st2, db2, _) := sql_step st1 db1 (ORefresh 0) in
  let msgs := sql_get_messages (sq_sid st2) (- two63) (two63 - 1) db2 in
  let '(st3, db3, o3) := sql_save_message_and_incr st2 db2 n bs 0 in
  (so_st o1, mem_next_sender (sq_cache st1), mem_next_sender (sq_cache st2), mem_next_target (sq_cache st2), msgs,
   (so_st o3, mem_next_sender (sq_cache st3), sql_get_messages (sq_sid st3) (- two63) (two63 - 1) db3)).
