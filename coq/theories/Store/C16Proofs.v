(* C16: run-level corollaries (reopen / refresh after an arbitrary history). *)
From Coq Require Import ZArith List Bool Lia.
From QF Require Import Base.Res Base.Bytes Store.AbsStore Store.AbsStoreProofs Store.MemStore Store.MemStoreProofs
  Store.FS Store.FileStore Store.FileStoreProofs Store.SqlStore Store.SqlStoreProofs.
Import ListNotations.
Open Scope Z_scope.

(* after any ascending history: a fresh store opened on the same files, and the same store after Refresh, hold the same
   abstract state, show the same counters and creation time, and answer every further history like the abstract store *)
Theorem file_reopen_run : forall sid now ops now' ops',
  - two63 <= now < two63 -> abs_hist_ok (abs_init now) ops = true ->
  let r := file_run (fst (file_new_store sid now [])) (snd (file_new_store sid now [])) ops in
  let st := fst (fst r) in let fs := snd (fst r) in
  let a := fst (abs_run (abs_init now) ops) in
  abs_hist_ok a ops' = true ->
  (file_abs sid (snd (file_new_store sid now' fs)) = Some a /\
   file_obs (fst (file_new_store sid now' fs)) = abs_obs a /\
   snd (file_run (fst (file_new_store sid now' fs)) (snd (file_new_store sid now' fs)) ops') = snd (abs_run a ops')) /\
  (file_abs sid (snd (fst (file_step st fs (ORefresh now')))) = Some a /\
   file_obs (fst (fst (file_step st fs (ORefresh now')))) = abs_obs a /\
   snd (file_run (fst (fst (file_step st fs (ORefresh now')))) (snd (fst (file_step st fs (ORefresh now')))) ops') = snd (abs_run a ops')).
Proof.
  intros sid now ops now' ops' Hnow Hok r st fs a Hok'.
  assert (Hinv0 : file_inv sid (fst (file_new_store sid now [])) (snd (file_new_store sid now [])) (abs_init now)).
  { apply file_new_store_inv; [|exact Hnow]. unfold file_absent, file_kinds. repeat constructor. }
  destruct (file_run_refines sid ops _ _ _ Hinv0 Hok) as [_ Hinv]. fold r in Hinv. fold st fs a in Hinv.
  destruct (file_reopen sid st fs a now' Hinv) as [H1 H2].
  split.
  - destruct (file_inv_abs _ _ _ _ H1) as [Ha Ho]. split; [exact Ha|]. split; [exact Ho|].
    apply (file_run_refines sid ops' _ _ _ H1 Hok').
  - destruct (file_inv_abs _ _ _ _ H2) as [Ha Ho]. split; [exact Ha|]. split; [exact Ho|].
    apply (file_run_refines sid ops' _ _ _ H2 Hok').
Qed.

Theorem sql_reopen_run : forall sid now ops now' ops' st0 db0,
  sql_new_store sid now sql_empty = Ok (st0, db0) -> abs_hist_ok (abs_init now) ops = true ->
  let r := sql_run st0 db0 ops in
  let st := fst (fst r) in let db := snd (fst r) in
  let a := fst (abs_run (abs_init now) ops) in
  abs_hist_ok a ops' = true ->
  (exists st', sql_new_store sid now' db = Ok (st', db) /\ sql_abs sid db = Some a /\ sql_obs st' = abs_obs a /\
               snd (sql_run st' db ops') = snd (abs_run a ops')) /\
  (exists st', sql_step st db (ORefresh now') = (st', db, sout_ok) /\ sql_obs st' = abs_obs a /\
               snd (sql_run st' db ops') = snd (abs_run a ops')).
Proof.
  intros sid now ops now' ops' st0 db0 Hnew Hok r st db a Hok'.
  destruct (sql_new_store_inv sid now sql_empty eq_refl eq_refl) as (st0' & db0' & Hnew' & Hinv0).
  rewrite Hnew in Hnew'. inversion Hnew'; subst st0' db0'.
  destruct (sql_run_refines sid ops _ _ _ Hinv0 Hok) as [_ Hinv]. fold r in Hinv. fold st db a in Hinv.
  destruct (sql_reopen sid st db a now' Hinv) as [(st1 & E1 & I1) (st2 & E2 & I2)].
  split.
  - exists st1. split; [exact E1|]. destruct (sql_inv_abs _ _ _ _ I1) as [Ha Ho]. split; [exact Ha|]. split; [exact Ho|].
    apply (sql_run_refines sid ops' _ _ _ I1 Hok').
  - exists st2. split; [exact E2|]. destruct (sql_inv_abs _ _ _ _ I2) as [Ha Ho]. split; [exact Ho|].
    apply (sql_run_refines sid ops' _ _ _ I2 Hok').
Qed.

(* a non-trivial history satisfying the hypothesis, with its outputs *)
Definition c16_example_ops : list sop :=
  [OSaveIncr 1 [65; 1; 0; 255]; OSaveIncr 2 []; OIncrTarget; OSave 5 [66]; OGet 1 5; OIterate 0 9 (Some 1%nat);
   OReopen 7; OGet 2 5; OSetSender 10; ORefresh 8; OReset 9; OGet 0 100].

Lemma c16_example_ok : abs_hist_ok (abs_init 0) c16_example_ops = true.
Proof. vm_compute. reflexivity. Qed.

Lemma c16_example_outputs :
  map (fun o => (so_st (fst o), so_msgs (fst o))) (snd (abs_run (abs_init 0) c16_example_ops)) =
  [(0, []); (0, []); (0, []); (0, []); (0, [[65; 1; 0; 255]; []; [66]]); (2, [[65; 1; 0; 255]; []]);
   (0, []); (0, [[]; [66]]); (0, []); (0, []); (0, []); (0, [])].
Proof. vm_compute. reflexivity. Qed.
