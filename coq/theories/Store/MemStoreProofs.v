(* C16 for memory_store.go: the memory store refines the abstract store. *)
From Coq Require Import ZArith List Bool Lia.
From QF Require Import Base.Res Base.Bytes Store.AbsStore Store.AbsStoreProofs Store.MemStore.
Import ListNotations.
Open Scope Z_scope.

Lemma mmap_set_append n bs m : amap_keys_lt n m = true -> mmap_set n bs m = m ++ [(n, bs)].
Proof.
  induction m as [|[k v] r IH]; cbn [mmap_set amap_keys_lt forallb app fst]; intros H; [reflexivity|].
  apply andb_true_iff in H. destruct H as [H1 H2].
  assert (He : (n =? k) = false) by lia. rewrite He. f_equal. apply IH. exact H2.
Qed.

(* sort.Ints leaves an ascending list as it is *)
Lemma st_insert_head x l : Forall (fun y => x < y) l -> st_insert x l = x :: l.
Proof.
  destruct l as [|y r]; intros H; [reflexivity|]. inversion H as [|? ? H1 _]; subst.
  cbn [st_insert]. assert (E : (x <=? y) = true) by lia. rewrite E. reflexivity.
Qed.

Lemma filter_keys_sorted (f : Z * bytes -> bool) m :
  amap_sorted m -> amap_sorted (filter f m).
Proof.
  induction m as [|kv r IH]; cbn [filter amap_sorted]; intros Hs; [exact I|].
  destruct Hs as [Hk Hr]. destruct (f kv); cbn [amap_sorted].
  - split; [|apply IH; exact Hr]. rewrite Forall_forall in *. intros x Hx. apply filter_In in Hx. apply Hk, Hx.
  - apply IH; exact Hr.
Qed.

Lemma st_isort_sorted m : amap_sorted m -> st_isort (map fst m) = map fst m.
Proof.
  induction m as [|kv r IH]; cbn [map st_isort amap_sorted]; intros Hs; [reflexivity|].
  destruct Hs as [Hk Hr]. rewrite IH by exact Hr. apply st_insert_head.
  rewrite Forall_forall in *. intros y Hy. apply in_map_iff in Hy. destruct Hy as [kv' [E Hin]]. subst y. apply Hk, Hin.
Qed.

Lemma mem_iter_keys_deliver l m abort seen :
  (forall kv, In kv l -> amap_get (fst kv) m = Some (snd kv)) ->
  mem_iter_keys (map fst l) m abort seen = st_deliver abort seen (map snd l).
Proof.
  revert seen. induction l as [|kv r IH]; intros seen H; cbn [map mem_iter_keys st_deliver]; [reflexivity|].
  rewrite (H kv) by (left; reflexivity).
  destruct (cb_call abort seen (snd kv)) as [seen' fail]. destruct fail; [reflexivity|].
  apply IH. intros kv' Hin. apply H. right. exact Hin.
Qed.

Lemma mem_iter_num_deliver fuel : forall b e m abort seen,
  amap_sorted m -> Z.max 0 (e - b + 1) < Z.of_nat fuel ->
  mem_iter_num fuel b e m abort seen = st_deliver abort seen (amap_range b e m).
Proof.
  induction fuel as [|f IH]; intros b e m abort seen Hs Hf; [lia|].
  cbn [mem_iter_num]. destruct (e <? b) eqn:Eb.
  - rewrite amap_range_empty by lia. reflexivity.
  - rewrite (amap_range_step b e m) by (assumption || lia).
    destruct (amap_get b m) as [v|]; cbn [app st_deliver].
    + destruct (cb_call abort seen v) as [seen' fail]. destruct fail; [reflexivity|].
      apply IH; [exact Hs | lia].
    + apply IH; [exact Hs | lia].
Qed.

Lemma mem_iterate_deliver s b e abort :
  amap_sorted (m_map s) ->
  mem_iterate_messages s b e abort = st_deliver abort [] (amap_range b e (m_map s)).
Proof.
  intros Hs. unfold mem_iterate_messages. destruct (e <? b) eqn:Eb.
  - rewrite amap_range_empty by lia. reflexivity.
  - destruct (Z.of_nat (length (m_map s)) <? e - b) eqn:Ew.
    + rewrite st_isort_sorted by (apply filter_keys_sorted; exact Hs).
      unfold amap_range. apply mem_iter_keys_deliver.
      intros [k v] Hin. apply filter_In in Hin. destruct Hin as [Hin _]. cbn [fst snd]. apply amap_get_in; assumption.
    + apply mem_iter_num_deliver; [exact Hs | lia].
Qed.

Definition mem_inv (s : memstore) (a : astore) : Prop := mem_abs s = a /\ amap_sorted (a_msgs a).

Lemma mem_step_refines s a op :
  mem_inv s a -> abs_op_ok a op = true ->
  snd (mem_step s op) = snd (abs_step a op) /\ mem_inv (fst (mem_step s op)) (fst (abs_step a op)).
Proof.
  intros [Habs Hs] Hok.
  assert (Hs' := abs_step_sorted a op Hs Hok).
  subst a. destruct s as [sn tg ct mp]. unfold mem_inv, mem_abs in *. cbn [a_msgs m_map] in Hs.
  destruct op; cbn [mem_step abs_step fst snd a_snd a_tgt a_ctime a_msgs] in *;
    unfold mem_set_next_sender, mem_set_next_target, mem_incr_next_sender, mem_incr_next_target,
      mem_save_message_and_incr, mem_save_message, mem_incr_next_sender, mem_next_sender, mem_next_target, mem_reset, mem_get_messages;
    cbn [m_snd m_tgt m_ctime m_map] in *.
  - split; [reflexivity|]. split; [f_equal; lia | exact Hs'].
  - split; [reflexivity|]. split; [f_equal; lia | exact Hs'].
  - split; [reflexivity|]. split; [f_equal; lia | exact Hs'].
  - split; [reflexivity|]. split; [f_equal; lia | exact Hs'].
  - cbn [abs_op_ok] in Hok. unfold save_ok in Hok. cbn [a_msgs] in Hok.
    assert (Hk : amap_keys_lt n mp = true) by (destruct (amap_keys_lt n mp); [reflexivity | discriminate]).
    split; [reflexivity|]. split; [|exact Hs'].
    rewrite mmap_set_append, amap_put_append by exact Hk. reflexivity.
  - cbn [abs_op_ok] in Hok. unfold save_ok in Hok. cbn [a_msgs] in Hok.
    assert (Hk : amap_keys_lt n mp = true) by (destruct (amap_keys_lt n mp); [reflexivity | discriminate]).
    split; [reflexivity|]. split; [|exact Hs'].
    rewrite mmap_set_append, amap_put_append by exact Hk. reflexivity.
  - split; [|split; [reflexivity | exact Hs]].
    rewrite mem_iterate_deliver by exact Hs. cbn [m_map]. rewrite st_deliver_none. reflexivity.
  - split; [|split; [reflexivity | exact Hs]].
    rewrite mem_iterate_deliver by exact Hs. reflexivity.
  - split; [reflexivity|]. split; [reflexivity | exact Hs].
  - split; [reflexivity|]. split; [reflexivity | exact I].
  - split; [reflexivity|]. split; [reflexivity | exact Hs].
Qed.

Lemma mem_run_refines ops : forall s a,
  mem_inv s a -> abs_hist_ok a ops = true ->
  snd (mem_run s ops) = snd (abs_run a ops) /\ mem_inv (fst (mem_run s ops)) (fst (abs_run a ops)).
Proof.
  induction ops as [|op r IH]; intros s a Hinv Hok; cbn [mem_run abs_run abs_hist_ok] in *.
  - split; [reflexivity | exact Hinv].
  - apply andb_true_iff in Hok. destruct Hok as [Hop Hr].
    destruct (mem_step_refines s a op Hinv Hop) as [Ho Hinv'].
    destruct (mem_step s op) as [s1 o] eqn:Es. destruct (abs_step a op) as [a1 o'] eqn:Ea.
    cbn [fst snd] in *. specialize (IH s1 a1 Hinv' Hr).
    destruct (mem_run s1 r) as [s2 outs]. destruct (abs_run a1 r) as [a2 outs'].
    cbn [fst snd] in *. destruct IH as [IH1 IH2]. split; [|exact IH2].
    destruct Hinv' as [Habs _]. subst o' outs'. f_equal. f_equal. rewrite <- Habs. reflexivity.
Qed.

(* c16_refines_mem *)
Theorem mem_refines : forall now ops, abs_hist_ok (abs_init now) ops = true ->
  snd (mem_run (mem_create now) ops) = snd (abs_run (abs_init now) ops) /\
  mem_abs (fst (mem_run (mem_create now) ops)) = fst (abs_run (abs_init now) ops).
Proof.
  intros now ops Hok.
  destruct (mem_run_refines ops (mem_create now) (abs_init now)) as [H1 [H2 _]].
  - split; [reflexivity | exact I].
  - exact Hok.
  - split; assumption.
Qed.
