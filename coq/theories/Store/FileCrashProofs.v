(* C17 over the file-system model: every crash point of a counter update, a save, a save-and-increment or a read that lies
   outside the classes of the known defects leaves an image from which the store recovers a consistent state. *)
From Coq Require Import ZArith List Bool Lia.
From QF Require Import Base.Res Base.Bytes Store.AbsStore Store.AbsStoreProofs Store.MemStore Store.Dec Store.DecProofs
  Store.FS Store.FSProofs Store.FileStore Store.FileStoreProofs Store.FileCrash.
Import ListNotations.
Open Scope Z_scope.

(* ---- images *)
Definition sel (v : cvariant) (f : ffile) : bytes := match v with VA => f_data f | VB => f_dur f end.

Lemma fs_find_image n v fs :
  fs_find n (fs_of_image (image_of v fs)) = option_map (fun f => mk_ffile (sel v f) (sel v f)) (fs_find n fs).
Proof.
  unfold fs_of_image, image_of. induction fs as [|[k f] r IH]; cbn [map fs_find fst snd]; [reflexivity|].
  destruct (k =? n); [destruct v; reflexivity | exact IH].
Qed.

Lemma inflight_j0 prims k : inflight prims k 0 = None.
Proof. unfold inflight. destruct (nth_error prims k) as [[]|]; reflexivity. Qed.

Lemma crash_fs_j0 fs prims k : crash_fs fs prims k 0 = fs_run fs (firstn k prims).
Proof. unfold crash_fs. rewrite inflight_j0. reflexivity. Qed.

(* what the enumeration of crash points contains *)
Lemma crash_points_spec prims cp : In cp (crash_points all_cuts_for prims) ->
  (cp_k cp <= length prims)%nat /\
  (cp_j cp = O \/
   (cp_var cp = VA /\ exists f off bs, nth_error prims (cp_k cp) = Some (PWrite f off bs) /\ (0 < cp_j cp < length bs)%nat)).
Proof.
  unfold crash_points. rewrite in_flat_map. intros (k & Hk & Hin). apply in_seq in Hk.
  apply in_app_or in Hin. destruct Hin as [Hin|Hin].
  - cbn [In] in Hin. destruct Hin as [E|[E|[]]]; subst cp; cbn [cp_k cp_j]; split; try lia; left; reflexivity.
  - destruct (nth_error prims k) as [p|] eqn:En; [|contradiction]. destruct p as [f|f|f off bs|f|f|f]; try contradiction.
    apply in_map_iff in Hin. destruct Hin as (j & E & Hj). subst cp. cbn [cp_k cp_j cp_var].
    unfold all_cuts_for, all_cuts in Hj. apply in_seq in Hj. split; [lia|]. right. split; [reflexivity|].
    exists f, off, bs. split; [exact En | lia].
Qed.

(* ---- what an image must look like for the store to recover the abstract state a: body (possibly followed by bytes no
   header line refers to), header and creation time exact; each counter file a text of at most 19 bytes that reads as the counter *)
Record img_rep (sid : Z) (fs : fsys) (a : astore) (extra : bytes) : Prop := mk_img_rep {
  ir_body : fs_read (fnm sid FK_BODY) fs = Some (body_of (a_msgs a) ++ extra);
  ir_header : fs_read (fnm sid FK_HEADER) fs = Some (hdr_lines 0 (a_msgs a));
  ir_session : fs_read (fnm sid FK_SESSION) fs = Some (st_time_text (a_ctime a));
  ir_sender : exists t, fs_read (fnm sid FK_SENDER) fs = Some t /\ ctr_value t = Some (a_snd a) /\ (length t <= 19)%nat;
  ir_target : exists t, fs_read (fnm sid FK_TARGET) fs = Some t /\ ctr_value t = Some (a_tgt a) /\ (length t <= 19)%nat
}.

(* the recovered store: all five files exact again (the counters are rewritten by Refresh) *)
Record file_repx (sid : Z) (fs : fsys) (a : astore) (extra : bytes) : Prop := mk_file_repx {
  rx_body : fs_read (fnm sid FK_BODY) fs = Some (body_of (a_msgs a) ++ extra);
  rx_header : fs_read (fnm sid FK_HEADER) fs = Some (hdr_lines 0 (a_msgs a));
  rx_session : fs_read (fnm sid FK_SESSION) fs = Some (st_time_text (a_ctime a));
  rx_sender : fs_read (fnm sid FK_SENDER) fs = Some (st_fmt_019d (a_snd a));
  rx_target : fs_read (fnm sid FK_TARGET) fs = Some (st_fmt_019d (a_tgt a))
}.

Lemma fs_read_run n fs ps : fs_read n (fs_run fs ps) = option_map f_data (fold_left (ostep n) ps (fs_find n fs)).
Proof. unfold fs_read. rewrite fs_find_run. reflexivity. Qed.

Lemma fs_read_some n fs d : fs_read n fs = Some d -> exists f, fs_find n fs = Some f /\ f_data f = d.
Proof. unfold fs_read. destruct (fs_find n fs) as [f|]; cbn; intros H; [|discriminate]. inversion H. eauto. Qed.

Ltac fsx_eval H :=
  rewrite fs_read_run;
  cbn [fold_left map app file_kinds file_close_prims file_set_seq_num_prims file_set_session_prims];
  rewrite H;
  cbn [ostep]; rewrite ?fnm_eqb_same; autorewrite with fk;
  cbn [option_map f_data f_dur].

(* recovery: newFileStore on an image *)
Lemma c17_recover_rep sid now fs a extra : img_rep sid fs a extra -> a_wf a ->
  file_repx sid (snd (file_new_store sid now fs)) a extra /\
  file_obs (fst (file_new_store sid now fs)) = abs_obs a /\
  ft_sid (fst (file_new_store sid now fs)) = sid /\ ft_open (fst (file_new_store sid now fs)) = true.
Proof.
  intros [Hb Hh Hs (ts & Hsn & Vs & Ls) (tt & Ht & Vt & Lt)] (_ & _ & _ & Hcs & Hct & Hc).
  unfold file_new_store, file_refresh, file_populate_cache. cbn [ft_sid].
  rewrite Hs, Hsn, Ht. rewrite st_parse_time_text by assumption.
  unfold ctr_value in Vs, Vt. rewrite Vs, Vt. cbn [fst snd].
  unfold file_close_prims. cbn [ft_open app].
  unfold mem_next_sender, mem_next_target, mem_set_next_sender, mem_set_next_target, mem_set_creation_time, mem_create, mem_reset.
  cbn [m_snd m_tgt m_ctime m_map]. rewrite !Z.sub_add.
  destruct (fs_read_some _ _ _ Hb) as (fb & Fb & Db). destruct (fs_read_some _ _ _ Hh) as (fh & Fh & Dh).
  destruct (fs_read_some _ _ _ Hs) as (fss & Fs & Ds). destruct (fs_read_some _ _ _ Hsn) as (fsn & Fsn & Dsn).
  destruct (fs_read_some _ _ _ Ht) as (ft & Ft & Dt).
  split; [|split; [|split; reflexivity]].
  - constructor.
    + fsx_eval Fb. rewrite Db. reflexivity.
    + fsx_eval Fh. rewrite Dh. reflexivity.
    + fsx_eval Fs. rewrite Ds. reflexivity.
    + fsx_eval Fsn. rewrite Dsn, fmt_019d_over by assumption. reflexivity.
    + fsx_eval Ft. rewrite Dt, fmt_019d_over by assumption. reflexivity.
  - unfold file_obs, mem_obs, abs_obs, mem_next_sender, mem_next_target, mem_creation_time. cbn [ft_cache m_snd m_tgt m_ctime].
    repeat (apply pair_equal_spec; split); lia.
Qed.

(* ---- consistent recovered states *)
Definition c17_consistent (a0 a1 a' : astore) : Prop :=
  (a_snd a' = a_snd a0 \/ a_snd a' = a_snd a1) /\
  (a_tgt a' = a_tgt a0 \/ a_tgt a' = a_tgt a1) /\
  a_ctime a' = a_ctime a0 /\
  (a_msgs a' = a_msgs a0 \/ a_msgs a' = a_msgs a1) /\
  (a_snd a' <> a_snd a0 -> a_msgs a' = a_msgs a1).      (* the sender counter is never ahead of the messages *)

Lemma write_at_length d off bs : length (write_at d off bs) = Nat.max (length d) (off + length bs).
Proof.
  unfold write_at. rewrite !app_length, firstn_length, repeat_length, skipn_length. lia.
Qed.

Lemma fnm_kind_fnm sid k : 0 <= k < 8 -> fnm_kind (fnm sid k) = k.
Proof.
  intros H. unfold fnm_kind, fnm. rewrite Z.add_comm, Z_mod_plus_full. apply Z.mod_small. exact H.
Qed.

Lemma is_kind_fnm kind sid k : 0 <= k < 8 -> is_kind kind (fnm sid k) = (k =? kind).
Proof. intros H. unfold is_kind. rewrite fnm_kind_fnm by exact H. reflexivity. Qed.

Lemma fk_bounds : 0 <= FK_BODY < 8 /\ 0 <= FK_HEADER < 8 /\ 0 <= FK_SESSION < 8 /\ 0 <= FK_SENDER < 8 /\ 0 <= FK_TARGET < 8.
Proof. unfold FK_BODY, FK_HEADER, FK_SESSION, FK_SENDER, FK_TARGET. lia. Qed.

Ltac kinds :=
  rewrite ?is_kind_fnm by (unfold FK_BODY, FK_HEADER, FK_SESSION, FK_SENDER, FK_TARGET; lia);
  autorewrite with fk.

Lemma sel_same v x : sel v (mk_ffile x x) = x.
Proof. destruct v; reflexivity. Qed.

(* one field of img_rep at a crash point without an in-flight write; H: the file in the state before the operation *)
Ltac img_eval H :=
  unfold crash_image, fs_read; rewrite fs_find_image; cbn [cp_k cp_j cp_var]; rewrite crash_fs_j0; cbn [firstn];
  rewrite fs_find_run; cbn [fold_left]; rewrite H; unfold synced;
  cbn [ostep]; rewrite ?fnm_eqb_same; autorewrite with fk;
  cbn [option_map f_data f_dur sel]; rewrite ?sel_same.

Lemma ctr_value_fmt n : ctr_rng n -> ctr_value (st_fmt_019d n) = Some n.
Proof. intros H. unfold ctr_value. apply st_counter_roundtrip. exact H. Qed.

Lemma optz_eqb_some a v : optz_eqb a (Some v) = true -> a = Some v.
Proof. destruct a as [x|]; cbn; intros H; [f_equal; lia | discriminate]. Qed.

Ltac ctr_field H :=
  eexists; split; [img_eval H; reflexivity|];
  rewrite ?fmt_019d_over by (try assumption; rewrite st_fmt_019d_length by assumption; lia);
  rewrite ctr_value_fmt, st_fmt_019d_length by assumption; split; [reflexivity | lia].

(* all five fields of img_rep at a crash point without an in-flight write *)
Ltac img_fields Hb Hh Hs Hsn Ht :=
  constructor; cbn [a_snd a_tgt a_ctime a_msgs]; rewrite ?app_nil_r;
  [ img_eval Hb; rewrite ?write_at_end; first [reflexivity | rewrite body_of_app; reflexivity]
  | img_eval Hh; rewrite ?write_at_end; first [reflexivity | rewrite hdr_lines_app, amap_size_body; reflexivity]
  | img_eval Hs; reflexivity
  | ctr_field Hsn
  | ctr_field Ht ].

(* the in-flight write of a counter file: fields of the image *)
Ltac torn_fields Hfl Hb Hh Hs :=
  unfold crash_image, crash_fs; cbn [cp_k cp_j cp_var]; rewrite Hfl; cbn [firstn];
  constructor; cbn [a_snd a_tgt a_ctime a_msgs]; rewrite ?app_nil_r; unfold fs_read; rewrite fs_find_image, fs_find_step, fs_find_run; cbn [fold_left].

(* ---- setSeqNum on a counter file: [SeekStart; Write 0 "%019d"; Sync] *)
Lemma crash_set_sender sid fs a n cp : file_rep sid fs a -> a_wf a -> ctr_rng n ->
  let prims := file_set_seq_num_prims (fnm sid FK_SENDER) n in
  In cp (crash_points all_cuts_for prims) -> c17_class fs prims cp = 0 ->
  exists v, (v = a_snd a \/ v = n) /\
    img_rep sid (fs_of_image (crash_image fs prims cp)) (mk_astore v (a_tgt a) (a_ctime a) (a_msgs a)) [].
Proof.
  intros [Hb Hh Hs Hsn Ht] (_ & _ & _ & Hcs & Hct & _) Hn prims Hin Hcls.
  destruct (crash_points_spec _ _ Hin) as [Hk Hj]. destruct cp as [k j v]. cbn [cp_k cp_j cp_var] in *.
  unfold prims, file_set_seq_num_prims in *. cbn [length] in Hk.
  destruct Hj as [Hj|(Hv & f & off & bs & Hnth & Hj)].
  - (* between primitives *)
    subst j.
    assert (Hcases : (k = 0 \/ k = 1 \/ k = 2 \/ k = 3)%nat) by lia.
    destruct Hcases as [E|[E|[E|E]]]; subst k.
    + exists (a_snd a). split; [left; reflexivity|]. img_fields Hb Hh Hs Hsn Ht.
    + exists (a_snd a). split; [left; reflexivity|]. img_fields Hb Hh Hs Hsn Ht.
    + (* written, not synced: variant A sees the new text, variant B the old *)
      destruct v.
      * exists n. split; [right; reflexivity|]. img_fields Hb Hh Hs Hsn Ht.
      * exists (a_snd a). split; [left; reflexivity|]. img_fields Hb Hh Hs Hsn Ht.
    + exists n. split; [right; reflexivity|]. img_fields Hb Hh Hs Hsn Ht.
  - (* inside the write *)
    subst v.
    assert (E : k = 1%nat).
    { destruct k as [|[|[|k]]]; cbn [nth_error] in Hnth; try discriminate; [reflexivity | destruct k; discriminate]. }
    subst k. cbn [nth_error] in Hnth. inversion Hnth; subst f off bs. clear Hnth.
    assert (Hfl : inflight [PSeekStart (fnm sid FK_SENDER); PWrite (fnm sid FK_SENDER) 0 (st_fmt_019d n); PSync (fnm sid FK_SENDER)] 1 j
                  = Some (fnm sid FK_SENDER, O, firstn j (st_fmt_019d n))).
    { unfold inflight. cbn [nth_error].
      assert (E1 : Nat.ltb 0 j = true) by (apply Nat.ltb_lt; lia).
      assert (E2 : Nat.ltb j (length (st_fmt_019d n)) = true) by (apply Nat.ltb_lt; lia). rewrite E1, E2. reflexivity. }
    unfold c17_class in Hcls. cbn [cp_k cp_j cp_var firstn skipn existsb prim_remove_of prim_write_to nth_error] in Hcls.
    rewrite Hfl in Hcls. revert Hcls. kinds. cbn [andb orb]. unfold fs_run. cbn [fold_left fs_step].
    rewrite (fs_data_find _ _ _ Hsn).
    set (torn := write_at (st_fmt_019d (a_snd a)) 0 (firstn j (st_fmt_019d n))).
    intros Hcls.
    assert (Hlen : (length torn <= 19)%nat).
    { unfold torn. rewrite write_at_length, firstn_length, !st_fmt_019d_length by assumption. lia. }
    assert (Himg : forall x, ctr_value torn = Some x ->
              img_rep sid (fs_of_image (crash_image fs [PSeekStart (fnm sid FK_SENDER); PWrite (fnm sid FK_SENDER) 0 (st_fmt_019d n); PSync (fnm sid FK_SENDER)] (mk_cpoint 1 j VA)))
                (mk_astore x (a_tgt a) (a_ctime a) (a_msgs a)) []).
    { intros x Hx. torn_fields Hfl Hb Hh Hs.
      - rewrite Hb. unfold synced. cbn [ostep]. rewrite ?fnm_eqb_same. autorewrite with fk. reflexivity.
      - rewrite Hh. unfold synced. cbn [ostep]. rewrite ?fnm_eqb_same. autorewrite with fk. reflexivity.
      - rewrite Hs. unfold synced. cbn [ostep]. rewrite ?fnm_eqb_same. autorewrite with fk. reflexivity.
      - rewrite Hsn. unfold synced. cbn [ostep]. rewrite ?fnm_eqb_same. autorewrite with fk. cbn [option_map f_data f_dur sel].
        eexists. split; [reflexivity|]. fold torn. split; [exact Hx | exact Hlen].
      - rewrite Ht. unfold synced. cbn [ostep]. rewrite ?fnm_eqb_same. autorewrite with fk. cbn [option_map f_data f_dur sel].
        eexists. split; [reflexivity|]. rewrite ctr_value_fmt, st_fmt_019d_length by assumption. split; [reflexivity | lia]. }
    rewrite !ctr_value_fmt in Hcls by assumption.
    destruct (optz_eqb (ctr_value torn) (Some (a_snd a))) eqn:E1.
    + exists (a_snd a). split; [left; reflexivity|]. apply Himg. apply optz_eqb_some. exact E1.
    + destruct (optz_eqb (ctr_value torn) (Some n)) eqn:E2.
      * exists n. split; [right; reflexivity|]. apply Himg. apply optz_eqb_some. exact E2.
      * cbn [orb] in Hcls. destruct (Nat.eqb (length (st_fmt_019d (a_snd a))) 0); discriminate.
Qed.

Lemma crash_set_target sid fs a n cp : file_rep sid fs a -> a_wf a -> ctr_rng n ->
  let prims := file_set_seq_num_prims (fnm sid FK_TARGET) n in
  In cp (crash_points all_cuts_for prims) -> c17_class fs prims cp = 0 ->
  exists v, (v = a_tgt a \/ v = n) /\
    img_rep sid (fs_of_image (crash_image fs prims cp)) (mk_astore (a_snd a) v (a_ctime a) (a_msgs a)) [].
Proof.
  intros [Hb Hh Hs Hsn Ht] (_ & _ & _ & Hcs & Hct & _) Hn prims Hin Hcls.
  destruct (crash_points_spec _ _ Hin) as [Hk Hj]. destruct cp as [k j v]. cbn [cp_k cp_j cp_var] in *.
  unfold prims, file_set_seq_num_prims in *. cbn [length] in Hk.
  destruct Hj as [Hj|(Hv & f & off & bs & Hnth & Hj)].
  - subst j.
    assert (Hcases : (k = 0 \/ k = 1 \/ k = 2 \/ k = 3)%nat) by lia.
    destruct Hcases as [E|[E|[E|E]]]; subst k.
    + exists (a_tgt a). split; [left; reflexivity|]. img_fields Hb Hh Hs Hsn Ht.
    + exists (a_tgt a). split; [left; reflexivity|]. img_fields Hb Hh Hs Hsn Ht.
    + destruct v.
      * exists n. split; [right; reflexivity|]. img_fields Hb Hh Hs Hsn Ht.
      * exists (a_tgt a). split; [left; reflexivity|]. img_fields Hb Hh Hs Hsn Ht.
    + exists n. split; [right; reflexivity|]. img_fields Hb Hh Hs Hsn Ht.
  - subst v.
    assert (E : k = 1%nat).
    { destruct k as [|[|[|k]]]; cbn [nth_error] in Hnth; try discriminate; [reflexivity | destruct k; discriminate]. }
    subst k. cbn [nth_error] in Hnth. inversion Hnth; subst f off bs. clear Hnth.
    assert (Hfl : inflight [PSeekStart (fnm sid FK_TARGET); PWrite (fnm sid FK_TARGET) 0 (st_fmt_019d n); PSync (fnm sid FK_TARGET)] 1 j
                  = Some (fnm sid FK_TARGET, O, firstn j (st_fmt_019d n))).
    { unfold inflight. cbn [nth_error].
      assert (E1 : Nat.ltb 0 j = true) by (apply Nat.ltb_lt; lia).
      assert (E2 : Nat.ltb j (length (st_fmt_019d n)) = true) by (apply Nat.ltb_lt; lia). rewrite E1, E2. reflexivity. }
    unfold c17_class in Hcls. cbn [cp_k cp_j cp_var firstn skipn existsb prim_remove_of prim_write_to nth_error] in Hcls.
    rewrite Hfl in Hcls. revert Hcls. kinds. cbn [andb orb]. unfold fs_run. cbn [fold_left fs_step].
    rewrite (fs_data_find _ _ _ Ht).
    set (torn := write_at (st_fmt_019d (a_tgt a)) 0 (firstn j (st_fmt_019d n))).
    intros Hcls.
    assert (Hlen : (length torn <= 19)%nat).
    { unfold torn. rewrite write_at_length, firstn_length, !st_fmt_019d_length by assumption. lia. }
    assert (Himg : forall x, ctr_value torn = Some x ->
              img_rep sid (fs_of_image (crash_image fs [PSeekStart (fnm sid FK_TARGET); PWrite (fnm sid FK_TARGET) 0 (st_fmt_019d n); PSync (fnm sid FK_TARGET)] (mk_cpoint 1 j VA)))
                (mk_astore (a_snd a) x (a_ctime a) (a_msgs a)) []).
    { intros x Hx. torn_fields Hfl Hb Hh Hs.
      - rewrite Hb. unfold synced. cbn [ostep]. rewrite ?fnm_eqb_same. autorewrite with fk. reflexivity.
      - rewrite Hh. unfold synced. cbn [ostep]. rewrite ?fnm_eqb_same. autorewrite with fk. reflexivity.
      - rewrite Hs. unfold synced. cbn [ostep]. rewrite ?fnm_eqb_same. autorewrite with fk. reflexivity.
      - rewrite Hsn. unfold synced. cbn [ostep]. rewrite ?fnm_eqb_same. autorewrite with fk. cbn [option_map f_data f_dur sel].
        eexists. split; [reflexivity|]. rewrite ctr_value_fmt, st_fmt_019d_length by assumption. split; [reflexivity | lia].
      - rewrite Ht. unfold synced. cbn [ostep]. rewrite ?fnm_eqb_same. autorewrite with fk. cbn [option_map f_data f_dur sel].
        eexists. split; [reflexivity|]. fold torn. split; [exact Hx | exact Hlen]. }
    rewrite !ctr_value_fmt in Hcls by assumption.
    destruct (optz_eqb (ctr_value torn) (Some (a_tgt a))) eqn:E1.
    + exists (a_tgt a). split; [left; reflexivity|]. apply Himg. apply optz_eqb_some. exact E1.
    + destruct (optz_eqb (ctr_value torn) (Some n)) eqn:E2.
      * exists n. split; [right; reflexivity|]. apply Himg. apply optz_eqb_some. exact E2.
      * cbn [orb] in Hcls. destruct (Nat.eqb (length (st_fmt_019d (a_tgt a))) 0); discriminate.
Qed.

Ltac class_eval Hcls :=
  unfold c17_class in Hcls; cbn [cp_k cp_j cp_var firstn skipn existsb prim_remove_of prim_write_to nth_error] in Hcls;
  rewrite ?inflight_j0 in Hcls; revert Hcls; kinds; cbn [andb orb negb]; intros Hcls.

(* ---- SaveMessage: [SeekEnd body; SeekEnd header; Write header line; Write body msg; Sync body; Sync header] *)
Lemma crash_save sid fs a n bs cp : file_rep sid fs a -> a_wf a ->
  let prims := file_save_message_prims sid fs n bs in
  In cp (crash_points all_cuts_for prims) -> c17_class fs prims cp = 0 ->
  exists msgs' extra, (msgs' = a_msgs a \/ msgs' = a_msgs a ++ [(n, bs)]) /\
    img_rep sid (fs_of_image (crash_image fs prims cp)) (mk_astore (a_snd a) (a_tgt a) (a_ctime a) msgs') extra.
Proof.
  intros [Hb Hh Hs Hsn Ht] (_ & _ & _ & Hcs & Hct & _) prims Hin Hcls.
  unfold prims, file_save_message_prims in *. rewrite (fs_size_find _ _ _ Hb), (fs_size_find _ _ _ Hh) in *.
  destruct (crash_points_spec _ _ Hin) as [Hk Hj]. destruct cp as [k j v]. cbn [cp_k cp_j cp_var length] in *.
  destruct Hj as [Hj|(Hv & f & off & bs' & Hnth & Hj)].
  - subst j.
    assert (Hcases : (k = 0 \/ k = 1 \/ k = 2 \/ k = 3 \/ k = 4 \/ k = 5 \/ k = 6)%nat) by lia.
    destruct Hcases as [E|[E|[E|[E|[E|[E|E]]]]]]; subst k.
    + exists (a_msgs a), []. split; [left; reflexivity|]. img_fields Hb Hh Hs Hsn Ht.
    + exists (a_msgs a), []. split; [left; reflexivity|]. img_fields Hb Hh Hs Hsn Ht.
    + exists (a_msgs a), []. split; [left; reflexivity|]. img_fields Hb Hh Hs Hsn Ht.
    + (* header line written, body not yet *)
      destruct v.
      * class_eval Hcls. destruct bs as [|b0 bs0]; [|cbn in Hcls; discriminate].
        exists (a_msgs a ++ [(n, [])]), []. split; [right; reflexivity|].
        constructor; cbn [a_snd a_tgt a_ctime a_msgs]; rewrite ?app_nil_r.
        -- img_eval Hb. rewrite body_of_app, app_nil_r. reflexivity.
        -- img_eval Hh. rewrite write_at_end, hdr_lines_app, amap_size_body. reflexivity.
        -- img_eval Hs. reflexivity.
        -- ctr_field Hsn.
        -- ctr_field Ht.
      * exists (a_msgs a), []. split; [left; reflexivity|]. img_fields Hb Hh Hs Hsn Ht.
    + destruct v.
      * exists (a_msgs a ++ [(n, bs)]), []. split; [right; reflexivity|]. img_fields Hb Hh Hs Hsn Ht.
      * exists (a_msgs a), []. split; [left; reflexivity|]. img_fields Hb Hh Hs Hsn Ht.
    + destruct v.
      * exists (a_msgs a ++ [(n, bs)]), []. split; [right; reflexivity|]. img_fields Hb Hh Hs Hsn Ht.
      * (* power loss between the two syncs: the body has the message, the header does not *)
        exists (a_msgs a), bs. split; [left; reflexivity|].
        constructor; cbn [a_snd a_tgt a_ctime a_msgs].
        -- img_eval Hb. rewrite write_at_end. reflexivity.
        -- img_eval Hh. reflexivity.
        -- img_eval Hs. reflexivity.
        -- ctr_field Hsn.
        -- ctr_field Ht.
    + exists (a_msgs a ++ [(n, bs)]), []. split; [right; reflexivity|]. img_fields Hb Hh Hs Hsn Ht.
  - (* inside a write: the header line (class 3) or the body (class 1) *)
    subst v. exfalso.
    destruct k as [|[|[|[|k]]]]; cbn [nth_error] in Hnth; try discriminate.
    + inversion Hnth; subst f off bs'. clear Hnth.
      unfold c17_class in Hcls. cbn [cp_k cp_j cp_var firstn skipn existsb prim_remove_of prim_write_to nth_error] in Hcls.
      unfold inflight in Hcls. cbn [nth_error] in Hcls.
      assert (E1 : Nat.ltb 0 j = true) by (apply Nat.ltb_lt; lia).
      assert (E2 : Nat.ltb j (length (st_header_line n (Z.of_nat (length (body_of (a_msgs a)))) (len bs))) = true) by (apply Nat.ltb_lt; lia).
      rewrite E1, E2 in Hcls. cbn [andb] in Hcls. revert Hcls. kinds. cbn [andb orb negb]. intros Hcls. discriminate.
    + inversion Hnth; subst f off bs'. clear Hnth.
      unfold c17_class in Hcls. cbn [cp_k cp_j cp_var firstn skipn existsb prim_remove_of prim_write_to nth_error] in Hcls.
      unfold inflight in Hcls. cbn [nth_error] in Hcls.
      assert (E1 : Nat.ltb 0 j = true) by (apply Nat.ltb_lt; lia).
      assert (E2 : Nat.ltb j (length bs) = true) by (apply Nat.ltb_lt; lia).
      assert (E3 : Nat.eqb (length bs) 0 = false) by (apply Nat.eqb_neq; lia).
      rewrite E1, E2 in Hcls. cbn [andb] in Hcls. revert Hcls. kinds. rewrite E3. cbn [andb orb negb]. intros Hcls. discriminate.
    + destruct k as [|[|k]]; cbn [nth_error] in Hnth; try discriminate. destruct k; discriminate.
Qed.

(* ---- an operation made of two phases: crash points, images and classes decompose *)
Lemma crash_points_complete prims k j v :
  (k <= length prims)%nat ->
  (j = O \/ (v = VA /\ exists f off bs, nth_error prims k = Some (PWrite f off bs) /\ (0 < j < length bs)%nat)) ->
  In (mk_cpoint k j v) (crash_points all_cuts_for prims).
Proof.
  intros Hk Hj. unfold crash_points. apply in_flat_map. exists k. split; [apply in_seq; lia|].
  destruct Hj as [Hj|(Hv & f & off & bs & Hnth & Hj)].
  - subst j. apply in_or_app. left. destruct v; cbn; auto.
  - subst v. apply in_or_app. right. rewrite Hnth. apply in_map_iff. exists j. split; [reflexivity|].
    unfold all_cuts_for, all_cuts. apply in_seq. lia.
Qed.

Lemma inflight_app_left P1 P2 k j : (k < length P1)%nat -> inflight (P1 ++ P2) k j = inflight P1 k j.
Proof. intros H. unfold inflight. rewrite nth_error_app1 by exact H. reflexivity. Qed.

Lemma inflight_app_right P1 P2 k j : inflight (P1 ++ P2) (length P1 + k) j = inflight P2 k j.
Proof. unfold inflight. rewrite nth_error_app2 by lia. replace (length P1 + k - length P1)%nat with k by lia. reflexivity. Qed.

Lemma firstn_app_left {A} (P1 P2 : list A) k : (k <= length P1)%nat -> firstn k (P1 ++ P2) = firstn k P1.
Proof. intros H. rewrite firstn_app. replace (k - length P1)%nat with O by lia. cbn [firstn]. apply app_nil_r. Qed.

Lemma firstn_app_right {A} (P1 P2 : list A) k : firstn (length P1 + k) (P1 ++ P2) = P1 ++ firstn k P2.
Proof. rewrite firstn_app. rewrite firstn_all2 by lia. replace (length P1 + k - length P1)%nat with k by lia. reflexivity. Qed.

Lemma skipn_app_left {A} (P1 P2 : list A) k : (k <= length P1)%nat -> skipn k (P1 ++ P2) = skipn k P1 ++ P2.
Proof. intros H. rewrite skipn_app. replace (k - length P1)%nat with O by lia. reflexivity. Qed.

Lemma skipn_app_right {A} (P1 P2 : list A) k : skipn (length P1 + k) (P1 ++ P2) = skipn k P2.
Proof. rewrite skipn_app. rewrite skipn_all2 by lia. replace (length P1 + k - length P1)%nat with k by lia. reflexivity. Qed.

Lemma existsb_skipn_false {A} (f : A -> bool) l n : existsb f l = false -> existsb f (skipn n l) = false.
Proof.
  revert n. induction l as [|x r IH]; intros n H; destruct n; cbn [skipn existsb] in *; try assumption; try reflexivity.
  apply orb_false_iff in H. apply IH. apply H.
Qed.

Lemma existsb_firstn_false {A} (f : A -> bool) l n : existsb f l = false -> existsb f (firstn n l) = false.
Proof.
  revert n. induction l as [|x r IH]; intros n H; destruct n; cbn [firstn existsb] in *; try reflexivity.
  apply orb_false_iff in H. destruct H as [H1 H2]. rewrite H1. apply IH. exact H2.
Qed.

Lemma crash_fs_app_left fs P1 P2 k j : (k < length P1 \/ (k = length P1 /\ j = O))%nat ->
  crash_fs fs (P1 ++ P2) k j = crash_fs fs P1 k j.
Proof.
  intros H. unfold crash_fs. rewrite firstn_app_left by lia. destruct H as [H|[H1 H2]].
  - rewrite inflight_app_left by exact H. reflexivity.
  - subst j. rewrite !inflight_j0. reflexivity.
Qed.

Lemma crash_fs_app_right fs P1 P2 k j : crash_fs fs (P1 ++ P2) (length P1 + k) j = crash_fs (fs_run fs P1) P2 k j.
Proof. unfold crash_fs. rewrite firstn_app_right, inflight_app_right, fs_run_app. reflexivity. Qed.

Lemma class_app_left fs P1 P2 k j v : (k < length P1 \/ (k = length P1 /\ j = O))%nat ->
  existsb (prim_remove_of FK_SENDER) P2 = false -> existsb (prim_write_to FK_BODY true) P2 = false ->
  c17_class fs (P1 ++ P2) (mk_cpoint k j v) = c17_class fs P1 (mk_cpoint k j v).
Proof.
  intros H R2 W2. unfold c17_class. cbn [cp_k cp_j cp_var].
  rewrite firstn_app_left, skipn_app_left by lia. rewrite !existsb_app, R2, W2, !orb_false_r.
  destruct H as [H|[H1 H2]].
  - rewrite inflight_app_left by exact H. rewrite nth_error_app1 by exact H. reflexivity.
  - subst j. rewrite !inflight_j0. reflexivity.
Qed.

Lemma class_app_right fs P1 P2 k j v :
  existsb (prim_remove_of FK_BODY) P1 = false -> existsb (prim_write_to FK_BODY true) P2 = false ->
  c17_class fs (P1 ++ P2) (mk_cpoint (length P1 + k) j v) = c17_class (fs_run fs P1) P2 (mk_cpoint k j v).
Proof.
  intros R1 W2. unfold c17_class. cbn [cp_k cp_j cp_var].
  rewrite firstn_app_right, skipn_app_right, inflight_app_right, fs_run_app.
  rewrite nth_error_app2 by lia. replace (length P1 + k - length P1)%nat with k by lia.
  rewrite !existsb_app, R1. cbn [orb].
  rewrite (existsb_skipn_false _ P2 k W2), !andb_false_r. reflexivity.
Qed.

(* ---- SaveMessageAndIncrNextSenderMsgSeqNum: SaveMessage, then setSeqNum on the sender counter *)
Lemma crash_save_incr sid fs a n bs nx cp : file_rep sid fs a -> a_wf a ->
  a_wf (mk_astore (a_snd a) (a_tgt a) (a_ctime a) (a_msgs a ++ [(n, bs)])) -> ctr_rng nx ->
  let prims := file_save_message_prims sid fs n bs ++ file_set_seq_num_prims (fnm sid FK_SENDER) nx in
  In cp (crash_points all_cuts_for prims) -> c17_class fs prims cp = 0 ->
  exists v msgs' extra, (v = a_snd a \/ v = nx) /\ (msgs' = a_msgs a \/ msgs' = a_msgs a ++ [(n, bs)]) /\
    (v <> a_snd a -> msgs' = a_msgs a ++ [(n, bs)]) /\
    img_rep sid (fs_of_image (crash_image fs prims cp)) (mk_astore v (a_tgt a) (a_ctime a) msgs') extra.
Proof.
  intros Hrep Hwf Hwf1 Hnx prims Hin Hcls.
  set (P1 := file_save_message_prims sid fs n bs) in *. set (P2 := file_set_seq_num_prims (fnm sid FK_SENDER) nx) in *.
  assert (L1 : length P1 = 6%nat) by reflexivity.
  assert (R2 : existsb (prim_remove_of FK_SENDER) P2 = false) by reflexivity.
  assert (W2 : existsb (prim_write_to FK_BODY true) P2 = false).
  { unfold P2, file_set_seq_num_prims. cbn [existsb prim_write_to]. kinds. reflexivity. }
  assert (R1 : existsb (prim_remove_of FK_BODY) P1 = false) by reflexivity.
  destruct (crash_points_spec _ _ Hin) as [Hk Hj]. destruct cp as [k j v]. cbn [cp_k cp_j cp_var] in *.
  unfold prims in *. rewrite app_length, L1 in Hk. cbn [length P2 file_set_seq_num_prims] in Hk.
  destruct (Nat.lt_ge_cases k 6) as [Hlt|Hge].
  - (* inside SaveMessage *)
    assert (Hside : (k < length P1 \/ (k = length P1 /\ j = O))%nat) by lia.
    unfold crash_image in *. cbn [cp_k cp_j cp_var] in *.
    rewrite crash_fs_app_left by exact Hside. rewrite class_app_left in Hcls by assumption.
    assert (Hin1 : In (mk_cpoint k j v) (crash_points all_cuts_for P1)).
    { apply crash_points_complete; [lia|]. destruct Hj as [Hj|(Hv & f & off & bs' & Hnth & Hj)]; [left; exact Hj|].
      right. split; [exact Hv|]. exists f, off, bs'. rewrite nth_error_app1 in Hnth by lia. split; assumption. }
    destruct (crash_save sid fs a n bs _ Hrep Hwf Hin1 Hcls) as (msgs' & extra & Hm & Himg).
    exists (a_snd a), msgs', extra. split; [left; reflexivity|]. split; [exact Hm|]. split; [congruence|]. exact Himg.
  - (* inside the counter update; the message and its header line are written and synced *)
    set (k' := (k - 6)%nat). assert (Ek : k = (length P1 + k')%nat) by (unfold k'; lia). rewrite Ek in *.
    unfold crash_image in *. cbn [cp_k cp_j cp_var] in *.
    rewrite crash_fs_app_right. rewrite class_app_right in Hcls by assumption.
    assert (Hin2 : In (mk_cpoint k' j v) (crash_points all_cuts_for P2)).
    { apply crash_points_complete; [cbn [length P2 file_set_seq_num_prims]; lia|].
      destruct Hj as [Hj|(Hv & f & off & bs' & Hnth & Hj)]; [left; exact Hj|].
      right. split; [exact Hv|]. exists f, off, bs'. rewrite nth_error_app2 in Hnth by lia.
      replace (length P1 + k' - length P1)%nat with k' in Hnth by lia. split; assumption. }
    pose proof (file_save_rep sid fs a n bs Hrep Hwf) as Hrep1. fold P1 in Hrep1.
    destruct (crash_set_sender sid _ _ nx _ Hrep1 Hwf1 Hnx Hin2 Hcls) as (x & Hx & Himg).
    cbn [a_snd a_tgt a_ctime a_msgs] in *.
    exists x, (a_msgs a ++ [(n, bs)]), []. split; [exact Hx|]. split; [right; reflexivity|]. split; [reflexivity|]. exact Himg.
Qed.

(* ---- IterateMessages / GetMessages: [Sync body; Sync header; Open body; Open header] *)
Lemma crash_iterate sid fs a cp : file_rep sid fs a -> a_wf a ->
  let prims := file_iterate_prims sid in
  In cp (crash_points all_cuts_for prims) ->
  img_rep sid (fs_of_image (crash_image fs prims cp)) a [].
Proof.
  intros [Hb Hh Hs Hsn Ht] (_ & _ & _ & Hcs & Hct & _) prims Hin.
  destruct (crash_points_spec _ _ Hin) as [Hk Hj]. destruct cp as [k j v]. cbn [cp_k cp_j cp_var length] in *.
  unfold prims, file_iterate_prims in *. cbn [length] in Hk.
  destruct Hj as [Hj|(Hv & f & off & bs' & Hnth & Hj)].
  - subst j. destruct a as [sn tg ct ms]. cbn [a_snd a_tgt a_ctime a_msgs] in *.
    assert (Hcases : (k = 0 \/ k = 1 \/ k = 2 \/ k = 3 \/ k = 4)%nat) by lia.
    destruct Hcases as [E|[E|[E|[E|E]]]]; subst k; img_fields Hb Hh Hs Hsn Ht.
  - exfalso. destruct k as [|[|[|[|k]]]]; cbn [nth_error] in Hnth; try discriminate. destruct k; discriminate.
Qed.

(* ---- reads of the recovered store (the body may end in bytes that no header line refers to) *)
Lemma file_iter_loop_okx l : forall fuel pre post b e abort seen,
  amap_sorted l -> keys_int64 l -> len pre + amap_size l < two63 -> (length l < fuel)%nat ->
  file_iter_loop fuel (hdr_lines (len pre) l) (pre ++ body_of l ++ post) b e abort seen
  = st_deliver abort seen (amap_range b e l).
Proof.
  induction l as [|kv r IH]; intros fuel pre post b e abort seen Hs Hk Hsz Hf.
  - destruct fuel as [|f]; [cbn in Hf; lia|]. reflexivity.
  - destruct fuel as [|f]; [cbn in Hf; lia|]. cbn [length] in Hf.
    cbn [amap_sorted] in Hs. destruct Hs as [Hlt Hs]. inversion Hk as [|? ? Hk1 Hk2]; subst.
    cbn [amap_size fold_right] in Hsz. fold (amap_size r) in Hsz.
    pose proof (len_nonneg pre) as P1. pose proof (len_nonneg (snd kv)) as P2.
    assert (P3 : 0 <= amap_size r) by (rewrite amap_size_body; apply len_nonneg).
    cbn [file_iter_loop hdr_lines]. rewrite st_fscanf_header_line by lia.
    destruct (e <? fst kv) eqn:E1.
    + rewrite amap_range_above by (assumption || lia). reflexivity.
    + unfold body_of. cbn [map concat]. fold (body_of r).
      assert (Hbody : pre ++ (snd kv ++ body_of r) ++ post = (pre ++ snd kv) ++ body_of r ++ post)
        by (rewrite <- !app_assoc; reflexivity).
      assert (Hbody2 : pre ++ (snd kv ++ body_of r) ++ post = pre ++ snd kv ++ (body_of r ++ post))
        by (rewrite <- !app_assoc; reflexivity).
      assert (Hlen : len pre + len (snd kv) = len (pre ++ snd kv)) by (rewrite len_app; reflexivity).
      destruct (fst kv <? b) eqn:E2.
      * unfold amap_range. cbn [filter]. assert (E : in_rng b e (fst kv) = false) by (unfold in_rng; lia). rewrite E.
        rewrite Hbody, Hlen. apply IH; try assumption; [rewrite len_app; lia | lia].
      * rewrite Hbody2, read_at_mid. unfold amap_range. cbn [filter].
        assert (E : in_rng b e (fst kv) = true) by (unfold in_rng; lia). rewrite E. cbn [map st_deliver].
        destruct (cb_call abort seen (snd kv)) as [seen' fail]. destruct fail; [reflexivity|].
        rewrite <- Hbody2, Hbody, Hlen. apply IH; try assumption; [rewrite len_app; lia | lia].
Qed.

Lemma file_iterate_okx sid fs a extra b e abort : file_repx sid fs a extra -> a_wf a ->
  file_iterate_messages sid fs b e abort = st_deliver abort [] (amap_range b e (a_msgs a)).
Proof.
  intros [Hb Hh Hs Hsn Ht] (Hso & Hk & Hz & _). unfold file_iterate_messages, fs_data. rewrite Hb, Hh.
  pose proof (file_iter_loop_okx (a_msgs a) (S (length (hdr_lines 0 (a_msgs a)))) [] extra b e abort [] Hso Hk) as H.
  change (len []) with 0 in H. cbn [app] in H. apply H.
  - lia.
  - pose proof (hdr_lines_count 0 (a_msgs a)). lia.
Qed.

(* ---- Refresh and close+reopen on well-formed files: sync and open the five files, rewrite both counters with their own values *)
Definition refresh_noop_prims (sid : Z) : list prim :=
  map (fun k => PSync (fnm sid k)) file_kinds ++ map (fun k => POpen (fnm sid k)) file_kinds.

Lemma astore_eta a : mk_astore (a_snd a) (a_tgt a) (a_ctime a) (a_msgs a) = a.
Proof. destruct a; reflexivity. Qed.

Lemma crash_noop sid fs a cp : file_rep sid fs a -> a_wf a ->
  In cp (crash_points all_cuts_for (refresh_noop_prims sid)) ->
  img_rep sid (fs_of_image (crash_image fs (refresh_noop_prims sid) cp)) a [].
Proof.
  intros [Hb Hh Hs Hsn Ht] (_ & _ & _ & Hcs & Hct & _) Hin.
  destruct (crash_points_spec _ _ Hin) as [Hk Hj]. destruct cp as [k j v]. cbn [cp_k cp_j cp_var length] in *.
  unfold refresh_noop_prims, file_kinds in *. cbn [map app length] in *.
  destruct Hj as [Hj|(Hv & f & off & bs' & Hnth & Hj)].
  - subst j. destruct a as [sn tg ct ms]. cbn [a_snd a_tgt a_ctime a_msgs] in *.
    do 11 (destruct k as [|k]; [img_fields Hb Hh Hs Hsn Ht|]). lia.
  - exfalso. do 10 (destruct k as [|k]; [cbn [nth_error] in Hnth; discriminate|]). destruct k; discriminate.
Qed.

Lemma refresh_noop_rep sid fs a : file_rep sid fs a -> file_rep sid (fs_run fs (refresh_noop_prims sid)) a.
Proof.
  intros [Hb Hh Hs Hsn Ht]. unfold refresh_noop_prims. constructor.
  - fs_eval Hb. reflexivity.
  - fs_eval Hh. reflexivity.
  - fs_eval Hs. reflexivity.
  - fs_eval Hsn. reflexivity.
  - fs_eval Ht. reflexivity.
Qed.

Lemma no_body_write_seq sid k v : 0 <= k < 8 -> k <> FK_BODY ->
  existsb (prim_write_to FK_BODY true) (file_set_seq_num_prims (fnm sid k) v) = false.
Proof.
  intros Hk Hne. unfold file_set_seq_num_prims. cbn [existsb prim_write_to]. rewrite is_kind_fnm by exact Hk.
  assert (E : (k =? FK_BODY) = false) by lia. rewrite E. reflexivity.
Qed.

Lemma crash_two_counters sid fs a cp : file_rep sid fs a -> a_wf a ->
  let prims := file_set_seq_num_prims (fnm sid FK_SENDER) (a_snd a) ++ file_set_seq_num_prims (fnm sid FK_TARGET) (a_tgt a) in
  In cp (crash_points all_cuts_for prims) -> c17_class fs prims cp = 0 ->
  img_rep sid (fs_of_image (crash_image fs prims cp)) a [].
Proof.
  intros Hrep Hwf prims Hin Hcls. pose proof Hwf as (_ & _ & _ & Hcs & Hct & _).
  set (P1 := file_set_seq_num_prims (fnm sid FK_SENDER) (a_snd a)) in *.
  set (P2 := file_set_seq_num_prims (fnm sid FK_TARGET) (a_tgt a)) in *.
  assert (L1 : length P1 = 3%nat) by reflexivity.
  assert (R2 : existsb (prim_remove_of FK_SENDER) P2 = false) by reflexivity.
  assert (W2 : existsb (prim_write_to FK_BODY true) P2 = false)
    by (apply no_body_write_seq; unfold FK_TARGET, FK_BODY; lia).
  assert (R1 : existsb (prim_remove_of FK_BODY) P1 = false) by reflexivity.
  destruct (crash_points_spec _ _ Hin) as [Hk Hj]. destruct cp as [k j v]. cbn [cp_k cp_j cp_var] in *.
  unfold prims in *. rewrite app_length, L1 in Hk. cbn [length P2 file_set_seq_num_prims] in Hk.
  destruct (Nat.lt_ge_cases k 3) as [Hlt|Hge].
  - assert (Hside : (k < length P1 \/ (k = length P1 /\ j = O))%nat) by lia.
    unfold crash_image in *. cbn [cp_k cp_j cp_var] in *.
    rewrite crash_fs_app_left by exact Hside. rewrite class_app_left in Hcls by assumption.
    assert (Hin1 : In (mk_cpoint k j v) (crash_points all_cuts_for P1)).
    { apply crash_points_complete; [lia|]. destruct Hj as [Hj|(Hv & f & off & bs' & Hnth & Hj)]; [left; exact Hj|].
      right. split; [exact Hv|]. exists f, off, bs'. rewrite nth_error_app1 in Hnth by lia. split; assumption. }
    destruct (crash_set_sender sid fs a (a_snd a) _ Hrep Hwf Hcs Hin1 Hcls) as (x & Hx & Himg).
    assert (x = a_snd a) by (destruct Hx; assumption). subst x. rewrite astore_eta in Himg. exact Himg.
  - set (k' := (k - 3)%nat). assert (Ek : k = (length P1 + k')%nat) by (unfold k'; lia). rewrite Ek in *.
    unfold crash_image in *. cbn [cp_k cp_j cp_var] in *.
    rewrite crash_fs_app_right. rewrite class_app_right in Hcls by assumption.
    assert (Hin2 : In (mk_cpoint k' j v) (crash_points all_cuts_for P2)).
    { apply crash_points_complete; [cbn [length P2 file_set_seq_num_prims]; lia|].
      destruct Hj as [Hj|(Hv & f & off & bs' & Hnth & Hj)]; [left; exact Hj|].
      right. split; [exact Hv|]. exists f, off, bs'. rewrite nth_error_app2 in Hnth by lia.
      replace (length P1 + k' - length P1)%nat with k' in Hnth by lia. split; assumption. }
    pose proof (file_set_sender_rep sid fs a (a_snd a) Hrep Hwf Hcs) as Hrep1. rewrite astore_eta in Hrep1. fold P1 in Hrep1.
    destruct (crash_set_target sid _ a (a_tgt a) _ Hrep1 Hwf Hct Hin2 Hcls) as (x & Hx & Himg).
    assert (x = a_tgt a) by (destruct Hx; assumption). subst x. rewrite astore_eta in Himg. exact Himg.
Qed.

Lemma crash_refresh sid fs a cp : file_rep sid fs a -> a_wf a ->
  let prims := refresh_noop_prims sid ++
               (file_set_seq_num_prims (fnm sid FK_SENDER) (a_snd a) ++ file_set_seq_num_prims (fnm sid FK_TARGET) (a_tgt a)) in
  In cp (crash_points all_cuts_for prims) -> c17_class fs prims cp = 0 ->
  img_rep sid (fs_of_image (crash_image fs prims cp)) a [].
Proof.
  intros Hrep Hwf prims Hin Hcls.
  set (P1 := refresh_noop_prims sid) in *.
  set (P2 := file_set_seq_num_prims (fnm sid FK_SENDER) (a_snd a) ++ file_set_seq_num_prims (fnm sid FK_TARGET) (a_tgt a)) in *.
  assert (L1 : length P1 = 10%nat) by reflexivity.
  assert (L2 : length P2 = 6%nat) by reflexivity.
  assert (R2 : existsb (prim_remove_of FK_SENDER) P2 = false) by reflexivity.
  assert (W2 : existsb (prim_write_to FK_BODY true) P2 = false).
  { unfold P2. rewrite existsb_app, !no_body_write_seq by (unfold FK_SENDER, FK_TARGET, FK_BODY; lia). reflexivity. }
  assert (R1 : existsb (prim_remove_of FK_BODY) P1 = false) by reflexivity.
  destruct (crash_points_spec _ _ Hin) as [Hk Hj]. destruct cp as [k j v]. cbn [cp_k cp_j cp_var] in *.
  unfold prims in *. rewrite app_length, L1, L2 in Hk.
  destruct (Nat.lt_ge_cases k 10) as [Hlt|Hge].
  - assert (Hside : (k < length P1 \/ (k = length P1 /\ j = O))%nat) by lia.
    unfold crash_image in *. cbn [cp_k cp_j cp_var] in *.
    rewrite crash_fs_app_left by exact Hside.
    assert (Hin1 : In (mk_cpoint k j v) (crash_points all_cuts_for P1)).
    { apply crash_points_complete; [lia|]. destruct Hj as [Hj|(Hv & f & off & bs' & Hnth & Hj)]; [left; exact Hj|].
      right. split; [exact Hv|]. exists f, off, bs'. rewrite nth_error_app1 in Hnth by lia. split; assumption. }
    apply (crash_noop sid fs a _ Hrep Hwf Hin1).
  - set (k' := (k - 10)%nat). assert (Ek : k = (length P1 + k')%nat) by (unfold k'; lia). rewrite Ek in *.
    unfold crash_image in *. cbn [cp_k cp_j cp_var] in *.
    rewrite crash_fs_app_right. rewrite class_app_right in Hcls by assumption.
    assert (Hin2 : In (mk_cpoint k' j v) (crash_points all_cuts_for P2)).
    { apply crash_points_complete; [rewrite L2; lia|].
      destruct Hj as [Hj|(Hv & f & off & bs' & Hnth & Hj)]; [left; exact Hj|].
      right. split; [exact Hv|]. exists f, off, bs'. rewrite nth_error_app2 in Hnth by lia.
      replace (length P1 + k' - length P1)%nat with k' in Hnth by lia. split; assumption. }
    apply (crash_two_counters sid _ a _ (refresh_noop_rep sid fs a Hrep) Hwf Hin2 Hcls).
Qed.

(* ---- the theorem: every operation except Reset as the interrupted one *)
Definition c17_covered (op : sop) : bool :=
  match op with OReset _ => false | _ => true end.

Lemma a_wf_mk v t c m a0 a1 : a_wf a0 -> a_wf a1 ->
  (v = a_snd a0 \/ v = a_snd a1) -> (t = a_tgt a0 \/ t = a_tgt a1) -> c = a_ctime a0 -> (m = a_msgs a0 \/ m = a_msgs a1) ->
  a_wf (mk_astore v t c m).
Proof.
  intros (S0 & K0 & Z0 & C0 & T0 & X0) (S1 & K1 & Z1 & C1 & T1 & X1) Hv Ht Hc Hm. unfold a_wf. cbn [a_snd a_tgt a_ctime a_msgs].
  subst c. destruct Hv, Ht, Hm; subst; auto 10.
Qed.

Lemma file_refresh_prims_existing sid st fs a now : ft_sid st = sid -> file_rep sid fs a -> a_wf a ->
  fst (file_refresh st fs now) =
  file_close_prims st ++ map (fun k => POpen (fnm sid k)) file_kinds ++
  (file_set_seq_num_prims (fnm sid FK_SENDER) (a_snd a) ++ file_set_seq_num_prims (fnm sid FK_TARGET) (a_tgt a)).
Proof.
  intros Hsid Hrep Hwf. unfold file_refresh. rewrite Hsid, (file_populate_existing sid fs a _ Hrep Hwf).
  cbn [fst]. unfold mem_next_sender, mem_next_target. cbn [m_snd m_tgt app]. rewrite !Z.sub_add. reflexivity.
Qed.

Theorem crash_consistent_partial : forall sid st fs a0 op cp now',
  file_inv sid st fs a0 -> abs_op_ok a0 op = true -> c17_covered op = true ->
  In cp (crash_points all_cuts_for (file_op_prims st fs op)) ->
  c17_class fs (file_op_prims st fs op) cp = 0 ->
  exists a' extra,
    c17_consistent a0 (fst (abs_step a0 op)) a' /\ a_wf a' /\
    let r := c17_recover sid now' (crash_image fs (file_op_prims st fs op) cp) in
    file_repx sid (snd r) a' extra /\ file_obs (fst r) = abs_obs a' /\
    ft_sid (fst r) = sid /\ ft_open (fst r) = true /\
    (forall b e abort, file_iterate_messages sid (snd r) b e abort = st_deliver abort [] (amap_range b e (a_msgs a'))).
Proof.
  intros sid st fs a0 op cp now' (Hsid & Hop & Hrep & Hc & Hwf) Hok Hcov Hin Hcls.
  pose proof (abs_step_wf a0 op Hwf Hok) as Hwf1.
  destruct (mem_obs_eq _ _ Hc) as (Hc1 & Hc2 & Hc3).
  assert (Hfin : forall a' extra, c17_consistent a0 (fst (abs_step a0 op)) a' -> a_wf a' ->
            img_rep sid (fs_of_image (crash_image fs (file_op_prims st fs op) cp)) a' extra ->
            exists a' extra,
              c17_consistent a0 (fst (abs_step a0 op)) a' /\ a_wf a' /\
              let r := c17_recover sid now' (crash_image fs (file_op_prims st fs op) cp) in
              file_repx sid (snd r) a' extra /\ file_obs (fst r) = abs_obs a' /\
              ft_sid (fst r) = sid /\ ft_open (fst r) = true /\
              (forall b e abort, file_iterate_messages sid (snd r) b e abort = st_deliver abort [] (amap_range b e (a_msgs a')))).
  { intros a' extra Hcons Hwf' Himg. exists a', extra. split; [exact Hcons|]. split; [exact Hwf'|].
    unfold c17_recover. destruct (c17_recover_rep sid now' _ a' extra Himg Hwf') as (Hx & Ho & H1 & H2).
    cbn zeta. split; [exact Hx|]. split; [exact Ho|]. split; [exact H1|]. split; [exact H2|].
    intros b e abort. apply (file_iterate_okx sid _ a' extra b e abort Hx Hwf'). }
  unfold file_op_prims in *.
  destruct op; try discriminate Hcov; cbn [file_op fst abs_step abs_op_ok] in *; rewrite ?Hsid in *.
  - (* OSetSender *)
    destruct (crash_set_sender sid fs a0 n cp Hrep Hwf (ctr_ok_rng _ Hok) Hin Hcls) as (v & Hv & Himg).
    eapply Hfin; [| |exact Himg].
    + unfold c17_consistent. cbn [a_snd a_tgt a_ctime a_msgs]. repeat split; auto.
    + refine (a_wf_mk _ _ _ _ _ _ Hwf Hwf1 _ _ _ _); cbn [a_snd a_tgt a_ctime a_msgs]; auto.
  - (* OSetTarget *)
    destruct (crash_set_target sid fs a0 n cp Hrep Hwf (ctr_ok_rng _ Hok) Hin Hcls) as (v & Hv & Himg).
    eapply Hfin; [| |exact Himg].
    + unfold c17_consistent. cbn [a_snd a_tgt a_ctime a_msgs]. repeat split; auto.
    + refine (a_wf_mk _ _ _ _ _ _ Hwf Hwf1 _ _ _ _); cbn [a_snd a_tgt a_ctime a_msgs]; auto.
  - (* OIncrSender *)
    unfold mem_next_sender in *. rewrite Hc1 in *.
    destruct (crash_set_sender sid fs a0 (a_snd a0 + 1) cp Hrep Hwf (ctr_ok_rng _ Hok) Hin Hcls) as (v & Hv & Himg).
    eapply Hfin; [| |exact Himg].
    + unfold c17_consistent. cbn [a_snd a_tgt a_ctime a_msgs]. repeat split; auto.
    + refine (a_wf_mk _ _ _ _ _ _ Hwf Hwf1 _ _ _ _); cbn [a_snd a_tgt a_ctime a_msgs]; auto.
  - (* OIncrTarget *)
    unfold mem_next_target in *. rewrite Hc2 in *.
    destruct (crash_set_target sid fs a0 (a_tgt a0 + 1) cp Hrep Hwf (ctr_ok_rng _ Hok) Hin Hcls) as (v & Hv & Himg).
    eapply Hfin; [| |exact Himg].
    + unfold c17_consistent. cbn [a_snd a_tgt a_ctime a_msgs]. repeat split; auto.
    + refine (a_wf_mk _ _ _ _ _ _ Hwf Hwf1 _ _ _ _); cbn [a_snd a_tgt a_ctime a_msgs]; auto.
  - (* OSave *)
    pose proof (ok_save_keys _ _ _ Hok) as Hk. rewrite amap_put_append in * by exact Hk.
    destruct (crash_save sid fs a0 n bs cp Hrep Hwf Hin Hcls) as (msgs' & extra & Hm & Himg).
    eapply Hfin; [| |exact Himg].
    + unfold c17_consistent. cbn [a_snd a_tgt a_ctime a_msgs]. repeat split; auto. intros Hne. contradiction Hne. reflexivity.
    + refine (a_wf_mk _ _ _ _ _ _ Hwf Hwf1 _ _ _ _); cbn [a_snd a_tgt a_ctime a_msgs]; auto.
  - (* OSaveIncr *)
    apply andb_true_iff in Hok. destruct Hok as [Hok1 Hok2].
    pose proof (ok_save_keys _ _ _ Hok1) as Hk. rewrite amap_put_append in * by exact Hk.
    unfold mem_next_sender in *. rewrite Hc1 in *.
    pose proof (abs_step_wf a0 (OSave n bs) Hwf Hok1) as Hwm. cbn [abs_step fst] in Hwm. rewrite amap_put_append in Hwm by exact Hk.
    destruct (crash_save_incr sid fs a0 n bs (a_snd a0 + 1) cp Hrep Hwf Hwm (ctr_ok_rng _ Hok2) Hin Hcls) as (v & msgs' & extra & Hv & Hm & Hvm & Himg).
    eapply Hfin; [| |exact Himg].
    + unfold c17_consistent. cbn [a_snd a_tgt a_ctime a_msgs]. repeat split; auto.
    + refine (a_wf_mk _ _ _ _ _ _ Hwf Hwf1 _ _ _ _); cbn [a_snd a_tgt a_ctime a_msgs]; auto.
  - (* OGet *)
    pose proof (crash_iterate sid fs a0 cp Hrep Hwf Hin) as Himg.
    eapply Hfin; [| |exact Himg]; [|exact Hwf]. unfold c17_consistent. repeat split; auto.
  - (* OIterate *)
    pose proof (crash_iterate sid fs a0 cp Hrep Hwf Hin) as Himg.
    eapply Hfin; [| |exact Himg]; [|exact Hwf]. unfold c17_consistent. repeat split; auto.
  - (* ORefresh *)
    assert (Hp : fst (file_refresh st fs now) = refresh_noop_prims sid ++
              (file_set_seq_num_prims (fnm sid FK_SENDER) (a_snd a0) ++ file_set_seq_num_prims (fnm sid FK_TARGET) (a_tgt a0))).
    { rewrite (file_refresh_prims_existing sid st fs a0 now Hsid Hrep Hwf). unfold file_close_prims. rewrite Hop, Hsid.
      unfold refresh_noop_prims. rewrite <- app_assoc. reflexivity. }
    rewrite Hp in *.
    pose proof (crash_refresh sid fs a0 cp Hrep Hwf Hin Hcls) as Himg.
    eapply Hfin; [| |exact Himg]; [|exact Hwf]. unfold c17_consistent. repeat split; auto.
  - (* OReopen *)
    assert (Hp : fst (let '(ps, c') := file_refresh (mk_fstore sid (mem_create now) false) (fs_run fs (file_close_prims st)) now in
                      (file_close_prims st ++ ps, c'))
                 = refresh_noop_prims sid ++
              (file_set_seq_num_prims (fnm sid FK_SENDER) (a_snd a0) ++ file_set_seq_num_prims (fnm sid FK_TARGET) (a_tgt a0))).
    { pose proof (file_refresh_prims_existing sid (mk_fstore sid (mem_create now) false) _ a0 now eq_refl (file_close_rep sid st fs a0 Hsid Hrep) Hwf) as Hq.
      destruct (file_refresh (mk_fstore sid (mem_create now) false) (fs_run fs (file_close_prims st)) now) as [ps c']. cbn [fst] in *.
      rewrite Hq. unfold file_close_prims. cbn [ft_open ft_sid]. rewrite Hop, Hsid. cbn [app]. reflexivity. }
    rewrite Hp in *.
    pose proof (crash_refresh sid fs a0 cp Hrep Hwf Hin Hcls) as Himg.
    eapply Hfin; [| |exact Himg]; [|exact Hwf]. unfold c17_consistent. repeat split; auto.
Qed.


