(* C16 for store/file: representation invariant, refinement of the abstract store, reopen/refresh, isolation. *)
From Coq Require Import ZArith List Bool Lia.
From QF Require Import Base.Res Base.Bytes Store.AbsStore Store.AbsStoreProofs Store.MemStore Store.Dec Store.DecProofs
  Store.FS Store.FSProofs Store.FileStore.
Import ListNotations.
Open Scope Z_scope.

(* ---- the file format: header lines "seq,off,len\n" tiling the body *)
Fixpoint hdr_lines (o : Z) (l : amap) : bytes :=
  match l with
  | [] => []
  | kv :: r => st_header_line (fst kv) o (len (snd kv)) ++ hdr_lines (o + len (snd kv)) r
  end.
Definition body_of (l : amap) : bytes := concat (map snd l).

Lemma len_app (a b : bytes) : len (a ++ b) = len a + len b.
Proof. unfold len. rewrite app_length. lia. Qed.
Lemma len_nonneg (a : bytes) : 0 <= len a.
Proof. unfold len. lia. Qed.

Lemma amap_size_body l : amap_size l = len (body_of l).
Proof.
  unfold body_of. induction l as [|kv r IH]; [reflexivity|].
  cbn [amap_size fold_right map concat]. fold (amap_size r). rewrite len_app, IH. reflexivity.
Qed.

Lemma body_of_app l n bs : body_of (l ++ [(n, bs)]) = body_of l ++ bs.
Proof. unfold body_of. rewrite map_app, concat_app. cbn [map concat snd]. rewrite app_nil_r. reflexivity. Qed.

Lemma hdr_lines_app l : forall o n bs,
  hdr_lines o (l ++ [(n, bs)]) = hdr_lines o l ++ st_header_line n (o + amap_size l) (len bs).
Proof.
  induction l as [|kv r IH]; intros o n bs; cbn [app hdr_lines amap_size fold_right fst snd].
  - rewrite app_nil_r. f_equal. lia.
  - fold (amap_size r). rewrite IH, <- app_assoc. do 3 f_equal. lia.
Qed.

Lemma hdr_lines_count o l : (length l <= length (hdr_lines o l))%nat.
Proof.
  revert o. induction l as [|kv r IH]; intros o; cbn [hdr_lines length]; [lia|].
  rewrite app_length. pose proof (st_header_line_length (fst kv) o (len (snd kv))). specialize (IH (o + len (snd kv))). lia.
Qed.

Definition keys_int64 (l : amap) : Prop := Forall (fun kv => - two63 <= fst kv < two63) l.

Lemma amap_range_above b e kv r :
  Forall (fun kv' => fst kv < fst kv') r -> e < fst kv -> amap_range b e (kv :: r) = [].
Proof.
  intros Hk He. unfold amap_range. cbn [filter].
  assert (E : in_rng b e (fst kv) = false) by (unfold in_rng; lia). rewrite E.
  induction r as [|x r IH]; [reflexivity|]. inversion Hk as [|? ? H1 H2]; subst. cbn [filter].
  assert (E2 : in_rng b e (fst x) = false) by (unfold in_rng; lia). rewrite E2. apply IH. exact H2.
Qed.

(* IterateMessages over a well-formed header/body pair delivers exactly the range *)
Lemma file_iter_loop_ok l : forall fuel pre b e abort seen,
  amap_sorted l -> keys_int64 l -> len pre + amap_size l < two63 -> (length l < fuel)%nat ->
  file_iter_loop fuel (hdr_lines (len pre) l) (pre ++ body_of l) b e abort seen
  = st_deliver abort seen (amap_range b e l).
Proof.
  induction l as [|kv r IH]; intros fuel pre b e abort seen Hs Hk Hsz Hf.
  - destruct fuel as [|f]; [cbn in Hf; lia|]. reflexivity.
  - destruct fuel as [|f]; [cbn in Hf; lia|]. cbn [length] in Hf.
    cbn [amap_sorted] in Hs. destruct Hs as [Hlt Hs]. inversion Hk as [|? ? Hk1 Hk2]; subst.
    cbn [amap_size fold_right] in Hsz. fold (amap_size r) in Hsz.
    pose proof (len_nonneg pre) as P1. pose proof (len_nonneg (snd kv)) as P2.
    assert (P3 : 0 <= amap_size r) by (rewrite amap_size_body; apply len_nonneg).
    cbn [file_iter_loop hdr_lines]. rewrite st_fscanf_header_line by lia.
    destruct (e <? fst kv) eqn:E1.
    + rewrite amap_range_above by (assumption || lia). reflexivity.
    + unfold body_of. cbn [map concat]. fold (body_of r).
      assert (Hbody : pre ++ snd kv ++ body_of r = (pre ++ snd kv) ++ body_of r) by apply app_assoc.
      assert (Hlen : len pre + len (snd kv) = len (pre ++ snd kv)) by (rewrite len_app; reflexivity).
      destruct (fst kv <? b) eqn:E2.
      * unfold amap_range. cbn [filter]. assert (E : in_rng b e (fst kv) = false) by (unfold in_rng; lia). rewrite E.
        rewrite Hbody, Hlen. apply IH; try assumption; [rewrite len_app; lia | lia].
      * rewrite read_at_mid. unfold amap_range. cbn [filter].
        assert (E : in_rng b e (fst kv) = true) by (unfold in_rng; lia). rewrite E. cbn [map st_deliver].
        destruct (cb_call abort seen (snd kv)) as [seen' fail]. destruct fail; [reflexivity|].
        rewrite Hbody, Hlen. apply IH; try assumption; [rewrite len_app; lia | lia].
Qed.

Lemma file_scan_all_ok l : forall fuel pre,
  keys_int64 l -> len pre + amap_size l < two63 -> (length l < fuel)%nat ->
  file_scan_all fuel (hdr_lines (len pre) l) (pre ++ body_of l) = Some l.
Proof.
  induction l as [|kv r IH]; intros fuel pre Hk Hsz Hf.
  - destruct fuel as [|f]; [cbn in Hf; lia|]. reflexivity.
  - destruct fuel as [|f]; [cbn in Hf; lia|]. cbn [length] in Hf.
    inversion Hk as [|? ? Hk1 Hk2]; subst.
    cbn [amap_size fold_right] in Hsz. fold (amap_size r) in Hsz.
    pose proof (len_nonneg pre) as P1. pose proof (len_nonneg (snd kv)) as P2.
    assert (P3 : 0 <= amap_size r) by (rewrite amap_size_body; apply len_nonneg).
    cbn [file_scan_all hdr_lines]. rewrite st_fscanf_header_line by lia.
    unfold body_of. cbn [map concat]. fold (body_of r). rewrite read_at_mid.
    rewrite app_assoc. replace (len pre + len (snd kv)) with (len (pre ++ snd kv)) by apply len_app.
    rewrite IH; [destruct kv; reflexivity | assumption | rewrite len_app; lia | lia].
Qed.

(* ---- well-formed abstract states *)
Definition a_wf (a : astore) : Prop :=
  amap_sorted (a_msgs a) /\ keys_int64 (a_msgs a) /\ amap_size (a_msgs a) < two63 /\
  ctr_rng (a_snd a) /\ ctr_rng (a_tgt a) /\ - two63 <= a_ctime a < two63.

Lemma ctr_ok_rng n : ctr_ok n = true -> ctr_rng n.
Proof. unfold ctr_ok, ctr_rng, ctr_lo, ten18. lia. Qed.

Lemma in_int64b_spec n : in_int64b n = true -> - two63 <= n < two63.
Proof. unfold in_int64b. lia. Qed.

Lemma abs_init_wf now : - two63 <= now < two63 -> a_wf (abs_init now).
Proof.
  intros H. unfold a_wf, abs_init, ctr_rng, ten18, two63 in *. cbn [a_msgs a_snd a_tgt a_ctime amap_sorted amap_size fold_right].
  repeat split; try lia; constructor.
Qed.

Lemma abs_step_wf a op : a_wf a -> abs_op_ok a op = true -> a_wf (fst (abs_step a op)).
Proof.
  intros (Hs & Hk & Hz & Hsn & Htg & Hct) Hok.
  pose proof (abs_step_sorted a op Hs Hok) as Hs'.
  unfold ctr_rng in *.
  destruct op; cbn [abs_step fst abs_op_ok] in *; unfold a_wf, ctr_rng; cbn [a_msgs a_snd a_tgt a_ctime] in *.
  - pose proof (ctr_ok_rng _ Hok) as Hr. unfold ctr_rng in Hr. repeat split; try assumption; lia.
  - pose proof (ctr_ok_rng _ Hok) as Hr. unfold ctr_rng in Hr. repeat split; try assumption; lia.
  - pose proof (ctr_ok_rng _ Hok) as Hr. unfold ctr_rng in Hr. repeat split; try assumption; lia.
  - pose proof (ctr_ok_rng _ Hok) as Hr. unfold ctr_rng in Hr. repeat split; try assumption; lia.
  - unfold save_ok in Hok. apply andb_true_iff in Hok. destruct Hok as [Hok H3]. apply andb_true_iff in Hok. destruct Hok as [H1 H2].
    rewrite amap_put_append in * by exact H1. apply in_int64b_spec in H2.
    split; [exact Hs'|]. split; [apply Forall_app; split; [exact Hk | constructor; [exact H2 | constructor]]|].
    rewrite amap_size_app. repeat split; lia.
  - apply andb_true_iff in Hok. destruct Hok as [Hok H4].
    unfold save_ok in Hok. apply andb_true_iff in Hok. destruct Hok as [Hok H3]. apply andb_true_iff in Hok. destruct Hok as [H1 H2].
    rewrite amap_put_append in * by exact H1. apply in_int64b_spec in H2.
    pose proof (ctr_ok_rng _ H4) as Hr. unfold ctr_rng in Hr.
    split; [exact Hs'|]. split; [apply Forall_app; split; [exact Hk | constructor; [exact H2 | constructor]]|].
    rewrite amap_size_app. repeat split; lia.
  - repeat split; try assumption; lia.
  - repeat split; try assumption; lia.
  - repeat split; try assumption; lia.
  - apply in_int64b_spec in Hok. unfold ten18, two63 in *. cbn [amap_sorted amap_size fold_right].
    repeat split; try lia; constructor.
  - repeat split; try assumption; lia.
Qed.

(* ---- file names *)
Lemma fnm_eqb_same sid k k' : (fnm sid k =? fnm sid k') = (k =? k').
Proof. unfold fnm. lia. Qed.

Lemma fnm_neq_other sid sid' k k' : sid <> sid' -> 0 <= k < 8 -> 0 <= k' < 8 -> fnm sid k <> fnm sid' k'.
Proof. unfold fnm. lia. Qed.

(* ---- representation invariant: the five files hold the abstract state, everything is synced, the cache agrees *)
Definition synced (d : bytes) : option ffile := Some (mk_ffile d d).

Record file_rep (sid : Z) (fs : fsys) (a : astore) : Prop := mk_file_rep {
  rep_body : fs_find (fnm sid FK_BODY) fs = synced (body_of (a_msgs a));
  rep_header : fs_find (fnm sid FK_HEADER) fs = synced (hdr_lines 0 (a_msgs a));
  rep_session : fs_find (fnm sid FK_SESSION) fs = synced (st_time_text (a_ctime a));
  rep_sender : fs_find (fnm sid FK_SENDER) fs = synced (st_fmt_019d (a_snd a));
  rep_target : fs_find (fnm sid FK_TARGET) fs = synced (st_fmt_019d (a_tgt a))
}.

Definition file_inv (sid : Z) (st : fstore) (fs : fsys) (a : astore) : Prop :=
  ft_sid st = sid /\ ft_open st = true /\ file_rep sid fs a /\ mem_obs (ft_cache st) = abs_obs a /\ a_wf a.

Lemma fs_read_find n fs d : fs_find n fs = synced d -> fs_read n fs = Some d.
Proof. unfold fs_read, synced. intros H. rewrite H. reflexivity. Qed.

Lemma fs_data_find n fs d : fs_find n fs = synced d -> fs_data n fs = d.
Proof. intros H. unfold fs_data. rewrite (fs_read_find _ _ _ H). reflexivity. Qed.

Lemma fs_size_find n fs d : fs_find n fs = synced d -> fs_size n fs = length d.
Proof. intros H. unfold fs_size. rewrite (fs_read_find _ _ _ H). reflexivity. Qed.

(* what the files say is the abstract state *)
Lemma file_rep_abs sid fs a : file_rep sid fs a -> a_wf a -> file_abs sid fs = Some a.
Proof.
  intros [Hb Hh Hs Hsn Ht] (Hso & Hk & Hz & Hcs & Hct & Hc). unfold file_abs.
  rewrite (fs_read_find _ _ _ Hb), (fs_read_find _ _ _ Hh), (fs_read_find _ _ _ Hs), (fs_read_find _ _ _ Hsn), (fs_read_find _ _ _ Ht).
  rewrite !st_counter_roundtrip by assumption. rewrite st_parse_time_text by assumption.
  pose proof (file_scan_all_ok (a_msgs a) (S (length (hdr_lines 0 (a_msgs a)))) [] Hk) as Hscan.
  change (len []) with 0 in Hscan. cbn [app] in Hscan. rewrite Hscan.
  - destruct a; reflexivity.
  - lia.
  - pose proof (hdr_lines_count 0 (a_msgs a)). lia.
Qed.

Lemma file_iterate_ok sid fs a b e abort :
  file_rep sid fs a -> a_wf a ->
  file_iterate_messages sid fs b e abort = st_deliver abort [] (amap_range b e (a_msgs a)).
Proof.
  intros [Hb Hh Hs Hsn Ht] (Hso & Hk & Hz & _). unfold file_iterate_messages.
  rewrite (fs_data_find _ _ _ Hb), (fs_data_find _ _ _ Hh).
  pose proof (file_iter_loop_ok (a_msgs a) (S (length (hdr_lines 0 (a_msgs a)))) [] b e abort [] Hso Hk) as H.
  change (len []) with 0 in H. cbn [app] in H. apply H.
  - lia.
  - pose proof (hdr_lines_count 0 (a_msgs a)). lia.
Qed.

(* ---- evaluating primitive lists on the five files *)
Lemma fk_body_header : (FK_BODY =? FK_HEADER) = false. Proof. reflexivity. Qed.
Lemma fk_body_session : (FK_BODY =? FK_SESSION) = false. Proof. reflexivity. Qed.
Lemma fk_body_sender : (FK_BODY =? FK_SENDER) = false. Proof. reflexivity. Qed.
Lemma fk_body_target : (FK_BODY =? FK_TARGET) = false. Proof. reflexivity. Qed.
Lemma fk_header_body : (FK_HEADER =? FK_BODY) = false. Proof. reflexivity. Qed.
Lemma fk_header_session : (FK_HEADER =? FK_SESSION) = false. Proof. reflexivity. Qed.
Lemma fk_header_sender : (FK_HEADER =? FK_SENDER) = false. Proof. reflexivity. Qed.
Lemma fk_header_target : (FK_HEADER =? FK_TARGET) = false. Proof. reflexivity. Qed.
Lemma fk_session_body : (FK_SESSION =? FK_BODY) = false. Proof. reflexivity. Qed.
Lemma fk_session_header : (FK_SESSION =? FK_HEADER) = false. Proof. reflexivity. Qed.
Lemma fk_session_sender : (FK_SESSION =? FK_SENDER) = false. Proof. reflexivity. Qed.
Lemma fk_session_target : (FK_SESSION =? FK_TARGET) = false. Proof. reflexivity. Qed.
Lemma fk_sender_body : (FK_SENDER =? FK_BODY) = false. Proof. reflexivity. Qed.
Lemma fk_sender_header : (FK_SENDER =? FK_HEADER) = false. Proof. reflexivity. Qed.
Lemma fk_sender_session : (FK_SENDER =? FK_SESSION) = false. Proof. reflexivity. Qed.
Lemma fk_sender_target : (FK_SENDER =? FK_TARGET) = false. Proof. reflexivity. Qed.
Lemma fk_target_body : (FK_TARGET =? FK_BODY) = false. Proof. reflexivity. Qed.
Lemma fk_target_header : (FK_TARGET =? FK_HEADER) = false. Proof. reflexivity. Qed.
Lemma fk_target_session : (FK_TARGET =? FK_SESSION) = false. Proof. reflexivity. Qed.
Lemma fk_target_sender : (FK_TARGET =? FK_SENDER) = false. Proof. reflexivity. Qed.
Global Hint Rewrite fk_body_header fk_body_session fk_body_sender fk_body_target fk_header_body fk_header_session fk_header_sender fk_header_target fk_session_body fk_session_header fk_session_sender fk_session_target fk_sender_body fk_sender_header fk_sender_session fk_sender_target fk_target_body fk_target_header fk_target_session fk_target_sender Z.eqb_refl : fk.

Lemma fk_range : Forall (fun k => 0 <= k < 8) file_kinds.
Proof. unfold file_kinds, FK_BODY, FK_HEADER, FK_SESSION, FK_SENDER, FK_TARGET. repeat constructor; lia. Qed.

Ltac fs_eval H :=
  rewrite ?fs_run_app; rewrite !fs_find_run;
  cbn [fold_left map app file_kinds file_close_prims file_set_seq_num_prims file_set_session_prims
       file_save_message_prims file_iterate_prims];
  rewrite H; unfold synced;
  cbn [ostep]; rewrite ?fnm_eqb_same; autorewrite with fk;
  cbn [option_map f_data f_dur].

Lemma set_seq_find sid k v fs n :
  fs_find n (fs_run fs (file_set_seq_num_prims (fnm sid k) v)) =
  if fnm sid k =? n then option_map (fun y => mk_ffile (write_at (f_data y) 0 (st_fmt_019d v)) (write_at (f_data y) 0 (st_fmt_019d v))) (fs_find n fs)
  else fs_find n fs.
Proof.
  rewrite fs_find_run. cbn [file_set_seq_num_prims fold_left ostep].
  destruct (fnm sid k =? n); [|reflexivity]. destruct (fs_find n fs); reflexivity.
Qed.

Ltac solve_triple := repeat (apply pair_equal_spec; split); lia.

Lemma fmt_019d_over d n : ctr_rng n -> (length d <= 19)%nat -> write_at d 0 (st_fmt_019d n) = st_fmt_019d n.
Proof. intros Hn Hd. apply write_at_over. rewrite st_fmt_019d_length by exact Hn. exact Hd. Qed.

(* setSeqNum on the sender / target counter file *)
Lemma file_set_sender_rep sid fs a n : file_rep sid fs a -> a_wf a -> ctr_rng n ->
  file_rep sid (fs_run fs (file_set_seq_num_prims (fnm sid FK_SENDER) n)) (mk_astore n (a_tgt a) (a_ctime a) (a_msgs a)).
Proof.
  intros [Hb Hh Hs Hsn Ht] (_ & _ & _ & Hcs & _) Hn. constructor; cbn [a_snd a_tgt a_ctime a_msgs].
  - fs_eval Hb. reflexivity.
  - fs_eval Hh. reflexivity.
  - fs_eval Hs. reflexivity.
  - fs_eval Hsn. rewrite fmt_019d_over by (try assumption; rewrite st_fmt_019d_length by assumption; lia). reflexivity.
  - fs_eval Ht. reflexivity.
Qed.

Lemma file_set_target_rep sid fs a n : file_rep sid fs a -> a_wf a -> ctr_rng n ->
  file_rep sid (fs_run fs (file_set_seq_num_prims (fnm sid FK_TARGET) n)) (mk_astore (a_snd a) n (a_ctime a) (a_msgs a)).
Proof.
  intros [Hb Hh Hs Hsn Ht] (_ & _ & _ & _ & Hct & _) Hn. constructor; cbn [a_snd a_tgt a_ctime a_msgs].
  - fs_eval Hb. reflexivity.
  - fs_eval Hh. reflexivity.
  - fs_eval Hs. reflexivity.
  - fs_eval Hsn. reflexivity.
  - fs_eval Ht. rewrite fmt_019d_over by (try assumption; rewrite st_fmt_019d_length by assumption; lia). reflexivity.
Qed.

(* SaveMessage with a number above all saved ones *)
Lemma file_save_rep sid fs a n bs : file_rep sid fs a -> a_wf a ->
  file_rep sid (fs_run fs (file_save_message_prims sid fs n bs))
    (mk_astore (a_snd a) (a_tgt a) (a_ctime a) (a_msgs a ++ [(n, bs)])).
Proof.
  intros [Hb Hh Hs Hsn Ht] _. unfold file_save_message_prims.
  rewrite (fs_size_find _ _ _ Hb), (fs_size_find _ _ _ Hh).
  constructor; cbn [a_snd a_tgt a_ctime a_msgs].
  - fs_eval Hb. rewrite write_at_end, body_of_app. reflexivity.
  - fs_eval Hh. rewrite write_at_end, hdr_lines_app, amap_size_body. reflexivity.
  - fs_eval Hs. reflexivity.
  - fs_eval Hsn. reflexivity.
  - fs_eval Ht. reflexivity.
Qed.

Lemma file_iterate_prims_rep sid fs a : file_rep sid fs a -> file_rep sid (fs_run fs (file_iterate_prims sid)) a.
Proof.
  intros [Hb Hh Hs Hsn Ht]. constructor.
  - fs_eval Hb. reflexivity.
  - fs_eval Hh. reflexivity.
  - fs_eval Hs. reflexivity.
  - fs_eval Hsn. reflexivity.
  - fs_eval Ht. reflexivity.
Qed.

(* populateCache on well-formed files *)
Lemma file_populate_existing sid fs a c : file_rep sid fs a -> a_wf a ->
  file_populate_cache sid c fs = (mk_memstore (a_snd a - 1) (a_tgt a - 1) (a_ctime a) (m_map c), true).
Proof.
  intros [Hb Hh Hs Hsn Ht] (_ & _ & _ & Hcs & Hct & Hc). unfold file_populate_cache.
  rewrite (fs_read_find _ _ _ Hs), (fs_read_find _ _ _ Hsn), (fs_read_find _ _ _ Ht).
  rewrite st_parse_time_text by assumption. rewrite !st_counter_roundtrip by assumption.
  reflexivity.
Qed.

Lemma file_refresh_existing sid st fs a now : ft_sid st = sid -> file_rep sid fs a -> a_wf a ->
  file_rep sid (fs_run fs (fst (file_refresh st fs now))) a /\ mem_obs (snd (file_refresh st fs now)) = abs_obs a.
Proof.
  intros Hsid Hrep Hwf. unfold file_refresh. rewrite Hsid, (file_populate_existing sid fs a _ Hrep Hwf).
  cbn [fst snd]. unfold mem_next_sender, mem_next_target. cbn [m_snd m_tgt]. rewrite !Z.sub_add.
  destruct Hwf as (_ & _ & _ & Hcs & Hct & _). destruct Hrep as [Hb Hh Hs Hsn Ht].
  split.
  - unfold file_close_prims. rewrite Hsid. destruct (ft_open st); constructor.
    + fs_eval Hb. reflexivity.
    + fs_eval Hh. reflexivity.
    + fs_eval Hs. reflexivity.
    + fs_eval Hsn. rewrite fmt_019d_over by (try assumption; rewrite st_fmt_019d_length by assumption; lia). reflexivity.
    + fs_eval Ht. rewrite fmt_019d_over by (try assumption; rewrite st_fmt_019d_length by assumption; lia). reflexivity.
    + fs_eval Hb. reflexivity.
    + fs_eval Hh. reflexivity.
    + fs_eval Hs. reflexivity.
    + fs_eval Hsn. rewrite fmt_019d_over by (try assumption; rewrite st_fmt_019d_length by assumption; lia). reflexivity.
    + fs_eval Ht. rewrite fmt_019d_over by (try assumption; rewrite st_fmt_019d_length by assumption; lia). reflexivity.
  - unfold mem_obs, abs_obs, mem_next_sender, mem_next_target, mem_creation_time. cbn [m_snd m_tgt m_ctime]. solve_triple.
Qed.

Definition file_absent (sid : Z) (fs : fsys) : Prop :=
  Forall (fun k => fs_find (fnm sid k) fs = None) file_kinds.

Lemma fs_read_none n fs : fs_find n fs = None -> fs_read n fs = None.
Proof. unfold fs_read. intros H. rewrite H. reflexivity. Qed.

(* Refresh when no file of the session exists: newFileStore on an empty directory, second half of Reset *)
Lemma file_refresh_fresh sid st fs now : ft_sid st = sid -> ft_open st = false -> file_absent sid fs ->
  - two63 <= now < two63 ->
  file_rep sid (fs_run fs (fst (file_refresh st fs now))) (abs_init now) /\
  mem_obs (snd (file_refresh st fs now)) = abs_obs (abs_init now).
Proof.
  intros Hsid Hop Habs Hnow. unfold file_absent, file_kinds in Habs.
  apply Forall_cons_iff in Habs. destruct Habs as [Hb Habs]. apply Forall_cons_iff in Habs. destruct Habs as [Hh Habs].
  apply Forall_cons_iff in Habs. destruct Habs as [Hs Habs]. apply Forall_cons_iff in Habs. destruct Habs as [Hsn Habs].
  apply Forall_cons_iff in Habs. destruct Habs as [Ht _].
  unfold file_refresh, file_populate_cache. rewrite Hsid.
  rewrite (fs_read_none _ _ Hs), (fs_read_none _ _ Hsn), (fs_read_none _ _ Ht).
  cbn [fst snd]. unfold file_close_prims. rewrite Hop.
  unfold mem_next_sender, mem_next_target, mem_creation_time, mem_reset. cbn [m_snd m_tgt m_ctime app].
  assert (C1 : ctr_rng 1) by (unfold ctr_rng, ten18, two63; lia).
  split.
  - constructor; cbn [abs_init a_snd a_tgt a_ctime a_msgs body_of hdr_lines map concat].
    + fs_eval Hb. reflexivity.
    + fs_eval Hh. reflexivity.
    + fs_eval Hs. rewrite write_at_over by (cbn [length]; lia). reflexivity.
    + fs_eval Hsn. rewrite write_at_over by (cbn [length]; lia). reflexivity.
    + fs_eval Ht. rewrite write_at_over by (cbn [length]; lia). reflexivity.
  - reflexivity.
Qed.

Lemma file_close_rep sid st fs a : ft_sid st = sid -> file_rep sid fs a -> file_rep sid (fs_run fs (file_close_prims st)) a.
Proof.
  intros Hsid [Hb Hh Hs Hsn Ht]. unfold file_close_prims. rewrite Hsid. destruct (ft_open st); constructor.
  - fs_eval Hb. reflexivity.
  - fs_eval Hh. reflexivity.
  - fs_eval Hs. reflexivity.
  - fs_eval Hsn. reflexivity.
  - fs_eval Ht. reflexivity.
  - fs_eval Hb. reflexivity.
  - fs_eval Hh. reflexivity.
  - fs_eval Hs. reflexivity.
  - fs_eval Hsn. reflexivity.
  - fs_eval Ht. reflexivity.
Qed.

Lemma file_reset_absent sid st fs a : ft_sid st = sid -> file_rep sid fs a ->
  file_absent sid (fs_run fs (file_close_prims st ++ map (fun k => PRemove (fnm sid k)) file_kinds)).
Proof.
  intros Hsid [Hb Hh Hs Hsn Ht]. unfold file_absent, file_close_prims. rewrite Hsid.
  destruct (ft_open st); repeat constructor.
  - fs_eval Hb. reflexivity.
  - fs_eval Hh. reflexivity.
  - fs_eval Hs. reflexivity.
  - fs_eval Hsn. reflexivity.
  - fs_eval Ht. reflexivity.
  - fs_eval Hb. reflexivity.
  - fs_eval Hh. reflexivity.
  - fs_eval Hs. reflexivity.
  - fs_eval Hsn. reflexivity.
  - fs_eval Ht. reflexivity.
Qed.

Lemma mem_obs_eq c a : mem_obs c = abs_obs a -> m_snd c + 1 = a_snd a /\ m_tgt c + 1 = a_tgt a /\ m_ctime c = a_ctime a.
Proof.
  unfold mem_obs, abs_obs, mem_next_sender, mem_next_target, mem_creation_time. intros H. inversion H. auto.
Qed.

Lemma ok_save_keys a n bs : save_ok a n bs = true -> amap_keys_lt n (a_msgs a) = true.
Proof. unfold save_ok. intros H. destruct (amap_keys_lt n (a_msgs a)); [reflexivity | discriminate]. Qed.

Lemma file_inv_intro sid st fs a :
  ft_sid st = sid -> ft_open st = true -> file_rep sid fs a -> mem_obs (ft_cache st) = abs_obs a -> a_wf a -> file_inv sid st fs a.
Proof. unfold file_inv. auto. Qed.

Ltac obs_triple :=
  unfold mem_obs, abs_obs, mem_next_sender, mem_next_target, mem_creation_time, mem_set_next_sender, mem_set_next_target;
  cbn [m_snd m_tgt m_ctime m_map a_snd a_tgt a_ctime a_msgs]; solve_triple.

Lemma file_step_refines sid st fs a op :
  file_inv sid st fs a -> abs_op_ok a op = true ->
  snd (file_step st fs op) = snd (abs_step a op) /\
  file_inv sid (fst (fst (file_step st fs op))) (snd (fst (file_step st fs op))) (fst (abs_step a op)).
Proof.
  intros (Hsid & Hop & Hrep & Hc & Hwf) Hok.
  pose proof (abs_step_wf a op Hwf Hok) as Hwf'.
  destruct (mem_obs_eq _ _ Hc) as (Hc1 & Hc2 & Hc3).
  unfold file_step.
  destruct op; cbn [file_op abs_step fst snd abs_op_ok] in *; rewrite ?Hsid.
  - (* OSetSender *)
    cbn [fst snd]. split; [reflexivity|].
    apply file_inv_intro; cbn [ft_sid ft_open ft_cache]; [reflexivity | reflexivity | | obs_triple | exact Hwf'].
    apply file_set_sender_rep; try assumption. apply ctr_ok_rng. exact Hok.
  - cbn [fst snd]. split; [reflexivity|].
    apply file_inv_intro; cbn [ft_sid ft_open ft_cache]; [reflexivity | reflexivity | | obs_triple | exact Hwf'].
    apply file_set_target_rep; try assumption. apply ctr_ok_rng. exact Hok.
  - (* OIncrSender *)
    cbn [fst snd]. unfold mem_next_sender. rewrite Hc1. split; [reflexivity|].
    apply file_inv_intro; cbn [ft_sid ft_open ft_cache]; [reflexivity | reflexivity | | obs_triple | exact Hwf'].
    apply file_set_sender_rep; try assumption. apply ctr_ok_rng. exact Hok.
  - cbn [fst snd]. unfold mem_next_target. rewrite Hc2. split; [reflexivity|].
    apply file_inv_intro; cbn [ft_sid ft_open ft_cache]; [reflexivity | reflexivity | | obs_triple | exact Hwf'].
    apply file_set_target_rep; try assumption. apply ctr_ok_rng. exact Hok.
  - (* OSave *)
    pose proof (ok_save_keys _ _ _ Hok) as Hk. rewrite amap_put_append in * by exact Hk.
    cbn [fst snd]. split; [reflexivity|].
    apply file_inv_intro; cbn [ft_sid ft_open ft_cache]; [reflexivity | reflexivity | | exact Hc | exact Hwf'].
    apply file_save_rep; assumption.
  - (* OSaveIncr *)
    apply andb_true_iff in Hok. destruct Hok as [Hok1 Hok2].
    pose proof (ok_save_keys _ _ _ Hok1) as Hk. rewrite amap_put_append in * by exact Hk.
    cbn [fst snd]. unfold mem_next_sender. rewrite Hc1. split; [reflexivity|].
    apply file_inv_intro; cbn [ft_sid ft_open ft_cache]; [reflexivity | reflexivity | | obs_triple | exact Hwf'].
    rewrite fs_run_app.
    pose proof (file_save_rep sid fs a n bs Hrep Hwf) as Hr1.
    pose proof (abs_step_wf a (OSave n bs) Hwf Hok1) as Hw1. cbn [abs_step fst] in Hw1. rewrite amap_put_append in Hw1 by exact Hk.
    apply (file_set_sender_rep sid _ _ (a_snd a + 1) Hr1 Hw1). apply ctr_ok_rng. exact Hok2.
  - (* OGet *)
    cbn [fst snd].
    pose proof (file_iterate_prims_rep sid fs a Hrep) as Hr.
    rewrite (file_iterate_ok sid _ a b e None Hr Hwf), st_deliver_none. cbn [app].
    split; [reflexivity|]. apply file_inv_intro; cbn [ft_sid ft_open ft_cache]; auto.
  - (* OIterate *)
    cbn [fst snd].
    pose proof (file_iterate_prims_rep sid fs a Hrep) as Hr.
    rewrite (file_iterate_ok sid _ a b e abort Hr Hwf).
    split; [reflexivity|]. apply file_inv_intro; cbn [ft_sid ft_open ft_cache]; auto.
  - (* ORefresh *)
    destruct (file_refresh_existing sid st fs a now Hsid Hrep Hwf) as [Hr Ho].
    destruct (file_refresh st fs now) as [ps c]. cbn [fst snd] in *.
    split; [reflexivity|]. apply file_inv_intro; cbn [ft_sid ft_open ft_cache]; auto.
  - (* OReset *)
    unfold file_reset. rewrite Hsid.
    pose proof (file_reset_absent sid st fs a Hsid Hrep) as Habs.
    apply in_int64b_spec in Hok.
    destruct (file_refresh_fresh sid (mk_fstore sid (mem_reset now) false) _ now eq_refl eq_refl Habs Hok) as [Hr Ho].
    destruct (file_refresh (mk_fstore sid (mem_reset now) false) _ now) as [ps c].
    cbn [fst snd] in *. rewrite fs_run_app.
    split; [reflexivity|]. apply file_inv_intro; cbn [ft_sid ft_open ft_cache]; auto.
  - (* OReopen *)
    pose proof (file_close_rep sid st fs a Hsid Hrep) as Hr0.
    destruct (file_refresh_existing sid (mk_fstore sid (mem_create now) false) _ a now eq_refl Hr0 Hwf) as [Hr Ho].
    destruct (file_refresh (mk_fstore sid (mem_create now) false) _ now) as [ps c].
    cbn [fst snd] in *. rewrite fs_run_app.
    split; [reflexivity|]. apply file_inv_intro; cbn [ft_sid ft_open ft_cache]; auto.
Qed.

Lemma file_run_refines sid ops : forall st fs a,
  file_inv sid st fs a -> abs_hist_ok a ops = true ->
  snd (file_run st fs ops) = snd (abs_run a ops) /\
  file_inv sid (fst (fst (file_run st fs ops))) (snd (fst (file_run st fs ops))) (fst (abs_run a ops)).
Proof.
  induction ops as [|op r IH]; intros st fs a Hinv Hok; cbn [file_run abs_run abs_hist_ok] in *.
  - split; [reflexivity | exact Hinv].
  - apply andb_true_iff in Hok. destruct Hok as [Hop Hr].
    destruct (file_step_refines sid st fs a op Hinv Hop) as [Ho Hinv'].
    destruct (file_step st fs op) as [[st1 fs1] o]. destruct (abs_step a op) as [a1 o'] eqn:Ea.
    cbn [fst snd] in *. specialize (IH st1 fs1 a1 Hinv' Hr).
    destruct (file_run st1 fs1 r) as [[st2 fs2] outs]. destruct (abs_run a1 r) as [a2 outs'].
    cbn [fst snd] in *. destruct IH as [IH1 IH2]. split; [|exact IH2].
    destruct Hinv' as (_ & _ & _ & Hc & _). subst o' outs'. unfold file_obs. rewrite Hc. reflexivity.
Qed.

Lemma file_new_store_inv sid now fs : file_absent sid fs -> - two63 <= now < two63 ->
  file_inv sid (fst (file_new_store sid now fs)) (snd (file_new_store sid now fs)) (abs_init now).
Proof.
  intros Habs Hnow. unfold file_new_store.
  destruct (file_refresh_fresh sid (mk_fstore sid (mem_create now) false) fs now eq_refl eq_refl Habs Hnow) as [Hr Ho].
  destruct (file_refresh (mk_fstore sid (mem_create now) false) fs now) as [ps c]. cbn [fst snd] in *.
  apply file_inv_intro; cbn [ft_sid ft_open ft_cache]; auto. apply abs_init_wf. exact Hnow.
Qed.

Lemma file_inv_abs sid st fs a : file_inv sid st fs a -> file_abs sid fs = Some a /\ file_obs st = abs_obs a.
Proof. intros (_ & _ & Hrep & Hc & Hwf). split; [apply file_rep_abs; assumption | exact Hc]. Qed.

(* c16_refines_file: a store created in an empty directory *)
Theorem file_refines : forall sid now ops, - two63 <= now < two63 -> abs_hist_ok (abs_init now) ops = true ->
  let st0 := fst (file_new_store sid now []) in
  let fs0 := snd (file_new_store sid now []) in
  snd (file_run st0 fs0 ops) = snd (abs_run (abs_init now) ops) /\
  file_abs sid (snd (fst (file_run st0 fs0 ops))) = Some (fst (abs_run (abs_init now) ops)) /\
  file_obs (fst (fst (file_run st0 fs0 ops))) = abs_obs (fst (abs_run (abs_init now) ops)).
Proof.
  intros sid now ops Hnow Hok st0 fs0.
  assert (Hinv : file_inv sid st0 fs0 (abs_init now)).
  { apply file_new_store_inv; [|exact Hnow]. unfold file_absent, file_kinds. repeat constructor. }
  destruct (file_run_refines sid ops st0 fs0 _ Hinv Hok) as [H1 H2].
  split; [exact H1|]. apply file_inv_abs. exact H2.
Qed.

(* c16_reopen_file: a fresh store opened on the files, and Refresh, see the same abstract state and leave the files as they are *)
Theorem file_reopen : forall sid st fs a now, file_inv sid st fs a ->
  file_inv sid (fst (file_new_store sid now fs)) (snd (file_new_store sid now fs)) a /\
  file_inv sid (fst (fst (file_step st fs (ORefresh now)))) (snd (fst (file_step st fs (ORefresh now)))) a.
Proof.
  intros sid st fs a now (Hsid & Hop & Hrep & Hc & Hwf). split.
  - unfold file_new_store.
    destruct (file_refresh_existing sid (mk_fstore sid (mem_create now) false) fs a now eq_refl Hrep Hwf) as [Hr Ho].
    destruct (file_refresh (mk_fstore sid (mem_create now) false) fs now) as [ps c]. cbn [fst snd] in *.
    apply file_inv_intro; cbn [ft_sid ft_open ft_cache]; auto.
  - unfold file_step. cbn [file_op].
    destruct (file_refresh_existing sid st fs a now Hsid Hrep Hwf) as [Hr Ho].
    destruct (file_refresh st fs now) as [ps c]. cbn [fst snd] in *.
    apply file_inv_intro; cbn [ft_sid ft_open ft_cache]; auto.
Qed.

(* ---- isolation: every primitive of an operation of session sid is on one of that session's five files *)
Definition prim_of_sid (sid : Z) (p : prim) : Prop := exists k, prim_file p = fnm sid k /\ 0 <= k < 8.

Ltac prims_sid :=
  cbn [app map file_kinds file_set_seq_num_prims file_set_session_prims file_save_message_prims file_iterate_prims];
  repeat (apply Forall_cons; [eexists; split; [reflexivity | unfold FK_BODY, FK_HEADER, FK_SESSION, FK_SENDER, FK_TARGET; lia]|]);
  apply Forall_nil.

Lemma file_close_prims_sid st : Forall (prim_of_sid (ft_sid st)) (file_close_prims st).
Proof. unfold file_close_prims. destruct (ft_open st); prims_sid. Qed.

Lemma file_refresh_prims_sid st fs now : Forall (prim_of_sid (ft_sid st)) (fst (file_refresh st fs now)).
Proof.
  unfold file_refresh. destruct (file_populate_cache (ft_sid st) (mem_reset now) fs) as [c pop]. cbn [fst].
  apply Forall_app. split; [apply file_close_prims_sid|]. destruct pop; prims_sid.
Qed.

Lemma file_op_prims_sid st fs op : Forall (prim_of_sid (ft_sid st)) (file_op_prims st fs op).
Proof.
  unfold file_op_prims. destruct op; cbn [file_op fst]; try prims_sid.
  - apply file_refresh_prims_sid.
  - unfold file_reset.
    pose proof (file_refresh_prims_sid (mk_fstore (ft_sid st) (mem_reset now) false)
      (fs_run fs (file_close_prims st ++ map (fun k => PRemove (fnm (ft_sid st) k)) file_kinds)) now) as H.
    destruct (file_refresh _ _ now) as [ps c]. cbn [fst ft_sid] in *.
    apply Forall_app. split; [|exact H]. apply Forall_app. split; [apply file_close_prims_sid | prims_sid].
  - pose proof (file_refresh_prims_sid (mk_fstore (ft_sid st) (mem_create now) false) (fs_run fs (file_close_prims st)) now) as H.
    destruct (file_refresh _ _ now) as [ps c]. cbn [fst ft_sid] in *.
    apply Forall_app. split; [apply file_close_prims_sid | exact H].
Qed.

Lemma file_step_fs st fs op : snd (fst (file_step st fs op)) = fs_run fs (file_op_prims st fs op).
Proof. unfold file_step, file_op_prims. destruct (file_op st fs op) as [ps c]. reflexivity. Qed.

Theorem file_isolation_find : forall sid sid' st fs op k, ft_sid st = sid -> sid' <> sid -> 0 <= k < 8 ->
  fs_find (fnm sid' k) (snd (fst (file_step st fs op))) = fs_find (fnm sid' k) fs.
Proof.
  intros sid sid' st fs op k Hsid Hne Hk. rewrite file_step_fs, fs_find_run. apply fold_ostep_other.
  pose proof (file_op_prims_sid st fs op) as H. rewrite Hsid in H.
  eapply Forall_impl; [|exact H]. intros p (k' & Hp & Hk'). rewrite Hp. apply fnm_neq_other; [congruence | assumption | assumption].
Qed.

(* isolation: an operation of session sid leaves what the files say about another session untouched *)
Theorem file_isolation : forall sid sid' st fs op, ft_sid st = sid -> sid' <> sid ->
  file_abs sid' (snd (fst (file_step st fs op))) = file_abs sid' fs.
Proof.
  intros sid sid' st fs op Hsid Hne. unfold file_abs, fs_read.
  rewrite !(file_isolation_find sid sid' st fs op) by (assumption || (unfold FK_BODY, FK_HEADER, FK_SESSION, FK_SENDER, FK_TARGET; lia)).
  reflexivity.
Qed.
