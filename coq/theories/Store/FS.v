(* A file system small enough for store/file: named files as byte lists.  Every file carries its current
   content and its durable content (what the medium holds: the content as of the last Sync; for the
   append-only body and header files this is the synced prefix, for the counter files that are rewritten in
   place it is the previously synced text).  Below write/fsync nothing is modelled: creating and removing a
   directory entry is taken to be durable at once, a write never fails, a Sync makes the whole file durable. *)
From Coq Require Import ZArith List Bool.
From QF Require Import Base.Res Base.Bytes.
Import ListNotations.
Open Scope Z_scope.

Record ffile := mk_ffile { f_data : bytes; f_dur : bytes }.
Definition fsys := list (Z * ffile).

(* length of the synced prefix: how far the durable content agrees with the current content *)
Fixpoint common_prefix_len (a b : bytes) : nat :=
  match a, b with
  | x :: a', y :: b' => if x =? y then S (common_prefix_len a' b') else O
  | _, _ => O
  end.
Definition f_synced_len (f : ffile) : nat := common_prefix_len (f_data f) (f_dur f).

Inductive prim :=
| PSeekStart (f : Z)                       (* Seek(0, io.SeekStart) on the store's handle *)
| PSeekEnd (f : Z)                         (* Seek(0, io.SeekEnd) *)
| PWrite (f : Z) (off : nat) (bs : bytes)  (* Write at the handle's position, which is off *)
| PSync (f : Z)
| PRemove (f : Z)                          (* os.Remove, no error if absent *)
| POpen (f : Z).                           (* openOrCreateFile: created empty when absent *)

Fixpoint fs_find (n : Z) (fs : fsys) : option ffile :=
  match fs with
  | [] => None
  | (k, f) :: r => if k =? n then Some f else fs_find n r
  end.

Fixpoint fs_update (n : Z) (g : ffile -> ffile) (fs : fsys) : fsys :=
  match fs with
  | [] => []
  | (k, f) :: r => if k =? n then (k, g f) :: r else (k, f) :: fs_update n g r
  end.

Definition fs_remove (n : Z) (fs : fsys) : fsys := filter (fun kf => negb (fst kf =? n)) fs.

(* os.ReadFile *)
Definition fs_read (n : Z) (fs : fsys) : option bytes := option_map f_data (fs_find n fs).
Definition fs_size (n : Z) (fs : fsys) : nat := match fs_read n fs with Some d => length d | None => O end.

(* bytes of d overwritten / extended by bs at offset off (a hole is filled with zero bytes) *)
Definition write_at (d : bytes) (off : nat) (bs : bytes) : bytes :=
  firstn off d ++ repeat 0 (off - length d) ++ bs ++ skipn (off + length bs) d.

Definition fs_step (fs : fsys) (p : prim) : fsys :=
  match p with
  | PSeekStart _ | PSeekEnd _ => fs
  | PWrite n off bs => fs_update n (fun f => mk_ffile (write_at (f_data f) off bs) (f_dur f)) fs
  | PSync n => fs_update n (fun f => mk_ffile (f_data f) (f_data f)) fs
  | PRemove n => fs_remove n fs
  | POpen n => match fs_find n fs with Some _ => fs | None => fs ++ [(n, mk_ffile [] [])] end
  end.

Definition fs_run (fs : fsys) (ps : list prim) : fsys := fold_left fs_step ps fs.

(* os.File.ReadAt(make([]byte, size), off): an error unless size bytes are there; reading nothing always succeeds *)
Definition read_at (d : bytes) (off size : Z) : res bytes :=
  if size <? 0 then Panic                       (* make([]byte, size) with a negative size *)
  else if off <? 0 then Err 1                   (* "negative offset" *)
  else if size =? 0 then Ok []
  else if off + size <=? len d then Ok (firstn (Z.to_nat size) (skipn (Z.to_nat off) d))
  else Err 2.                                   (* io.EOF / short read *)
