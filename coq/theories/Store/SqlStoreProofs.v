(* C16 for store/sql (statement-level model): refinement of the abstract store, reopen/refresh, isolation;
   C17: save-and-increment is atomic under statement failure. *)
From Coq Require Import ZArith List Bool Lia.
From QF Require Import Base.Res Base.Bytes Store.AbsStore Store.AbsStoreProofs Store.MemStore Store.MemStoreProofs Store.SqlStore.
Import ListNotations.
Open Scope Z_scope.

Ltac solve_triple := repeat (apply pair_equal_spec; split); lia.

(* ---- tables *)
Lemma sq_find_update sid sid' (g : Z * Z * Z -> Z * Z * Z) t :
  sq_find sid' (sq_update_row sid g t) = if sid' =? sid then option_map g (sq_find sid' t) else sq_find sid' t.
Proof.
  induction t as [|[k v] r IH]; cbn [sq_update_row map sq_find fst snd].
  - destruct (sid' =? sid); reflexivity.
  - fold (sq_update_row sid g r). destruct (k =? sid) eqn:E1; cbn [sq_find fst snd].
    + destruct (k =? sid') eqn:E2.
      * assert (E3 : (sid' =? sid) = true) by lia. rewrite E3. reflexivity.
      * exact IH.
    + destruct (k =? sid') eqn:E2.
      * assert (E3 : (sid' =? sid) = false) by lia. rewrite E3. reflexivity.
      * exact IH.
Qed.

Lemma sq_find_app_none {A} sid (t : list (Z * A)) x : sq_find sid t = None -> sq_find sid (t ++ [(sid, x)]) = Some x.
Proof.
  induction t as [|[k v] r IH]; cbn [sq_find app]; intros H.
  - rewrite Z.eqb_refl. reflexivity.
  - destruct (k =? sid); [discriminate | apply IH; exact H].
Qed.

Lemma sq_find_app_other {A} sid sid' (t : list (Z * A)) x : sid' <> sid -> sq_find sid' (t ++ [(sid, x)]) = sq_find sid' t.
Proof.
  intros Hne. induction t as [|[k v] r IH]; cbn [sq_find app].
  - assert (E : (sid =? sid') = false) by lia. rewrite E. reflexivity.
  - destruct (k =? sid'); [reflexivity | exact IH].
Qed.

Lemma sq_rows_of_app sid sid' t n bs :
  sq_rows_of sid' (t ++ [(sid, (n, bs))]) = if sid =? sid' then sq_rows_of sid' t ++ [(n, bs)] else sq_rows_of sid' t.
Proof.
  unfold sq_rows_of. rewrite filter_app, map_app. cbn [filter fst].
  destruct (sid =? sid'); cbn [map snd]; [reflexivity | rewrite app_nil_r; reflexivity].
Qed.

Lemma sq_has_msg_rows sid seq t :
  sq_has_msg sid seq t = existsb (fun kv => fst kv =? seq) (sq_rows_of sid t).
Proof.
  unfold sq_has_msg, sq_rows_of. induction t as [|[k [s b]] r IH]; cbn [existsb filter map fst snd]; [reflexivity|].
  destruct (k =? sid); cbn [andb orb map existsb fst snd]; rewrite IH; reflexivity.
Qed.

Lemma keys_lt_no_key n m : amap_keys_lt n m = true -> existsb (fun kv => fst kv =? n) m = false.
Proof.
  induction m as [|kv r IH]; cbn [amap_keys_lt forallb existsb]; intros H; [reflexivity|].
  apply andb_true_iff in H. destruct H as [H1 H2]. rewrite (IH H2).
  assert (E : (fst kv =? n) = false) by lia. rewrite E. reflexivity.
Qed.

Lemma sq_rows_of_delete sid sid' t :
  sq_rows_of sid' (filter (fun row => negb (fst row =? sid)) t) = if sid' =? sid then [] else sq_rows_of sid' t.
Proof.
  unfold sq_rows_of. induction t as [|[k v] r IH]; cbn [filter map fst].
  - destruct (sid' =? sid); reflexivity.
  - destruct (k =? sid) eqn:E1; cbn [negb filter fst].
    + destruct (k =? sid') eqn:E2.
      * assert (E3 : (sid' =? sid) = true) by lia. rewrite E3 in *. exact IH.
      * exact IH.
    + destruct (k =? sid') eqn:E2; cbn [map snd].
      * assert (E3 : (sid' =? sid) = false) by lia. rewrite E3 in *. rewrite IH. reflexivity.
      * exact IH.
Qed.

Lemma sq_insert_head x l : Forall (fun y => fst x < fst y) l -> sq_insert x l = x :: l.
Proof.
  destruct l as [|y r]; intros H; [reflexivity|]. inversion H as [|? ? H1 _]; subst.
  cbn [sq_insert]. assert (E : (fst x <=? fst y) = true) by lia. rewrite E. reflexivity.
Qed.

Lemma sq_sort_sorted m : amap_sorted m -> sq_sort m = m.
Proof.
  induction m as [|kv r IH]; cbn [sq_sort amap_sorted]; intros Hs; [reflexivity|].
  destruct Hs as [Hk Hr]. rewrite IH by exact Hr. apply sq_insert_head. exact Hk.
Qed.

(* ---- representation invariant for session sid *)
Definition sql_inv (sid : Z) (st : sqlstore) (db : sqldb) (a : astore) : Prop :=
  sq_sid st = sid /\
  sql_get_seq_nums sid db = Some (a_ctime a, a_tgt a, a_snd a) /\
  sq_rows_of sid (db_messages db) = a_msgs a /\
  mem_obs (sq_cache st) = abs_obs a /\
  amap_sorted (a_msgs a).

Lemma sql_inv_abs sid st db a : sql_inv sid st db a -> sql_abs sid db = Some a /\ sql_obs st = abs_obs a.
Proof.
  intros (_ & Hrow & Hmsgs & Hc & Hs). split; [|exact Hc].
  unfold sql_abs. rewrite Hrow, Hmsgs, sq_sort_sorted by exact Hs. destruct a; reflexivity.
Qed.

Lemma sql_get_messages_range sid b e db m :
  sq_rows_of sid (db_messages db) = m -> amap_sorted m -> sql_get_messages sid b e db = amap_range b e m.
Proof.
  intros Hm Hs. unfold sql_get_messages, amap_range. rewrite Hm.
  rewrite sq_sort_sorted by (apply filter_keys_sorted; exact Hs). reflexivity.
Qed.

Lemma mem_obs_eq c a : mem_obs c = abs_obs a -> m_snd c + 1 = a_snd a /\ m_tgt c + 1 = a_tgt a /\ m_ctime c = a_ctime a.
Proof.
  unfold mem_obs, abs_obs, mem_next_sender, mem_next_target, mem_creation_time. intros H. inversion H. auto.
Qed.

Lemma ok_save_keys a n bs : save_ok a n bs = true -> amap_keys_lt n (a_msgs a) = true.
Proof. unfold save_ok. intros H. destruct (amap_keys_lt n (a_msgs a)); [reflexivity | discriminate]. Qed.

Lemma sql_step_refines sid st db a op :
  sql_inv sid st db a -> abs_op_ok a op = true ->
  let '(st', db', o) := sql_step st db op in
  o = snd (abs_step a op) /\ sql_inv sid st' db' (fst (abs_step a op)).
Proof.
  intros (Hsid & Hrow & Hmsgs & Hc & Hs) Hok.
  assert (Hs' := abs_step_sorted a op Hs Hok).
  destruct (mem_obs_eq _ _ Hc) as (Hc1 & Hc2 & Hc3).
  destruct st as [sid0 c]. cbn [sq_sid sq_cache] in *. subst sid0.
  unfold sql_get_seq_nums in Hrow.
  destruct op; cbn [abs_step fst a_msgs] in Hs'; cbn [sql_step abs_step fst snd sq_sid sq_cache]; unfold sql_set_next_sender, sql_set_next_target; cbn [sq_sid sq_cache].
  - split; [reflexivity|]. unfold sql_inv, sql_get_seq_nums, sql_update_sender_seq_num. cbn [db_sessions db_messages sq_sid sq_cache a_snd a_tgt a_ctime a_msgs].
    rewrite sq_find_update, Z.eqb_refl, Hrow. cbn [option_map].
    repeat split; try assumption. unfold mem_obs, abs_obs, mem_next_sender, mem_next_target, mem_creation_time, mem_set_next_sender. cbn. solve_triple.
  - split; [reflexivity|]. unfold sql_inv, sql_get_seq_nums, sql_update_target_seq_num. cbn [db_sessions db_messages sq_sid sq_cache a_snd a_tgt a_ctime a_msgs].
    rewrite sq_find_update, Z.eqb_refl, Hrow. cbn [option_map].
    repeat split; try assumption. unfold mem_obs, abs_obs, mem_next_sender, mem_next_target, mem_creation_time, mem_set_next_target. cbn. solve_triple.
  - split; [reflexivity|]. unfold sql_inv, sql_get_seq_nums, sql_update_sender_seq_num. cbn [db_sessions db_messages sq_sid sq_cache a_snd a_tgt a_ctime a_msgs].
    rewrite sq_find_update, Z.eqb_refl, Hrow. cbn [option_map].
    unfold mem_next_sender. rewrite Hc1.
    repeat split; try assumption. unfold mem_obs, abs_obs, mem_next_sender, mem_next_target, mem_creation_time, mem_set_next_sender. cbn. solve_triple.
  - split; [reflexivity|]. unfold sql_inv, sql_get_seq_nums, sql_update_target_seq_num. cbn [db_sessions db_messages sq_sid sq_cache a_snd a_tgt a_ctime a_msgs].
    rewrite sq_find_update, Z.eqb_refl, Hrow. cbn [option_map].
    unfold mem_next_target. rewrite Hc2.
    repeat split; try assumption. unfold mem_obs, abs_obs, mem_next_sender, mem_next_target, mem_creation_time, mem_set_next_target. cbn. solve_triple.
  - (* OSave *)
    cbn [abs_op_ok] in Hok. pose proof (ok_save_keys _ _ _ Hok) as Hk.
    unfold sql_insert_message. rewrite sq_has_msg_rows, Hmsgs, (keys_lt_no_key _ _ Hk). cbn [bind sql_res_out].
    split; [reflexivity|]. unfold sql_inv, sql_get_seq_nums. cbn [db_sessions db_messages sq_sid sq_cache a_snd a_tgt a_ctime a_msgs] in *.
    rewrite sq_rows_of_app, Z.eqb_refl, Hmsgs, amap_put_append by exact Hk.
    repeat split; try assumption. rewrite amap_put_append in Hs' by exact Hk. exact Hs'.
  - (* OSaveIncr *)
    cbn [abs_op_ok] in Hok. apply andb_true_iff in Hok. destruct Hok as [Hok _]. pose proof (ok_save_keys _ _ _ Hok) as Hk.
    unfold sql_save_message_and_incr. cbn [sq_sid sq_cache]. change (0 =? 1) with false. change (0 =? 2) with false. change (0 =? 3) with false. cbn iota.
    unfold sql_insert_message. rewrite sq_has_msg_rows, Hmsgs, (keys_lt_no_key _ _ Hk).
    split; [reflexivity|]. unfold sql_inv, sql_get_seq_nums, sql_update_sender_seq_num. cbn [db_sessions db_messages sq_sid sq_cache a_snd a_tgt a_ctime a_msgs] in *.
    rewrite sq_find_update, Z.eqb_refl, Hrow. cbn [option_map].
    rewrite sq_rows_of_app, Z.eqb_refl, Hmsgs, amap_put_append by exact Hk.
    unfold mem_next_sender. rewrite Hc1.
    repeat split; try assumption.
    + unfold mem_obs, abs_obs, mem_next_sender, mem_next_target, mem_creation_time, mem_set_next_sender. cbn. solve_triple.
    + rewrite amap_put_append in Hs' by exact Hk. exact Hs'.
  - (* OGet *)
    rewrite (sql_get_messages_range sid b e db (a_msgs a)) by assumption.
    split; [reflexivity|]. unfold sql_inv. repeat split; assumption.
  - (* OIterate *)
    rewrite (sql_get_messages_range sid b e db (a_msgs a)) by assumption.
    split; [reflexivity|]. unfold sql_inv. repeat split; assumption.
  - (* ORefresh *)
    unfold sql_populate_cache, sql_get_seq_nums. cbn [sq_sid sq_cache]. rewrite Hrow. cbn [sql_res_out].
    split; [reflexivity|]. unfold sql_inv, sql_get_seq_nums. cbn [sq_sid sq_cache]. repeat split; try assumption.
    unfold mem_obs, abs_obs, mem_next_sender, mem_next_target, mem_creation_time, mem_set_next_sender, mem_set_next_target, mem_set_creation_time, mem_reset. cbn. solve_triple.
  - (* OReset *)
    split; [reflexivity|]. unfold sql_inv, sql_get_seq_nums, sql_update_session, sql_delete_messages. cbn [db_sessions db_messages sq_sid sq_cache a_snd a_tgt a_ctime a_msgs].
    rewrite sq_find_update, Z.eqb_refl, Hrow. cbn [option_map].
    rewrite sq_rows_of_delete, Z.eqb_refl.
    repeat split.
  - (* OReopen *)
    unfold sql_new_store, sql_populate_cache, sql_get_seq_nums. cbn [sq_sid sq_cache]. rewrite Hrow. cbn [sql_res_out].
    split; [reflexivity|]. unfold sql_inv, sql_get_seq_nums. cbn [sq_sid sq_cache]. repeat split; try assumption.
    unfold mem_obs, abs_obs, mem_next_sender, mem_next_target, mem_creation_time, mem_set_next_sender, mem_set_next_target, mem_set_creation_time, mem_reset. cbn. solve_triple.
Qed.

Lemma sql_run_refines sid ops : forall st db a,
  sql_inv sid st db a -> abs_hist_ok a ops = true ->
  snd (sql_run st db ops) = snd (abs_run a ops) /\
  sql_inv sid (fst (fst (sql_run st db ops))) (snd (fst (sql_run st db ops))) (fst (abs_run a ops)).
Proof.
  induction ops as [|op r IH]; intros st db a Hinv Hok; cbn [sql_run abs_run abs_hist_ok] in *.
  - split; [reflexivity | exact Hinv].
  - apply andb_true_iff in Hok. destruct Hok as [Hop Hr].
    pose proof (sql_step_refines sid st db a op Hinv Hop) as Hstep.
    destruct (sql_step st db op) as [[st1 db1] o]. destruct (abs_step a op) as [a1 o'] eqn:Ea.
    cbn [fst snd] in *. destruct Hstep as [Ho Hinv'].
    specialize (IH st1 db1 a1 Hinv' Hr).
    destruct (sql_run st1 db1 r) as [[st2 db2] outs]. destruct (abs_run a1 r) as [a2 outs'].
    cbn [fst snd] in *. destruct IH as [IH1 IH2]. split; [|exact IH2].
    destruct Hinv' as (_ & _ & _ & Hc & _). subst o' outs'. unfold sql_obs. rewrite Hc. reflexivity.
Qed.

Lemma sql_new_store_inv sid now db :
  sql_get_seq_nums sid db = None -> sq_rows_of sid (db_messages db) = [] ->
  exists st db', sql_new_store sid now db = Ok (st, db') /\ sql_inv sid st db' (abs_init now).
Proof.
  intros Hnone Hrows. unfold sql_new_store, sql_populate_cache, sql_insert_session, sql_get_seq_nums in *. cbn [sq_sid sq_cache].
  rewrite Hnone. cbn [bind]. eexists. eexists. split; [reflexivity|].
  unfold sql_inv, sql_get_seq_nums. cbn [sq_sid sq_cache db_sessions db_messages].
  rewrite sq_find_app_none by exact Hnone. repeat split; try assumption.
Qed.

(* c16_refines_sql: a store created on an empty database *)
Theorem sql_refines : forall sid now ops, abs_hist_ok (abs_init now) ops = true ->
  exists st db, sql_new_store sid now sql_empty = Ok (st, db) /\
    snd (sql_run st db ops) = snd (abs_run (abs_init now) ops) /\
    sql_abs sid (snd (fst (sql_run st db ops))) = Some (fst (abs_run (abs_init now) ops)) /\
    sql_obs (fst (fst (sql_run st db ops))) = abs_obs (fst (abs_run (abs_init now) ops)).
Proof.
  intros sid now ops Hok.
  destruct (sql_new_store_inv sid now sql_empty) as (st & db & Hnew & Hinv); [reflexivity | reflexivity |].
  exists st, db. split; [exact Hnew|].
  destruct (sql_run_refines sid ops st db _ Hinv Hok) as [H1 H2].
  split; [exact H1|]. apply sql_inv_abs. exact H2.
Qed.

Lemma sql_populate_inv sid st db a now :
  sql_inv sid st db a ->
  exists st', sql_populate_cache (mk_sqlstore sid (mem_reset now)) db = Ok (st', db) /\ sql_inv sid st' db a.
Proof.
  intros (Hsid & Hrow & Hmsgs & Hc & Hs). unfold sql_populate_cache. cbn [sq_sid sq_cache]. rewrite Hrow.
  eexists. split; [reflexivity|]. unfold sql_inv. cbn [sq_sid sq_cache]. repeat split; try assumption.
  unfold mem_obs, abs_obs, mem_next_sender, mem_next_target, mem_creation_time, mem_set_next_sender, mem_set_next_target, mem_set_creation_time, mem_reset. cbn. solve_triple.
Qed.

(* c16_reopen_sql: a fresh store opened on the database, and Refresh, see the same abstract state *)
Theorem sql_reopen : forall sid st db a now,
  sql_inv sid st db a ->
  (exists st', sql_new_store sid now db = Ok (st', db) /\ sql_inv sid st' db a) /\
  (exists st', sql_step st db (ORefresh now) = (st', db, sout_ok) /\ sql_inv sid st' db a).
Proof.
  intros sid st db a now Hinv.
  destruct (sql_populate_inv sid st db a now Hinv) as (st' & Hp & Hinv').
  split.
  - exists st'. split; [exact Hp | exact Hinv'].
  - exists st'. split; [|exact Hinv']. cbn [sql_step]. destruct Hinv as (Hsid & _). rewrite Hsid, Hp. reflexivity.
Qed.

(* isolation: an operation of session sid leaves what the database says about another session untouched *)
Theorem sql_isolation : forall sid sid' st db op,
  sq_sid st = sid -> sid' <> sid ->
  sql_abs sid' (snd (fst (sql_step st db op))) = sql_abs sid' db.
Proof.
  intros sid sid' [sid0 c] db op Hsid Hne. cbn [sq_sid] in Hsid. subst sid0.
  assert (E : (sid' =? sid) = false) by lia.
  assert (E' : (sid =? sid') = false) by lia.
  unfold sql_abs, sql_get_seq_nums.
  destruct op; cbn [sql_step fst snd sq_sid sq_cache]; unfold sql_set_next_sender, sql_set_next_target,
    sql_update_sender_seq_num, sql_update_target_seq_num, sql_update_session, sql_delete_messages; cbn [fst snd db_sessions db_messages sq_sid sq_cache];
    try (rewrite sq_find_update, E; reflexivity); try reflexivity.
  - unfold sql_insert_message. destruct (sq_has_msg sid n (db_messages db)); cbn [bind sql_res_out fst snd]; [reflexivity|].
    cbn [db_sessions db_messages]. rewrite sq_rows_of_app, E'. reflexivity.
  - unfold sql_save_message_and_incr, sql_insert_message. cbn [sq_sid sq_cache].
    change (0 =? 1) with false. change (0 =? 2) with false. change (0 =? 3) with false. cbn iota.
    destruct (sq_has_msg sid n (db_messages db)); cbn [fst snd]; [reflexivity|].
    unfold sql_update_sender_seq_num. cbn [db_sessions db_messages]. rewrite sq_find_update, E, sq_rows_of_app, E'. reflexivity.
  - unfold sql_populate_cache, sql_get_seq_nums, sql_insert_session. cbn [sq_sid sq_cache].
    destruct (sq_find sid (db_sessions db)) as [[[ct inc] outg]|] eqn:Ef; cbn [bind sql_res_out fst snd]; [reflexivity|].
    cbn [db_sessions db_messages]. rewrite sq_find_app_other by exact Hne. reflexivity.
  - rewrite sq_find_update, E, sq_rows_of_delete, E. reflexivity.
  - unfold sql_new_store, sql_populate_cache, sql_get_seq_nums, sql_insert_session. cbn [sq_sid sq_cache].
    destruct (sq_find sid (db_sessions db)) as [[[ct inc] outg]|] eqn:Ef; cbn [bind sql_res_out fst snd]; [reflexivity|].
    cbn [db_sessions db_messages]. rewrite sq_find_app_other by exact Hne. reflexivity.
Qed.

(* c17_sql_atomic: a failure of the INSERT, of the UPDATE or of the Commit of save-and-increment leaves neither the message
   nor the increment behind: database and cache are exactly as before.  (Also when the INSERT fails by itself.) *)
Theorem sql_save_and_incr_atomic : forall st db n bs fail st' db' o,
  sql_save_message_and_incr st db n bs fail = (st', db', o) ->
  so_st o <> ST_OK -> db' = db /\ st' = st.
Proof.
  intros st db n bs fail st' db' o H Hne. unfold sql_save_message_and_incr in H.
  destruct (fail =? 1); [inversion H; auto|].
  destruct (sql_insert_message (sq_sid st) n bs db); try (inversion H; auto; fail).
  destruct (fail =? 2); [inversion H; auto|].
  destruct (fail =? 3); [inversion H; auto|].
  inversion H; subst. cbn in Hne. contradiction.
Qed.

Theorem sql_save_and_incr_fails : forall st db n bs fail,
  fail = 1 \/ fail = 2 \/ fail = 3 ->
  exists o, sql_save_message_and_incr st db n bs fail = (st, db, o) /\ so_st o = ST_ERR.
Proof.
  intros st db n bs fail Hf. unfold sql_save_message_and_incr.
  destruct Hf as [Hf|[Hf|Hf]]; subst fail; cbn [Z.eqb Pos.eqb].
  - eexists; split; reflexivity.
  - destruct (sql_insert_message (sq_sid st) n bs db); eexists; split; reflexivity.
  - destruct (sql_insert_message (sq_sid st) n bs db); eexists; split; reflexivity.
Qed.
