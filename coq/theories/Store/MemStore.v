(* memory_store.go, function by function.  The Go map is an association list with unique keys in
   insertion order (a nil map and an empty map are both []: reads do not distinguish them and
   SaveMessage makes the map before writing). *)
From Coq Require Import ZArith List Bool.
From QF Require Import Base.Res Base.Bytes Store.AbsStore.
Import ListNotations.
Open Scope Z_scope.

Record memstore := mk_memstore {
  m_snd : Z;        (* senderMsgSeqNum *)
  m_tgt : Z;        (* targetMsgSeqNum *)
  m_ctime : Z;      (* creationTime *)
  m_map : amap      (* messageMap *)
}.

Definition mem_next_sender (s : memstore) : Z := m_snd s + 1.
Definition mem_next_target (s : memstore) : Z := m_tgt s + 1.
Definition mem_incr_next_sender (s : memstore) : memstore := mk_memstore (m_snd s + 1) (m_tgt s) (m_ctime s) (m_map s).
Definition mem_incr_next_target (s : memstore) : memstore := mk_memstore (m_snd s) (m_tgt s + 1) (m_ctime s) (m_map s).
Definition mem_set_next_sender (s : memstore) (n : Z) : memstore := mk_memstore (n - 1) (m_tgt s) (m_ctime s) (m_map s).
Definition mem_set_next_target (s : memstore) (n : Z) : memstore := mk_memstore (m_snd s) (n - 1) (m_ctime s) (m_map s).
Definition mem_creation_time (s : memstore) : Z := m_ctime s.
Definition mem_set_creation_time (s : memstore) (t : Z) : memstore := mk_memstore (m_snd s) (m_tgt s) t (m_map s).
(* Reset: counters 0, creationTime = time.Now(), messageMap = nil *)
Definition mem_reset (now : Z) : memstore := mk_memstore 0 0 now [].
(* memoryStoreFactory.Create: new(memoryStore) then Reset *)
Definition mem_create (now : Z) : memstore := mem_reset now.

(* m[k] = v *)
Fixpoint mmap_set (k : Z) (v : bytes) (m : amap) : amap :=
  match m with
  | [] => [(k, v)]
  | (k', v') :: r => if k =? k' then (k, v) :: r else (k', v') :: mmap_set k v r
  end.

Definition mem_save_message (s : memstore) (n : Z) (bs : bytes) : memstore :=
  mk_memstore (m_snd s) (m_tgt s) (m_ctime s) (mmap_set n bs (m_map s)).

Definition mem_save_message_and_incr (s : memstore) (n : Z) (bs : bytes) : memstore :=
  mem_incr_next_sender (mem_save_message s n bs).

(* sort.Ints *)
Fixpoint st_insert (x : Z) (l : list Z) : list Z :=
  match l with
  | [] => [x]
  | y :: r => if x <=? y then x :: l else y :: st_insert x r
  end.
Fixpoint st_isort (l : list Z) : list Z :=
  match l with
  | [] => []
  | x :: r => st_insert x (st_isort r)
  end.

(* wide-range branch: for _, seqNum := range seqNums { if err := cb(store.messageMap[seqNum]); ... } *)
Fixpoint mem_iter_keys (keys : list Z) (m : amap) (abort : option nat) (seen : list bytes) : sout :=
  match keys with
  | [] => mk_sout ST_OK seen
  | k :: r =>
      let msg := match amap_get k m with Some v => v | None => [] end in
      let '(seen', fail) := cb_call abort seen msg in
      if fail then mk_sout ST_CB seen' else mem_iter_keys r m abort seen'
  end.

(* for seqNum := beginSeqNum; seqNum <= endSeqNum; seqNum++ { if m, ok := map[seqNum]; ok { cb(m) } } *)
Fixpoint mem_iter_num (fuel : nat) (seq e : Z) (m : amap) (abort : option nat) (seen : list bytes) : sout :=
  match fuel with
  | O => mk_sout ST_FUEL seen
  | S fuel' =>
      if e <? seq then mk_sout ST_OK seen else
      match amap_get seq m with
      | Some v =>
          let '(seen', fail) := cb_call abort seen v in
          if fail then mk_sout ST_CB seen' else mem_iter_num fuel' (seq + 1) e m abort seen'
      | None => mem_iter_num fuel' (seq + 1) e m abort seen
      end
  end.

Definition mem_iterate_messages (s : memstore) (b e : Z) (abort : option nat) : sout :=
  if e <? b then mk_sout ST_OK [] else
  let m := m_map s in
  (* uint64(end)-uint64(begin) for begin <= end is end-begin *)
  if Z.of_nat (length m) <? e - b then
    let keys := map fst (filter (fun kv => in_rng b e (fst kv)) m) in
    mem_iter_keys (st_isort keys) m abort []
  else
    (* at most len(m)+1 numbers are visited in this branch *)
    mem_iter_num (S (S (length m))) b e m abort [].

Definition mem_get_messages (s : memstore) (b e : Z) : sout := mem_iterate_messages s b e None.

Definition mem_step (s : memstore) (op : sop) : memstore * sout :=
  match op with
  | OSetSender n => (mem_set_next_sender s n, sout_ok)
  | OSetTarget n => (mem_set_next_target s n, sout_ok)
  | OIncrSender => (mem_incr_next_sender s, sout_ok)
  | OIncrTarget => (mem_incr_next_target s, sout_ok)
  | OSave n bs => (mem_save_message s n bs, sout_ok)
  | OSaveIncr n bs => (mem_save_message_and_incr s n bs, sout_ok)
  | OGet b e => (s, mem_get_messages s b e)
  | OIterate b e abort => (s, mem_iterate_messages s b e abort)
  | ORefresh _ => (s, sout_ok)                 (* NOP *)
  | OReset now => (mem_reset now, sout_ok)
  | OReopen _ => (s, sout_ok)                  (* Close is a NOP; there is no backing medium to reopen: the object is kept *)
  end.

Definition mem_obs (s : memstore) : sobs := (mem_next_sender s, mem_next_target s, mem_creation_time s).

Fixpoint mem_run (s : memstore) (ops : list sop) : memstore * list (sout * sobs) :=
  match ops with
  | [] => (s, [])
  | op :: r =>
      let '(s1, o) := mem_step s op in
      let '(s2, outs) := mem_run s1 r in
      (s2, (o, mem_obs s1) :: outs)
  end.

(* abstraction function *)
Definition mem_abs (s : memstore) : astore :=
  mk_astore (mem_next_sender s) (mem_next_target s) (m_ctime s) (m_map s).

Fixpoint mem_run2 (p : memstore * memstore) (ops : list (bool * sop)) : list (sout * sobs) :=
  match ops with
  | [] => []
  | (i, op) :: r =>
      let '(s1, o) := mem_step (pick2 i p) op in
      (o, mem_obs s1) :: mem_run2 (set2 i p s1) r
  end.
