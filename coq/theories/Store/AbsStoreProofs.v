(* Lemmas about the abstract store: ascending saves append, ranges of sorted maps, delivery to an aborting callback. *)
From Coq Require Import ZArith List Bool Lia.
From QF Require Import Base.Res Base.Bytes Store.AbsStore.
Import ListNotations.
Open Scope Z_scope.

Fixpoint amap_sorted (m : amap) : Prop :=
  match m with
  | [] => True
  | kv :: r => Forall (fun kv' => fst kv < fst kv') r /\ amap_sorted r
  end.

Lemma keys_lt_spec n m : amap_keys_lt n m = true <-> Forall (fun kv => fst kv < n) m.
Proof.
  unfold amap_keys_lt. rewrite forallb_forall, Forall_forall.
  split; intros H x Hx; specialize (H x Hx); lia.
Qed.

Lemma amap_put_append n bs m : amap_keys_lt n m = true -> amap_put n bs m = m ++ [(n, bs)].
Proof.
  induction m as [|[k v] r IH]; cbn [amap_put amap_keys_lt forallb app fst]; intros H; [reflexivity|].
  apply andb_true_iff in H. destruct H as [H1 H2].
  assert (Hn : (n <? k) = false) by lia. assert (He : (n =? k) = false) by lia.
  rewrite Hn, He. f_equal. apply IH. exact H2.
Qed.

Lemma amap_sorted_app n bs m :
  amap_sorted m -> Forall (fun kv => fst kv < n) m -> amap_sorted (m ++ [(n, bs)]).
Proof.
  induction m as [|[k v] r IH]; cbn [amap_sorted app]; intros Hs Hl.
  - split; [constructor | exact I].
  - destruct Hs as [Hk Hr]. inversion Hl as [|? ? Hk1 Hl1]; subst. split.
    + apply Forall_app. split; [exact Hk|]. constructor; [exact Hk1|constructor].
    + apply IH; assumption.
Qed.

Lemma amap_size_app m n bs : amap_size (m ++ [(n, bs)]) = amap_size m + len bs.
Proof.
  induction m as [|kv r IH]; cbn [amap_size app fold_right snd]; [lia|].
  fold (amap_size (r ++ [(n, bs)])). fold (amap_size r). lia.
Qed.

Lemma amap_get_none b m : Forall (fun kv => b < fst kv) m -> amap_get b m = None.
Proof.
  induction m as [|[k v] r IH]; cbn [amap_get]; intros H; [reflexivity|].
  inversion H as [|? ? H1 H2]; subst. cbn [fst] in H1.
  assert (E : (b =? k) = false) by lia. rewrite E. apply IH. exact H2.
Qed.

Lemma amap_get_in m k v : amap_sorted m -> In (k, v) m -> amap_get k m = Some v.
Proof.
  induction m as [|[k' v'] r IH]; cbn [amap_sorted amap_get In]; intros Hs Hin; [contradiction|].
  destruct Hs as [Hk Hr]. destruct Hin as [E|Hin].
  - inversion E; subst. rewrite Z.eqb_refl. reflexivity.
  - rewrite Forall_forall in Hk. specialize (Hk _ Hin). cbn [fst] in Hk.
    assert (E : (k =? k') = false) by lia. rewrite E. apply IH; assumption.
Qed.

Lemma amap_range_empty b e m : e < b -> amap_range b e m = [].
Proof.
  intros H. unfold amap_range. induction m as [|kv r IH]; cbn [filter map]; [reflexivity|].
  unfold in_rng at 1. assert (E : (b <=? fst kv) && (fst kv <=? e) = false) by lia. rewrite E. exact IH.
Qed.

Lemma amap_range_shift b e m : Forall (fun kv => b < fst kv) m -> amap_range b e m = amap_range (b + 1) e m.
Proof.
  unfold amap_range. induction m as [|kv r IH]; cbn [filter map]; intros H; [reflexivity|].
  inversion H as [|? ? H1 H2]; subst.
  assert (E : in_rng b e (fst kv) = in_rng (b + 1) e (fst kv)) by (unfold in_rng; lia).
  rewrite E. destruct (in_rng (b + 1) e (fst kv)); cbn [map]; rewrite (IH H2); reflexivity.
Qed.

Lemma Forall_lt_trans (k k' : Z) (r : amap) :
  k < k' -> Forall (fun kv => k' < fst kv) r -> Forall (fun kv => k < fst kv) r.
Proof. intros H. apply Forall_impl. intros a Ha. lia. Qed.

(* the numeric loop of the memory store, one number at a time *)
Lemma amap_range_step b e m : amap_sorted m -> b <= e ->
  amap_range b e m = (match amap_get b m with Some v => [v] | None => [] end) ++ amap_range (b + 1) e m.
Proof.
  induction m as [|[k v] r IH]; intros Hs Hbe; [reflexivity|].
  cbn [amap_sorted fst] in Hs. destruct Hs as [Hk Hr].
  cbn [amap_get]. unfold amap_range in *. cbn [filter fst].
  destruct (Z.lt_trichotomy b k) as [Hlt|[Heq|Hgt]].
  - assert (E : (b =? k) = false) by lia. rewrite E.
    rewrite (amap_get_none b r) by (eapply Forall_lt_trans; eassumption).
    cbn [app].
    assert (E2 : in_rng b e k = in_rng (b + 1) e k) by (unfold in_rng; lia). rewrite E2.
    pose proof (amap_range_shift b e r) as Hsh. unfold amap_range in Hsh.
    destruct (in_rng (b + 1) e k); cbn [map]; rewrite Hsh; try reflexivity;
      eapply Forall_lt_trans; eassumption.
  - subst k. rewrite Z.eqb_refl.
    assert (E1 : in_rng b e b = true) by (unfold in_rng; lia).
    assert (E2 : in_rng (b + 1) e b = false) by (unfold in_rng; lia).
    rewrite E1, E2. cbn [map snd app]. f_equal.
    pose proof (amap_range_shift b e r) as Hsh. unfold amap_range in Hsh. apply Hsh. exact Hk.
  - assert (E : (b =? k) = false) by lia. rewrite E.
    assert (E1 : in_rng b e k = false) by (unfold in_rng; lia).
    assert (E2 : in_rng (b + 1) e k = false) by (unfold in_rng; lia).
    rewrite E1, E2. apply IH; assumption.
Qed.

(* ---- delivery to the callback *)

Lemma st_deliver_none seen l : st_deliver None seen l = mk_sout ST_OK (seen ++ l).
Proof.
  revert seen. induction l as [|m r IH]; intros seen; cbn [st_deliver cb_call].
  - rewrite app_nil_r. reflexivity.
  - rewrite IH, <- app_assoc. reflexivity.
Qed.

(* "iteration with an aborting callback returns the callback's error after delivering exactly the prefix":
   the callback that fails at its k-th call (0-based) has received the first k+1 messages of the range, no more *)
Lemma st_deliver_some_gen k seen l :
  (length seen <= k)%nat ->
  st_deliver (Some k) seen l =
    if Nat.ltb (k - length seen) (length l) then mk_sout ST_CB (seen ++ firstn (S (k - length seen)) l)
    else mk_sout ST_OK (seen ++ l).
Proof.
  revert seen. induction l as [|m r IH]; intros seen Hle; cbn [st_deliver cb_call length].
  - cbn. rewrite app_nil_r. reflexivity.
  - destruct (Nat.eqb k (length seen)) eqn:E.
    + apply Nat.eqb_eq in E. subst k. rewrite Nat.sub_diag. cbn. reflexivity.
    + apply Nat.eqb_neq in E. rewrite IH by (rewrite app_length; cbn; lia).
      rewrite app_length. cbn [length].
      replace (k - (length seen + 1))%nat with (k - length seen - 1)%nat by lia.
      destruct (k - length seen)%nat as [|d] eqn:Ed; [lia|].
      replace (S d - 1)%nat with d by lia.
      change (Nat.ltb (S d) (S (length r))) with (Nat.ltb d (length r)).
      destruct (Nat.ltb d (length r)); rewrite <- app_assoc; reflexivity.
Qed.

Lemma st_deliver_some k l :
  st_deliver (Some k) [] l =
    if Nat.ltb k (length l) then mk_sout ST_CB (firstn (S k) l) else mk_sout ST_OK l.
Proof.
  rewrite st_deliver_some_gen by (cbn; lia). cbn [length app]. rewrite Nat.sub_0_r. reflexivity.
Qed.

Lemma abs_step_sorted a op :
  amap_sorted (a_msgs a) -> abs_op_ok a op = true -> amap_sorted (a_msgs (fst (abs_step a op))).
Proof.
  intros Hs Hok. destruct op; cbn [abs_step fst a_msgs]; try exact Hs; try exact I.
  - cbn [abs_op_ok] in Hok. unfold save_ok in Hok.
    apply andb_true_iff in Hok. destruct Hok as [Hok _]. apply andb_true_iff in Hok. destruct Hok as [Hk _].
    rewrite amap_put_append by exact Hk. apply amap_sorted_app; [exact Hs | apply keys_lt_spec; exact Hk].
  - cbn [abs_op_ok] in Hok. unfold save_ok in Hok.
    apply andb_true_iff in Hok. destruct Hok as [Hok _].
    apply andb_true_iff in Hok. destruct Hok as [Hok _]. apply andb_true_iff in Hok. destruct Hok as [Hk _].
    rewrite amap_put_append by exact Hk. apply amap_sorted_app; [exact Hs | apply keys_lt_spec; exact Hk].
Qed.
