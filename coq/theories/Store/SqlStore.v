(* store/sql/sql_store.go at statement level: two tables (sessions, messages), both keyed by the eight identity
   columns (abstracted to one session id value; messages additionally by msgseqnum), the statements of
   setSQLStatements, and begin/commit/rollback.  database/sql and sqlite are modelled, not verified:
   a statement either takes effect completely or fails without effect (primary-key violation, injected failure). *)
From Coq Require Import ZArith List Bool.
From QF Require Import Base.Res Base.Bytes Store.AbsStore Store.MemStore.
Import ListNotations.
Open Scope Z_scope.

Record sqldb := mk_sqldb {
  db_sessions : list (Z * (Z * Z * Z));     (* session id -> creation_time, incoming_seqnum, outgoing_seqnum *)
  db_messages : list (Z * (Z * bytes))      (* session id, msgseqnum, message; insertion order *)
}.
Definition sql_empty : sqldb := mk_sqldb [] [].

Fixpoint sq_find {A} (sid : Z) (t : list (Z * A)) : option A :=
  match t with
  | [] => None
  | (k, v) :: r => if k =? sid then Some v else sq_find sid r
  end.

Definition sq_has_msg (sid seq : Z) (t : list (Z * (Z * bytes))) : bool :=
  existsb (fun row => (fst row =? sid) && (fst (snd row) =? seq)) t.

(* INSERT INTO messages (msgseqnum, message, <id>) VALUES (...) : fails on a duplicate primary key *)
Definition sql_insert_message (sid seq : Z) (bs : bytes) (db : sqldb) : res sqldb :=
  if sq_has_msg sid seq (db_messages db) then Err 1
  else Ok (mk_sqldb (db_sessions db) (db_messages db ++ [(sid, (seq, bs))])).

(* INSERT INTO sessions (creation_time, incoming_seqnum, outgoing_seqnum, <id>) VALUES (...) *)
Definition sql_insert_session (sid ct inc outg : Z) (db : sqldb) : res sqldb :=
  match sq_find sid (db_sessions db) with
  | Some _ => Err 1
  | None => Ok (mk_sqldb (db_sessions db ++ [(sid, (ct, inc, outg))]) (db_messages db))
  end.

Definition sq_update_row (sid : Z) (g : Z * Z * Z -> Z * Z * Z) (t : list (Z * (Z * Z * Z))) :=
  map (fun row => if fst row =? sid then (fst row, g (snd row)) else row) t.

(* UPDATE sessions SET outgoing_seqnum=? WHERE <id> *)
Definition sql_update_sender_seq_num (sid n : Z) (db : sqldb) : sqldb :=
  mk_sqldb (sq_update_row sid (fun '(ct, inc, _) => (ct, inc, n)) (db_sessions db)) (db_messages db).
(* UPDATE sessions SET incoming_seqnum=? WHERE <id> *)
Definition sql_update_target_seq_num (sid n : Z) (db : sqldb) : sqldb :=
  mk_sqldb (sq_update_row sid (fun '(ct, _, outg) => (ct, n, outg)) (db_sessions db)) (db_messages db).
(* UPDATE sessions SET creation_time=?, incoming_seqnum=?, outgoing_seqnum=? WHERE <id> *)
Definition sql_update_session (sid ct inc outg : Z) (db : sqldb) : sqldb :=
  mk_sqldb (sq_update_row sid (fun _ => (ct, inc, outg)) (db_sessions db)) (db_messages db).
(* DELETE FROM messages WHERE <id> *)
Definition sql_delete_messages (sid : Z) (db : sqldb) : sqldb :=
  mk_sqldb (db_sessions db) (filter (fun row => negb (fst row =? sid)) (db_messages db)).
(* SELECT creation_time, incoming_seqnum, outgoing_seqnum FROM sessions WHERE <id> *)
Definition sql_get_seq_nums (sid : Z) (db : sqldb) : option (Z * Z * Z) := sq_find sid (db_sessions db).

(* ORDER BY msgseqnum *)
Fixpoint sq_insert (x : Z * bytes) (l : amap) : amap :=
  match l with
  | [] => [x]
  | y :: r => if fst x <=? fst y then x :: l else y :: sq_insert x r
  end.
Fixpoint sq_sort (l : amap) : amap :=
  match l with
  | [] => []
  | x :: r => sq_insert x (sq_sort r)
  end.

Definition sq_rows_of (sid : Z) (t : list (Z * (Z * bytes))) : amap :=
  map snd (filter (fun row => fst row =? sid) t).

(* SELECT message FROM messages WHERE <id> AND msgseqnum>=? AND msgseqnum<=? ORDER BY msgseqnum *)
Definition sql_get_messages (sid b e : Z) (db : sqldb) : list bytes :=
  map snd (sq_sort (filter (fun kv => in_rng b e (fst kv)) (sq_rows_of sid (db_messages db)))).

Record sqlstore := mk_sqlstore { sq_sid : Z; sq_cache : memstore }.

(* populateCache: load the session row, or create it from the cache *)
Definition sql_populate_cache (st : sqlstore) (db : sqldb) : res (sqlstore * sqldb) :=
  let c := sq_cache st in
  match sql_get_seq_nums (sq_sid st) db with
  | Some (ct, inc, outg) =>
      Ok (mk_sqlstore (sq_sid st) (mem_set_next_sender (mem_set_next_target (mem_set_creation_time c ct) inc) outg), db)
  | None =>
      let* db' := sql_insert_session (sq_sid st) (mem_creation_time c) (mem_next_target c) (mem_next_sender c) db in
      Ok (st, db')
  end.

(* newSQLStore: cache created, cache.Reset(), populateCache *)
Definition sql_new_store (sid now : Z) (db : sqldb) : res (sqlstore * sqldb) :=
  sql_populate_cache (mk_sqlstore sid (mem_reset now)) db.

(* SaveMessageAndIncrNextSenderMsgSeqNum with an injected failure: fail = 1: the INSERT fails, 2: the UPDATE fails,
   3: Commit fails (the driver rolls back), anything else: no failure.  `defer tx.Rollback()` restores the
   state at Begin on every error path. *)
Definition sql_save_message_and_incr (st : sqlstore) (db : sqldb) (n : Z) (bs : bytes) (fail : Z) : sqlstore * sqldb * sout :=
  let sid := sq_sid st in
  let snapshot := db in                                   (* Begin *)
  let failed := (st, snapshot, mk_sout ST_ERR []) in      (* return err; deferred Rollback *)
  if fail =? 1 then failed else
  match sql_insert_message sid n bs db with
  | Ok db1 =>
      let next := mem_next_sender (sq_cache st) + 1 in
      if fail =? 2 then failed else
      let db2 := sql_update_sender_seq_num sid next db1 in
      if fail =? 3 then failed else                       (* Commit *)
      (mk_sqlstore sid (mem_set_next_sender (sq_cache st) next), db2, sout_ok)
  | _ => failed
  end.

Definition sql_set_next_sender (st : sqlstore) (db : sqldb) (n : Z) : sqlstore * sqldb :=
  (mk_sqlstore (sq_sid st) (mem_set_next_sender (sq_cache st) n), sql_update_sender_seq_num (sq_sid st) n db).
Definition sql_set_next_target (st : sqlstore) (db : sqldb) (n : Z) : sqlstore * sqldb :=
  (mk_sqlstore (sq_sid st) (mem_set_next_target (sq_cache st) n), sql_update_target_seq_num (sq_sid st) n db).

Definition sql_res_out (st : sqlstore) (db : sqldb) (r : res (sqlstore * sqldb)) : sqlstore * sqldb * sout :=
  match r with
  | Ok (st', db') => (st', db', sout_ok)
  | Err _ => (st, db, mk_sout ST_ERR [])
  | Panic => (st, db, mk_sout ST_PANIC [])
  | OutOfFuel => (st, db, mk_sout ST_FUEL [])
  end.

Definition sql_step (st : sqlstore) (db : sqldb) (op : sop) : sqlstore * sqldb * sout :=
  let sid := sq_sid st in
  let c := sq_cache st in
  match op with
  | OSetSender n => let '(st', db') := sql_set_next_sender st db n in (st', db', sout_ok)
  | OSetTarget n => let '(st', db') := sql_set_next_target st db n in (st', db', sout_ok)
  | OIncrSender => let '(st', db') := sql_set_next_sender st db (mem_next_sender c + 1) in (st', db', sout_ok)
  | OIncrTarget => let '(st', db') := sql_set_next_target st db (mem_next_target c + 1) in (st', db', sout_ok)
  | OSave n bs => sql_res_out st db (let* db' := sql_insert_message sid n bs db in Ok (st, db'))
  | OSaveIncr n bs => sql_save_message_and_incr st db n bs 0
  | OGet b e => (st, db, mk_sout ST_OK (sql_get_messages sid b e db))
  | OIterate b e abort => (st, db, st_deliver abort [] (sql_get_messages sid b e db))
  | ORefresh now => sql_res_out st db (sql_populate_cache (mk_sqlstore sid (mem_reset now)) db)
  | OReset now =>
      (* DELETE messages; cache.Reset(); UPDATE sessions SET creation_time, incoming, outgoing *)
      let db1 := sql_delete_messages sid db in
      let c' := mem_reset now in
      (mk_sqlstore sid c', sql_update_session sid (mem_creation_time c') (mem_next_target c') (mem_next_sender c') db1, sout_ok)
  | OReopen now => sql_res_out st db (sql_new_store sid now db)
  end.

Definition sql_obs (st : sqlstore) : sobs := mem_obs (sq_cache st).

Fixpoint sql_run (st : sqlstore) (db : sqldb) (ops : list sop) : sqlstore * sqldb * list (sout * sobs) :=
  match ops with
  | [] => (st, db, [])
  | op :: r =>
      let '(st1, db1, o) := sql_step st db op in
      let '(st2, db2, outs) := sql_run st1 db1 r in
      (st2, db2, (o, sql_obs st1) :: outs)
  end.

Fixpoint sql_run2 (p : sqlstore * sqlstore) (db : sqldb) (ops : list (bool * sop)) : list (sout * sobs) :=
  match ops with
  | [] => []
  | (i, op) :: r =>
      let '(st1, db1, o) := sql_step (pick2 i p) db op in
      (o, sql_obs st1) :: sql_run2 (set2 i p st1) db1 r
  end.

(* abstraction function: what the database says about session sid *)
Definition sql_abs (sid : Z) (db : sqldb) : option astore :=
  match sql_get_seq_nums sid db with
  | Some (ct, inc, outg) => Some (mk_astore outg inc ct (sq_sort (sq_rows_of sid (db_messages db))))
  | None => None
  end.

Definition sql_cache_agrees (st : sqlstore) (a : astore) : Prop :=
  mem_obs (sq_cache st) = abs_obs a /\ m_map (sq_cache st) = [].
