#!/usr/bin/env python3
"""bin/sfail.py <area> <stream> <prop> <cases-file> [sig-substring] [max]: show spec failures (event index context)."""
import sys, subprocess, re
sys.path.insert(0, '/verif/bin')
area, stream, prop, cases = sys.argv[1:5]
want = sys.argv[5] if len(sys.argv) > 5 else ''
mx = int(sys.argv[6]) if len(sys.argv) > 6 else 2
from sxlib import parse, show
res = subprocess.run('/verif/_build/bin/driver_%s %s %s < %s' % (area, stream, prop, cases), shell=True, capture_output=True, text=True).stdout
inputs = {}
for line in open(cases):
    p = line.rstrip('\n').split('\t'); inputs[p[0]] = (p[1], p[2])
n = 0
for line in res.splitlines():
    p = line.split('\t')
    if 'specfail' not in p[1] or want not in p[4]: continue
    n += 1
    if n > mx: break
    inp, obs = inputs[p[0]]
    I, O = parse(inp), parse(obs)
    m = re.search(r'at event (\d+)', p[4]); i = int(m.group(1)) if m else 0
    print('case', p[0], p[4], 'cfg', show(I[0]))
    for j in range(max(0, i - 3), i + 1):
        print('  ev', j, show(I[1][j])[:700]); print('      ->', show(O[j])[:900])
