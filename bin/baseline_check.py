#!/usr/bin/env python3
"""Runs /repo's test suite (hooks OFF) and checks every test in BASELINE.json stable_pass passes."""
import json, subprocess, os, sys
env = dict(os.environ, GOFLAGS='-mod=mod', GOPROXY='off', GOSUMDB='off', GOTOOLCHAIN='local')
b = json.load(open('/root/.vp/BASELINE.json'))
p = subprocess.run(['go', 'test', '-json', '-vet=off', '-count=1', '-timeout', '25m', './...'], cwd='/repo', env=env, stdout=subprocess.PIPE, stderr=subprocess.DEVNULL, text=True)
res = {}
for line in p.stdout.splitlines():
    try:
        e = json.loads(line)
    except Exception:
        continue
    if e.get('Test') and e.get('Action') in ('pass', 'fail', 'skip'):
        res[e['Package'] + '::' + e['Test']] = e['Action']
bad = [t for t in b['stable_pass'] if res.get(t) != 'pass']
print('stable_pass %d, passing now %d' % (len(b['stable_pass']), len(b['stable_pass']) - len(bad)))
for t in bad:
    print('NOT PASSING:', t, res.get(t))
sys.exit(1 if bad else 0)
