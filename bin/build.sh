#!/bin/bash
# Rebuild everything a check needs from /repo's current working tree (incremental).
#   bin/build.sh [coq-target ...]     exit status: 0 ok; 3 = coq target failed (others still built)
# Writes _build/coq.log, _build/harness.log.  Caller holds _build/.lock.
set -u
V=/verif
B=$V/_build
mkdir -p $B/bin $B/ocaml $B/tmp $B/replays
export GOFLAGS=-mod=mod GOPROXY=off GOSUMDB=off GOTOOLCHAIN=local CGO_ENABLED=1
rc=0

# 1. translators: regenerate Gen/*.v from /repo (written only when changed)
if [ -d $V/tools/gen ]; then
  (cd $V/tools/gen && go build -o $B/bin/qfgen . ) >$B/gen.log 2>&1 || { echo "translator build failed" >>$B/gen.log; rc=4; }
  [ -x $B/bin/qfgen ] && ( $B/bin/qfgen -repo /repo -out $V/coq/theories/Gen >>$B/gen.log 2>&1 || { echo "translator failed" >>$B/gen.log; rc=4; } )
fi

# 2. Coq: full .vo build of the requested targets (default: everything)
cd $V/coq
( echo "-Q theories QF"; echo "-arg -w -arg -notation-overridden"; find theories -name '*.v' | LC_ALL=C sort ) > _CoqProject.new
cmp -s _CoqProject.new _CoqProject 2>/dev/null || mv _CoqProject.new _CoqProject
rm -f _CoqProject.new
[ -f Makefile ] && [ Makefile -nt _CoqProject ] || coq_makefile -f _CoqProject -o Makefile >/dev/null
if [ $# -eq 0 ]; then
  timeout 3000 make -j16 >$B/coq.log 2>&1 || rc=3
else
  timeout 3000 make -j16 "$@" >$B/coq.log 2>&1 || rc=3
fi

# 3. extraction + OCaml driver (only when the models changed). The extraction needs the model .vo files.
cd $V/coq
if timeout 3000 make -j16 $(sed -n 's/^From QF Require Import \(.*\)\.$/\1/p' extract.v | tr ' ' '\n' | sed 's#\.#/#g; s#^#theories/#; s#$#.vo#' | tr '\n' ' ') >>$B/coq.log 2>&1; then
  newest=$(find $V/coq/theories -name '*.vo' -newer $B/ocaml/.stamp 2>/dev/null | head -1)
  if [ ! -f $B/ocaml/.stamp ] || [ -n "$newest" ] || [ $V/coq/extract.v -nt $B/ocaml/.stamp ] || [ -n "$(find $V/ocaml -name '*.ml' -newer $B/ocaml/.stamp | head -1)" ] || [ ! -x $B/bin/driver ]; then
    ( cd $B/ocaml && timeout 600 coqc -Q $V/coq/theories QF $V/coq/extract.v >$B/extract.log 2>&1 \
      && cp $V/ocaml/*.ml . \
      && ocamlfind ocamlopt -O3 -w -a -o $B/bin/driver model.mli model.ml sx.ml conv.ml streams.ml $(cd $V/ocaml && ls s_*.ml | LC_ALL=C sort) driver.ml >>$B/extract.log 2>&1 \
      && touch $B/ocaml/.stamp ) || { echo "extraction/driver build failed" >>$B/extract.log; [ $rc -eq 0 ] && rc=5; }
  fi
else
  [ $rc -eq 0 ] && rc=5
fi

# 4. Go harness against /repo's working tree, hooks on
cd $V/harness
cp /repo/go.sum . 2>/dev/null
timeout 900 go build -tags verif -o $B/bin/qfh ./cmd/qfh >$B/harness.log 2>&1 || { [ $rc -eq 0 ] && rc=6; }
exit $rc
