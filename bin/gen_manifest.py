#!/usr/bin/env python3
"""Writes MANIFEST.json from bin/props.py (single source of truth for what is claimed)."""
import json, sys
sys.path.insert(0, '/verif/bin')
from props import PROPS, NOT_APPLICABLE

base_cmd = "for m in $(cat /w/out/gomods.txt); do MF=$(cd /repo/$m && . /w/out/goenv.sh && gomodflag); (cd /repo/$m && go test $MF -json -vet=off -count=1 -timeout 25m ./...); done"
man = {
    "version": 1,
    "setup_cmd": "bin/setup",
    "hooks": {
        "guard": "verif",
        "enable": "go build -tags verif (harness module /verif/harness with replace github.com/quickfixgo/quickfix => /repo)",
        "baseline_off_cmd": base_cmd,
        "source_commits": [l.split()[0] for l in open('/verif/MANIFEST.hooks') if l.strip() and not l.startswith('#')],
        "add_only": True,
    },
    "engines": [
        {"name": "coq-models", "path": "coq/theories", "serves_properties": sorted(PROPS), "kind_free_text": "Coq 8.16.1 executable Gallina models + theorems (Props/*.v), full .vo build"},
        {"name": "correspondence", "path": "harness + ocaml", "serves_properties": sorted(PROPS), "kind_free_text": "differential run of extracted model (OCaml, ExtrOcamlBasic) against the implementation built from /repo with -tags verif; spec predicates evaluated on the implementation"},
        {"name": "translators", "path": "tools/gen", "serves_properties": sorted(PROPS), "kind_free_text": "Go programs regenerating Gen/*.v (tables, dictionaries, lock shapes) from /repo on every run"},
    ],
    "checks": [],
    "notes": "All checks: bin/check <id> <tier>. Known findings in KNOWN_FINDINGS.txt; design in DESIGN.md.",
    "not_applicable": NOT_APPLICABLE,
}
for pid in sorted(PROPS):
    c = PROPS[pid]
    man["checks"].append({
        "property_id": pid,
        "quick_cmd": "bin/check %s quick" % pid,
        "thorough_cmd": "bin/check %s thorough" % pid,
        "evidence_file": "/verif/evidence/%s.json" % pid,
        "replay_cmd_template": "bin/check %s quick --replay {path}" % pid,
        "engine": "coq-models",
        "level_claimed": {"category": c.get('level', 'proof'), "text": c['level_text'], "design_ref": c.get('design_ref', 'DESIGN.md section 5 / ' + pid)},
        "level_note": c['level_note'],
        "technique": c.get('technique', 'machine-checked proof in Coq 8.16.1 over an executable Gallina model, tied to the code by differential correspondence (extracted model vs implementation) and generated tables'),
    })
json.dump(man, open('/verif/MANIFEST.json', 'w'), indent=1)
print('MANIFEST.json written:', len(man['checks']), 'checks')
