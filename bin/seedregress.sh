#!/bin/bash
# bin/seedregress.sh [name-pattern]: re-runs every seeded change (seeded/*/patch.diff) against the current checks:
# applies it to /repo, runs the quick check of the property it targets, reverts /repo. Output: one line per change.
# NEVER run while another check is in progress (it changes /repo's working tree).
set -u
cd /verif
if ! git -C /repo diff --quiet; then echo "/repo is dirty, refusing"; exit 3; fi
pat=${1:-.}
for d in seeded/*/; do
  n=$(basename $d)
  echo "$n" | grep -qE "$pat" || continue
  [ -f $d/patch.diff ] && [ -f $d/meta.json ] || continue
  p=$(python3 -c "import json;print(json.load(open('$d/meta.json'))['breaks'])")
  if ! git -C /repo apply --3way /verif/$d/patch.diff >/dev/null 2>&1; then
    git -C /repo checkout -- . ; git -C /repo reset -q
    echo "$n $p PATCH-DOES-NOT-APPLY"; continue
  fi
  git -C /repo reset -q
  out=$(bin/check $p quick 2>&1); rc=$?
  line=$(echo "$out" | grep -m1 VIOLATION)
  git -C /repo checkout -- . ; git -C /repo clean -fdq -- . >/dev/null 2>&1
  if [ $rc -ne 0 ]; then
    if echo "$line" | grep -q no-failing-input-found; then echo "$n $p caught(no-failing-input)"; else echo "$n $p caught"; fi
  else echo "$n $p MISSED"; fi
done
git -C /repo status --short | grep -v '^??'
