#!/usr/bin/env python3
"""bin/sdiff.py <area> <stream> <prop> [cases-file]  : for each mismatching case, show the first differing element of the
top-level observation list (impl vs model) and the corresponding input event."""
import sys, subprocess, re
area, stream, prop = sys.argv[1:4]
cases = sys.argv[4] if len(sys.argv) > 4 and sys.argv[4] else '/verif/_build/tmp/%s_%s_gen.cases' % (prop, stream)
def parse(s):
    pos = 0
    def item():
        nonlocal pos
        while pos < len(s) and s[pos] == ' ': pos += 1
        if s[pos] == '(':
            pos += 1; l = []
            while True:
                while s[pos] == ' ': pos += 1
                if s[pos] == ')': pos += 1; return l
                l.append(item())
        st = pos
        while pos < len(s) and s[pos] not in ' ()': pos += 1
        return s[st:pos]
    return item()
def show(x):
    if isinstance(x, list): return '(' + ' '.join(show(e) for e in x) + ')'
    if x.startswith('x') and len(x) > 1:
        try:
            b = bytes.fromhex(x[1:]); 
            if all(32 <= c < 127 for c in b): return '"' + b.decode() + '"'
        except Exception: pass
    return x
res = subprocess.run('/verif/_build/bin/driver_%s %s %s < %s' % (area, stream, prop, cases), shell=True, capture_output=True, text=True).stdout
inputs = {}
for line in open(cases):
    p = line.rstrip('\n').split('\t')
    inputs[p[0]] = (p[1], p[2])
n = 0
for line in res.splitlines():
    p = line.split('\t')
    if 'mismatch' not in p[1] and 'error' not in p[1]: continue
    n += 1
    if n > int(sys.argv[5] if len(sys.argv) > 5 else 3): break
    inp, obs = inputs[p[0]]
    if p[1] == 'error': print('case', p[0], 'ERROR', p[4]); continue
    model = p[4].split('model=', 1)[1]
    model = re.sub(r' spec=.*$', '', model)
    I, O, M = parse(inp), parse(obs), parse(model)
    print('case', p[0], 'cfg', show(I[0]))
    if not isinstance(O, list) or not isinstance(M, list): print('  impl', O if isinstance(O,str) else '...', 'model', M if isinstance(M,str) else '...'); continue
    for i, (a, b) in enumerate(zip(O, M)):
        if a != b:
            for j in range(max(0, i - 2), i): print('  ev', j, show(I[1][j]), '\n     ->', show(O[j]))
            print('  EVENT', i, show(I[1][i])); print('   impl :', show(a)); print('   model:', show(b)); break
