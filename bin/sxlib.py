def parse(s):
    pos = 0
    def item():
        nonlocal pos
        while pos < len(s) and s[pos] == ' ': pos += 1
        if s[pos] == '(':
            pos += 1; l = []
            while True:
                while s[pos] == ' ': pos += 1
                if s[pos] == ')': pos += 1; return l
                l.append(item())
        st = pos
        while pos < len(s) and s[pos] not in ' ()': pos += 1
        return s[st:pos]
    return item()
def show(x):
    if isinstance(x, list): return '(' + ' '.join(show(e) for e in x) + ')'
    if x.startswith('x') and len(x) > 1:
        try:
            b = bytes.fromhex(x[1:]); 
            if all(32 <= c < 127 for c in b): return '"' + b.decode() + '"'
        except Exception: pass
    return x
