# Per-property configuration of bin/check: which correspondence streams serve the property and how many cases.
GLUE = 'OCaml driver glue (ocaml/*.ml: s-expression I/O, int/string <-> Z/list Z conversion) and extraction with ExtrOcamlBasic only'
HARNESS = 'Go correspondence harness /verif/harness (built -tags verif against /repo working tree) reports what the implementation did'

PROPS = {
    'C14': dict(
        streams=[('types', {'quick': 400, 'thorough': 20000})],
        rule='exhaustive strings up to length 3 (quick) / 5 (thorough) over each type alphabet plus near-miss characters, boundary values, random longer strings; '
             'non-trivial = non-empty input; distinct by input bytes',
        trusted=[GLUE, HARNESS],
        level_text='Coq theorems over the executable model of fix_int.go etc. (accept <=> grammar, totality, round-trips) for all byte strings; '
                   'model tied to the code by differential runs on exhaustive short strings + random; partial for float/decimal values',
        level_note='trusted: Coq kernel, extraction (ExtrOcamlBasic), OCaml glue, Go harness; Go library fragments (time.Parse, ParseFloat syntax) modelled not verified',
        assumptions=['float values (ParseFloat rounding / FormatFloat shortest) and decimal-library arithmetic are validated by the correspondence only'],
    ),
}

NOT_APPLICABLE = []
