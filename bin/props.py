# Per-property configuration of bin/check, assembled from bin/props.d/<Cxx>.json (one file per property):
#   streams: [[stream, {"quick": n, "thorough": n}], ...], rule, level_text, level_note, assumptions, trusted, technique, timeout
import json, glob, os
_V = os.environ.get('VERIF_ROOT', '/verif')
GLUE = 'OCaml driver glue (ocaml/*.ml: s-expression I/O, int/string <-> Z/list Z conversion) and extraction with ExtrOcamlBasic only (no Extract Constant of our own)'
HARNESS = 'Go correspondence harness /verif/harness (built -tags verif against /repo working tree) reports what the implementation did; its generators bound what the tie can see'
PROPS = {}
for f in sorted(glob.glob(_V + '/bin/props.d/C*.json')):
    c = json.load(open(f))
    c['streams'] = [(s, n) for s, n in c['streams']]
    c['trusted'] = [GLUE, HARNESS] + c.get('trusted', [])
    PROPS[os.path.basename(f)[:-5]] = c
NOT_APPLICABLE = []
_all = [json.loads(l)['id'] for l in open(_V + '/properties.jsonl')]
for pid in _all:
    if pid not in PROPS:
        NOT_APPLICABLE.append({'property_id': pid, 'reason': 'check not built yet (work in progress, see DESIGN.md section 5 for the planned theorem); not a claim that the technique cannot apply'})
