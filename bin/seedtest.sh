#!/bin/bash
# bin/seedtest.sh <mutdir> <name> <Cxx> [more property ids ...]
# Confirms a seeded change (demo fails with it, passes without, existing suite passes with it), then applies it to /repo,
# runs the quick checks of the given properties, reverts /repo, and stores the result under /verif/seeded/<name>/.
set -u
D=$1; NAME=$2; shift 2; PROPS="$*"
export GOFLAGS=-mod=mod GOPROXY=off GOSUMDB=off GOTOOLCHAIN=local
OUT=/verif/seeded/$NAME; mkdir -p $OUT
cd $D || exit 2
git add -A -N . >/dev/null 2>&1
git diff -- . ':!zz_*' ':!*/zz_*' ':!MUTATION.md' ':!patch.diff' > $OUT/patch.diff
demo=$(git status --short | awk '{print $2}' | grep -E 'zz_.*_test\.go$' | head -1)
[ -n "$demo" ] && cp $demo $OUT/
cp MUTATION.md $OUT/ 2>/dev/null
pkg=./$(dirname ${demo:-x}); [ "$pkg" = "./." ] && pkg=.
# 1. demo fails with the change
go test -count=1 -run 'ZZ|Zz|zz|Demo' $pkg >$OUT/demo_with.log 2>&1; with=$?
# 2. demo passes without
git apply -R $OUT/patch.diff && { go test -count=1 -run 'ZZ|Zz|zz|Demo' $pkg >$OUT/demo_without.log 2>&1; without=$?; git apply $OUT/patch.diff; }
# 3. existing suite passes with the change (demo skipped)
go build ./... >$OUT/suite_with.log 2>&1 && go test -count=1 -skip 'ZZ|Zz|Demo' . ./internal/... ./datadictionary/... ./store/... >>$OUT/suite_with.log 2>&1; suite=$?
echo "demo_with_change_exit=$with demo_without_change_exit=${without:-NA} suite_with_change_exit=$suite"
# 4. run our checks against it
cd /verif
if ! git -C /repo diff --quiet; then echo "/repo is dirty, refusing"; exit 3; fi
git -C /repo apply $OUT/patch.diff || { echo "patch does not apply to /repo"; exit 4; }
res=""
for p in $PROPS; do
  bin/check $p quick > $OUT/check_$p.log 2>&1; rc=$?
  line=$(grep -m1 VIOLATION $OUT/check_$p.log)
  rp=$(echo "$line" | sed -n 's/.*replay=\([^ ]*\).*/\1/p')
  [ -n "$rp" ] && [ -f "$rp" ] && cp $rp $OUT/replay_$p.txt
  echo "  check $p: exit=$rc ${line:-no violation}"
  res="$res{\"property\":\"$p\",\"exit\":$rc,\"line\":\"$(echo $line | sed 's/"/\\"/g')\"},"
done
git -C /repo checkout -- . ; git -C /repo status --short | grep -v '^??' 
python3 - "$OUT" "$NAME" "$with" "${without:-1}" "$suite" "[${res%,}]" "$PROPS" <<'PY'
import sys, json, os
out, name, w, wo, suite, res, props = sys.argv[1:8]
meta = {"name": name, "breaks": props.split()[0], "checked_properties": props.split(),
        "demo_fails_with_change": int(w) != 0, "demo_passes_without_change": int(wo) == 0, "existing_suite_passes_with_change": int(suite) == 0,
        "check_results": json.loads(res),
        "ran": ["go test -run ZZ (with / without the change) in a scratch worktree", "go build ./... && go test -skip ZZ . ./internal/... ./datadictionary/... ./store/... (with the change)",
                "git -C /repo apply patch.diff; bin/check <id> quick; git -C /repo checkout -- ."],
        "needs": open(out + '/MUTATION.md').read()[:1500] if os.path.exists(out + '/MUTATION.md') else ""}
json.dump(meta, open(out + '/meta.json', 'w'), indent=1)
PY
