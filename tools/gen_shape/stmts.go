package main

import (
	"go/ast"
	"go/token"
	"reflect"
	"strings"
)

func isIdent(e ast.Expr, name string) bool {
	id, ok := e.(*ast.Ident)
	return ok && id.Name == name
}

func containsTracked(g *G, n ast.Node, c *fctx) bool {
	var cs []*ast.CallExpr
	ast.Inspect(n, func(x ast.Node) bool {
		if ce, ok := x.(*ast.CallExpr); ok {
			cs = append(cs, ce)
		}
		return true
	})
	saved := g.notes
	defer func() { g.notes = saved }()
	for _, ce := range cs {
		if k, _, _, _, _ := g.classify(ce, c, "seqNum"); k != kIgnore {
			return true
		}
	}
	found := false
	ast.Inspect(n, func(x ast.Node) bool {
		if as, ok := x.(*ast.AssignStmt); ok {
			for _, l := range as.Lhs {
				if strings.HasSuffix(g.text(l), ".toSend") {
					found = true
				}
			}
		}
		if _, ok := x.(*ast.SendStmt); ok && strings.Contains(g.text(x), "messageOut") {
			found = true
		}
		return true
	})
	return found
}

func (g *G) stmts(list []ast.Stmt, c *fctx, p ps, k kont) []Node {
	if len(list) == 0 {
		return k(p)
	}
	rest := func(p ps) []Node { return g.stmts(list[1:], c, p, k) }
	switch s := list[0].(type) {
	case *ast.DeferStmt:
		kind, coq, _, _, _ := g.classify(s.Call, c, "")
		if kind == kPrim && strings.HasPrefix(coq, "SRel ") {
			d := append(append([]Node{}, p.defers...), atom(coq))
			return rest(ps{defers: d, errSrc: p.errSrc})
		}
		if kind != kIgnore || containsTracked(g, s.Call, c) {
			g.fatal(s, "deferred call on the send path is not a lock release")
		}
		return rest(p)
	case *ast.ExprStmt:
		return g.calls([]ast.Node{s.X}, c, p, "", func(p ps, _ string) []Node { return rest(p) })
	case *ast.AssignStmt:
		return g.assign(s, c, p, rest)
	case *ast.ReturnStmt:
		nodes := make([]ast.Node, len(s.Results))
		for i, r := range s.Results {
			nodes[i] = r
		}
		return g.calls(nodes, c, p, "", func(p ps, last string) []Node {
			res := "nil"
			switch {
			case len(s.Results) == 0:
				if c.namedErr {
					res = p.errSrc
				}
			default:
				for _, r := range s.Results {
					if isIdent(r, "err") {
						res = p.errSrc
					} else if _, ok := r.(*ast.CallExpr); ok {
						res = last
					} else if be, ok := r.(*ast.BinaryExpr); ok {
						if _, ok := be.X.(*ast.CallExpr); ok {
							res = last
						}
					} else if _, ok := r.(*ast.CompositeLit); ok {
						res = "other" // a freshly built error value (RejectLogon{..}, targetTooHigh{..})
					}
				}
			}
			return cat(revDefers(p.defers), c.ret(res))
		})
	case *ast.BlockStmt:
		return g.stmts(s.List, c, p, rest)
	case *ast.IfStmt:
		return g.ifStmt(s, c, p, rest)
	case *ast.DeclStmt, *ast.IncDecStmt, *ast.EmptyStmt:
		return rest(p)
	default:
		if containsTracked(g, s, c) {
			g.fatal(s, "statement kind %s containing send-path operations is not translated", reflect.TypeOf(s))
		}
		return rest(p)
	}
}

func (g *G) assign(s *ast.AssignStmt, c *fctx, p ps, rest kont) []Node {
	// toSend mutations
	if len(s.Lhs) == 1 && strings.HasSuffix(g.text(s.Lhs[0]), ".toSend") {
		r := strings.ReplaceAll(g.text(s.Rhs[0]), " ", "")
		if call, ok := s.Rhs[0].(*ast.CallExpr); ok && isIdent(call.Fun, "append") && len(call.Args) == 2 && strings.HasSuffix(g.text(call.Args[0]), ".toSend") {
			return cat([]Node{atom("SAppend")}, rest(p))
		}
		if strings.HasSuffix(r, ".toSend[:0]") {
			return cat([]Node{atom("SDropQ")}, rest(p))
		}
		g.fatal(s, "toSend mutation %s is not modelled outside sendQueued", r)
	}
	// resend counters
	if c.name == "resendMessages" && len(s.Lhs) == 1 && len(s.Rhs) == 1 {
		if id, ok := s.Lhs[0].(*ast.Ident); ok && (id.Name == "seqNum" || id.Name == "nextSeqNum") {
			e := g.exprName(s.Rhs[0], c)
			if e == "" {
				g.fatal(s, "assignment to resend counter %s not understood", id.Name)
			}
			v := "VSeq"
			if id.Name == "nextSeqNum" {
				v = "VNext"
			}
			return cat([]Node{atom("SAssign " + v + " " + e)}, rest(p))
		}
	}
	assignTo := ""
	if len(s.Lhs) >= 1 {
		if id, ok := s.Lhs[0].(*ast.Ident); ok {
			assignTo = id.Name
		}
	}
	setsErr := false
	for _, l := range s.Lhs {
		if isIdent(l, "err") {
			setsErr = true
		}
	}
	nodes := make([]ast.Node, len(s.Rhs))
	for i, r := range s.Rhs {
		nodes[i] = r
	}
	return g.calls(nodes, c, p, assignTo, func(p ps, last string) []Node {
		if setsErr {
			src := "nil"
			if len(s.Rhs) == 1 {
				if _, ok := s.Rhs[0].(*ast.CallExpr); ok {
					src = last
				}
			}
			p = ps{defers: p.defers, errSrc: src}
		}
		return rest(p)
	})
}

// condition -> (Coq text, static value: 0 unknown, 1 true, -1 false)
func (g *G) cond(e ast.Expr, c *fctx, p ps, last string) (string, int) {
	if pe, ok := e.(*ast.ParenExpr); ok {
		return g.cond(pe.X, c, p, last)
	}
	if ue, ok := e.(*ast.UnaryExpr); ok && ue.Op == token.NOT {
		t, st := g.cond(ue.X, c, p, last)
		if strings.HasPrefix(t, "CNot (") {
			return strings.TrimSuffix(strings.TrimPrefix(t, "CNot ("), ")"), -st
		}
		if t == "COther" {
			return t, 0
		}
		return "CNot (" + t + ")", -st
	}
	t := strings.ReplaceAll(g.text(e), " ", "")
	switch {
	case strings.HasSuffix(t, ".IsLoggedOn()"):
		return "CLoggedOn", 0
	case t == "err!=nil" || t == "err==nil":
		neg := t == "err==nil"
		if p.errSrc == "rej!" {
			if neg {
				return "COther", -1
			}
			return "COther", 1
		}
		if p.errSrc == "rej" {
			if neg {
				return "CNot (CRej)", 0
			}
			return "CRej", 0
		}
		g.notes = append(g.notes, c.name+": `"+t+"` after a "+p.errSrc+" call: assumed nil")
		if neg {
			return "COther", 1
		}
		return "COther", -1
	case t == "isAdminMessageType(msgType)":
		return "CAdmin", 0
	case t == "bytes.Equal(msgType,msgTypeLogon)":
		return "CLogon", 0
	case t == "resetSeqNumFlag.Bool()":
		return "CResetFlag", 0
	case strings.HasSuffix(t, ".DisableMessagePersist"):
		return "CNoPersist", 0
	case strings.HasSuffix(t, ".resend(msg)") && last == "rej":
		return "CNot (CRej)", 0
	}
	if be, ok := e.(*ast.BinaryExpr); ok && c.name == "resendMessages" {
		a, b := g.exprName(be.X, c), g.exprName(be.Y, c)
		if a != "" && b != "" {
			switch be.Op {
			case token.NEQ:
				return "CNeq " + a + " " + b, 0
			case token.EQL:
				return "CNot (CNeq " + a + " " + b + ")", 0
			case token.GTR:
				return "CGt " + a + " " + b, 0
			case token.LSS:
				return "CGt " + b + " " + a, 0
			case token.LEQ:
				return "CNot (CGt " + a + " " + b + ")", 0
			case token.GEQ:
				return "CNot (CGt " + b + " " + a + ")", 0
			}
		}
	}
	return "COther", 0
}

func (g *G) ifStmt(s *ast.IfStmt, c *fctx, p ps, rest kont) []Node {
	afterInit := func(p ps) []Node {
		return g.calls([]ast.Node{s.Cond}, c, p, "", func(p ps, last string) []Node {
			ct, static := g.cond(s.Cond, c, p, last)
			thenN := func() []Node { return g.stmts(s.Body.List, c, p, rest) }
			elseN := func() []Node {
				if s.Else == nil {
					return rest(p)
				}
				return g.stmts([]ast.Stmt{s.Else}, c, p, rest)
			}
			switch static {
			case 1:
				return thenN()
			case -1:
				return elseN()
			}
			var t, e []Node
			if ct == "CRej" || ct == "CNot (CRej)" {
				// on the branch where the callback's error is known, later tests of the same `err` are decided
				known, other := "rej!", "nil"
				pt, pe := p, p
				if ct == "CRej" {
					pt.errSrc, pe.errSrc = known, other
				} else {
					pt.errSrc, pe.errSrc = other, known
				}
				if p.errSrc != "rej" { // the tested value was a call result, not `err`
					pt, pe = p, p
				}
				t = g.stmts(s.Body.List, c, pt, rest)
				if s.Else == nil {
					e = rest(pe)
				} else {
					e = g.stmts([]ast.Stmt{s.Else}, c, pe, rest)
				}
			} else {
				t, e = thenN(), elseN()
			}
			if reflect.DeepEqual(t, e) || (len(t) == 0 && len(e) == 0) {
				return t
			}
			return []Node{{Kind: 1, S: ct, Then: t, Else: e}}
		})
	}
	if s.Init != nil {
		return g.stmts([]ast.Stmt{s.Init}, c, p, afterInit)
	}
	return afterInit(p)
}

// ---- output

func printList(ns []Node, ind int) string {
	pad := strings.Repeat("  ", ind)
	if len(ns) == 0 {
		return pad + "[]"
	}
	var parts []string
	for _, n := range ns {
		switch n.Kind {
		case 0:
			parts = append(parts, pad+" "+n.S)
		case 1:
			parts = append(parts, pad+" SIf ("+n.S+")\n"+printList(n.Then, ind+2)+"\n"+printList(n.Else, ind+2))
		case 2:
			parts = append(parts, pad+" SIter\n"+printList(n.Then, ind+2))
		}
	}
	return pad + "[\n" + strings.Join(parts, ";\n") + "\n" + pad + "]"
}

// leaf functions: the printed body, one trimmed non-empty line per element
func (g *G) leaf(fd *ast.FuncDecl) []string {
	var out []string
	for _, l := range strings.Split(g.text(fd.Body), "\n") {
		l = strings.TrimSpace(l)
		if l != "" {
			out = append(out, l)
		}
	}
	return out
}
