package main

// Translation rules (continuation-passing, path-insensitive except for the source of `err`):
//   * statements are visited in source order; calls inside one statement in evaluation order (arguments first);
//   * calls to the tracked functions are inlined (no recursion on the send path); `return` continues with the caller;
//   * `defer X.Unlock()` is appended, in reverse registration order, to every exit of the function that registered it;
//   * `if`: both branches are translated up to the end of the entry function; an `if` whose two translations are
//     equal is dropped; `err != nil` is interpreted by the call that last assigned `err` on the path:
//     application ToApp -> CRej, anything else (store, field access, parsing) -> assumed nil (branch not taken; noted);
//   * everything that is not a lock operation, store call, application callback, toSend mutation, tracked call
//     or tracked resend counter is skipped.

import (
	"bytes"
	"fmt"
	"go/ast"
	"go/printer"
	"os"
	"reflect"
	"strings"
)

type Node struct {
	S          string // Coq text of an atom, or of the condition
	Kind       int    // 0 atom, 1 if, 2 iter
	Then, Else []Node
}

type ps struct {
	defers []Node
	errSrc string
}

type fctx struct {
	fd       *ast.FuncDecl
	name     string
	ret      func(res string) []Node
	gapArgs  [2]string
	namedErr bool
}

type kont func(p ps) []Node

func (g *G) fatal(n ast.Node, format string, a ...interface{}) {
	fmt.Fprintf(os.Stderr, "gen_shape: %s: %s\n", g.fset.Position(n.Pos()), fmt.Sprintf(format, a...))
	os.Exit(1)
}

func (g *G) text(n ast.Node) string {
	var b bytes.Buffer
	printer.Fprint(&b, g.fset, n)
	return b.String()
}

func atom(s string) Node { return Node{S: s} }

func cat(a []Node, b []Node) []Node {
	r := make([]Node, 0, len(a)+len(b))
	r = append(r, a...)
	return append(r, b...)
}

func revDefers(d []Node) []Node {
	r := make([]Node, 0, len(d))
	for i := len(d) - 1; i >= 0; i-- {
		r = append(r, d[i])
	}
	return r
}

func (g *G) entry(fd *ast.FuncDecl) []Node {
	return g.inlineBody(fd, [2]string{"EBegin", "EEnd1"}, func(string) []Node { return nil })
}

func hasNamedErr(fd *ast.FuncDecl) bool {
	if fd.Type.Results == nil {
		return false
	}
	for _, f := range fd.Type.Results.List {
		for _, n := range f.Names {
			if n.Name == "err" {
				return true
			}
		}
	}
	return false
}

func (g *G) inlineBody(fd *ast.FuncDecl, gap [2]string, ret func(string) []Node) []Node {
	g.depth++
	if g.depth > 12 {
		g.fatal(fd, "inlining too deep (recursion on the send path?)")
	}
	defer func() { g.depth-- }()
	c := &fctx{fd: fd, name: fd.Name.Name, ret: ret, gapArgs: gap, namedErr: hasNamedErr(fd)}
	return g.stmts(fd.Body.List, c, ps{errSrc: "nil"}, func(p ps) []Node {
		res := "nil"
		if c.namedErr {
			res = p.errSrc
		}
		return cat(revDefers(p.defers), c.ret(res))
	})
}

// ---- calls

const (
	kIgnore = iota
	kPrim
	kInline
	kIter
)

var inlineNames = map[string]bool{"prepMessageForSend": true, "persist": true, "queueForSend": true, "sendInReplyTo": true,
	"send": true, "dropAndSend": true, "dropAndSendInReplyTo": true, "dropAndReset": true, "EnqueueBytesAndSend": true,
	"resend": true, "generateSequenceReset": true, "sendLogonInReplyTo": true, "sendLogon": true, "resendMessages": true,
	"fillDefaultHeader": true, "SendAppMessages": true, "sendLogout": true, "sendLogoutInReplyTo": true}

func (g *G) exprName(e ast.Expr, c *fctx) string {
	t := strings.ReplaceAll(g.text(e), " ", "")
	switch t {
	case "beginSeqNo":
		return "EBegin"
	case "endSeqNo":
		return "EEnd"
	case "endSeqNo+1":
		return "EEnd1"
	case "seqNum":
		return "EVSeq"
	case "nextSeqNum":
		return "EVNext"
	case "sentMessageSeqNum":
		return "ESent"
	case "sentMessageSeqNum+1":
		return "ESent1"
	}
	return ""
}

func (g *G) classify(call *ast.CallExpr, c *fctx, assignTo string) (kind int, coq string, src string, fd *ast.FuncDecl, gap [2]string) {
	sel, ok := call.Fun.(*ast.SelectorExpr)
	if !ok {
		return kIgnore, "", "other", nil, gap
	}
	full := strings.ReplaceAll(g.text(call.Fun), " ", "")
	name := sel.Sel.Name
	has := func(suffix string) bool { return strings.HasSuffix(full, suffix) }
	switch {
	case has(".sendMutex.Lock"):
		return kPrim, "SAcq MSend", "other", nil, gap
	case has(".sendMutex.Unlock"):
		return kPrim, "SRel MSend", "other", nil, gap
	case has(".resendMutex.RLock"):
		return kPrim, "SAcq MResR", "other", nil, gap
	case has(".resendMutex.RUnlock"):
		return kPrim, "SRel MResR", "other", nil, gap
	case has(".resendMutex.Lock"):
		return kPrim, "SAcq MResW", "other", nil, gap
	case has(".resendMutex.Unlock"):
		return kPrim, "SRel MResW", "other", nil, gap
	case has(".store.NextSenderMsgSeqNum"):
		if assignTo == "seqNum" {
			return kPrim, "SReadSnd", "other", nil, gap
		}
		g.notes = append(g.notes, fmt.Sprintf("%s: store.NextSenderMsgSeqNum() read into %q (not the number of a message being sent): skipped", c.name, assignTo))
		return kIgnore, "", "other", nil, gap
	case has(".store.SaveMessageAndIncrNextSenderMsgSeqNum"):
		return kPrim, "SSaveIncr", "store", nil, gap
	case has(".store.IncrNextSenderMsgSeqNum"):
		return kPrim, "SIncrOnly", "store", nil, gap
	case has(".store.Reset"):
		return kPrim, "SStoreReset", "store", nil, gap
	case has(".store.IterateMessages"):
		return kIter, "", "store", nil, gap
	case has(".store.SetNextSenderMsgSeqNum") || has(".store.SaveMessage"):
		g.fatal(call, "store call %s on the send path is not modelled", full)
	case has(".application.ToAdmin"):
		return kPrim, "SCallApp AToAdmin", "other", nil, gap
	case has(".application.ToApp"):
		return kPrim, "SCallApp AToApp", "rej", nil, gap
	case name == "build" && len(call.Args) == 0:
		if c.name == "generateSequenceReset" {
			return kPrim, fmt.Sprintf("SGapBuild %s %s", c.gapArgs[0], c.gapArgs[1]), "other", nil, gap
		}
		return kPrim, "SBuild", "other", nil, gap
	case name == "buildWithBodyBytes":
		return kPrim, "SReplayBuild", "other", nil, gap
	case name == "sendQueued":
		if len(call.Args) == 1 {
			switch g.text(call.Args[0]) {
			case "true":
				return kPrim, "SFlush true", "other", nil, gap
			case "false":
				return kPrim, "SFlush false", "other", nil, gap
			}
		}
		g.fatal(call, "sendQueued with a non-literal argument")
	case name == "dropQueued":
		return kPrim, "SDropQ", "other", nil, gap
	case name == "notifyMessageOut":
		return kPrim, "SNotify", "other", nil, gap
	}
	if inlineNames[name] && g.noInline[name] {
		g.notes = append(g.notes, fmt.Sprintf("%s: call of %s not inlined here (modelled as a separate operation of the session thread)", c.name, name))
		return kIgnore, "", "other", nil, gap
	}
	if inlineNames[name] {
		recv := "session"
		x := g.text(sel.X)
		if x == "state" {
			recv = "inSession"
		}
		if x == "sm" || name == "SendAppMessages" {
			recv = "stateMachine"
		}
		f := g.funcs[fnKey{recv, name}]
		if f == nil {
			f = g.funcs[fnKey{"session", name}]
		}
		if f == nil {
			g.fatal(call, "tracked function %s not found", name)
		}
		if name == "generateSequenceReset" {
			// (session, begin, end, inReplyTo) for inSession's, (begin, end, inReplyTo) for session's
			args := call.Args
			if len(args) == 4 {
				args = args[1:]
			}
			if len(args) >= 2 {
				gap[0], gap[1] = g.exprName(args[0], c), g.exprName(args[1], c)
			}
			if gap[0] == "" || gap[1] == "" {
				// a gap fill whose bounds are not resend counters (handleLogon's tag-789 path)
				gap[0], gap[1] = "EBegin", "EEnd1"
				g.notes = append(g.notes, fmt.Sprintf("%s: generateSequenceReset(%s, %s) bounds not interpreted", c.name, g.text(args[0]), g.text(args[1])))
			}
		}
		return kInline, "", "", f, gap
	}
	return kIgnore, "", "other", nil, gap
}

// calls of an expression in evaluation order (receiver and arguments before the call itself); closures are not entered
func collectCalls(e ast.Node, out *[]*ast.CallExpr) {
	if e == nil || reflect.ValueOf(e).IsNil() {
		return
	}
	switch x := e.(type) {
	case *ast.FuncLit:
		return
	case *ast.CallExpr:
		collectCalls(x.Fun, out)
		for _, a := range x.Args {
			collectCalls(a, out)
		}
		*out = append(*out, x)
		return
	}
	ast.Inspect(e, func(n ast.Node) bool {
		if n == nil || n == e {
			return true
		}
		switch n.(type) {
		case *ast.CallExpr, *ast.FuncLit:
			collectCalls(n, out)
			return false
		}
		return true
	})
}

func (g *G) runCalls(cs []*ast.CallExpr, i int, c *fctx, p ps, last string, assignTo string, k func(p ps, last string) []Node) []Node {
	if i == len(cs) {
		return k(p, last)
	}
	at := ""
	if i == len(cs)-1 {
		at = assignTo
	}
	kind, coq, src, fd, gap := g.classify(cs[i], c, at)
	switch kind {
	case kPrim:
		return cat([]Node{atom(coq)}, g.runCalls(cs, i+1, c, p, src, assignTo, k))
	case kInline:
		return g.inlineBody(fd, gap, func(res string) []Node { return g.runCalls(cs, i+1, c, p, res, assignTo, k) })
	case kIter:
		call := cs[i]
		if len(call.Args) != 3 {
			g.fatal(call, "IterateMessages: 3 arguments expected")
		}
		fl, ok := call.Args[2].(*ast.FuncLit)
		if !ok {
			g.fatal(call, "IterateMessages: callback must be a function literal")
		}
		if g.exprName(call.Args[0], c) != "EBegin" || strings.ReplaceAll(g.text(call.Args[1]), " ", "") != "endSeqNo" {
			g.fatal(call, "IterateMessages: range is not (beginSeqNo, endSeqNo)")
		}
		cc := &fctx{fd: c.fd, name: c.name, ret: func(string) []Node { return nil }, gapArgs: c.gapArgs}
		body := g.stmts(fl.Body.List, cc, ps{errSrc: "nil"}, func(p2 ps) []Node { return cat(revDefers(p2.defers), nil) })
		return cat([]Node{{Kind: 2, Then: body}}, g.runCalls(cs, i+1, c, p, "store", assignTo, k))
	}
	return g.runCalls(cs, i+1, c, p, src, assignTo, k)
}

func (g *G) calls(es []ast.Node, c *fctx, p ps, assignTo string, k func(p ps, last string) []Node) []Node {
	var cs []*ast.CallExpr
	for _, e := range es {
		collectCalls(e, &cs)
	}
	return g.runCalls(cs, 0, c, p, "nil", assignTo, k)
}
