module gen_shape

go 1.23
