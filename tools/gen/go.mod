module qfgen

go 1.23
