// qfgen: translators from /repo's working tree to Coq terms (DESIGN 2.3 (T)).
//
//	qfgen -repo /repo -out /verif/coq/theories/Gen
//
// Every generator is a function in its own file, listed in `generators`.  A generator writes its
// output files through writeIfChanged so that an unchanged input leaves the file (and make's
// timestamps) alone.  Standard library only.
package main

import (
	"bytes"
	"flag"
	"fmt"
	"os"
	"path/filepath"
)

type generator struct {
	name string
	run  func(repo, out string) error
}

// registry: add further translators (gen_tables, gen_shape, ...) here, one file each
var generators = []generator{
	{"gen_dicts", genDicts},
}

// writeIfChanged writes content to path unless the file already has exactly that content.
func writeIfChanged(path string, content []byte) error {
	old, err := os.ReadFile(path)
	if err == nil && bytes.Equal(old, content) {
		return nil
	}
	if err := os.MkdirAll(filepath.Dir(path), 0o755); err != nil {
		return err
	}
	tmp := path + ".tmp"
	if err := os.WriteFile(tmp, content, 0o644); err != nil {
		return err
	}
	fmt.Fprintln(os.Stderr, "qfgen: updated", path)
	return os.Rename(tmp, path)
}

func main() {
	repo := flag.String("repo", "/repo", "path of the quickfix working tree")
	out := flag.String("out", "/verif/coq/theories/Gen", "output directory (Coq logical path QF.Gen)")
	only := flag.String("only", "", "run only the named generator")
	flag.Parse()
	rc := 0
	for _, g := range generators {
		if *only != "" && *only != g.name {
			continue
		}
		if err := g.run(*repo, *out); err != nil {
			fmt.Fprintf(os.Stderr, "qfgen: %s: %v\n", g.name, err)
			rc = 1
		}
	}
	os.Exit(rc)
}
