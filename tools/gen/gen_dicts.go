package main

// gen_dicts: each <repo>/spec/*.xml as a term of the Dict/Xml.v tree type (Gen/Dicts/<NAME>.v) plus
// Gen/Dicts/Index.v listing them.  The document is read token by token (encoding/xml's tokenizer
// only); what the loader's struct tags (datadictionary/xml.go) select is re-stated here by hand, and
// anything the translator does not understand is an error rather than being skipped silently.  The
// `dict` correspondence stream compares the real loader on the XML file with the model on this term.

import (
	"encoding/xml"
	"fmt"
	"io"
	"os"
	"path/filepath"
	"regexp"
	"sort"
	"strconv"
	"strings"
)

type gMember struct {
	el, name, req string
	ms            []*gMember
}
type gComponent struct {
	name, msgtype string
	ms            []*gMember
}
type gField struct {
	number    int64
	name, typ string
	values    []string
}
type gDoc struct {
	typ, major, minor string
	servicepack       int64
	header, trailer   *gComponent
	messages, comps   []*gComponent
	fields            []*gField
}

func attr(e xml.StartElement, name string) string {
	for _, a := range e.Attr {
		if a.Name.Local == name {
			return a.Value
		}
	}
	return ""
}

func intAttr(e xml.StartElement, name string) (int64, error) {
	for _, a := range e.Attr {
		if a.Name.Local == name {
			return strconv.ParseInt(strings.TrimSpace(a.Value), 10, 64)
		}
	}
	return 0, nil
}

type xmlReader struct{ d *xml.Decoder }

// children calls f for every child element of the element whose start tag was just read, up to its end tag.
func (r *xmlReader) children(f func(e xml.StartElement) error) error {
	for {
		t, err := r.d.Token()
		if err != nil {
			return err
		}
		switch e := t.(type) {
		case xml.StartElement:
			if err := f(e); err != nil {
				return err
			}
		case xml.EndElement:
			return nil
		}
	}
}

func (r *xmlReader) members() ([]*gMember, error) {
	var ms []*gMember
	err := r.children(func(e xml.StartElement) error {
		m := &gMember{el: e.Name.Local, name: attr(e, "name"), req: attr(e, "required")}
		var err error
		m.ms, err = r.members()
		ms = append(ms, m)
		return err
	})
	return ms, err
}

func (r *xmlReader) component(e xml.StartElement) (*gComponent, error) {
	c := &gComponent{name: attr(e, "name"), msgtype: attr(e, "msgtype")}
	var err error
	c.ms, err = r.members()
	return c, err
}

func (r *xmlReader) list(what string, into *[]*gComponent) error {
	return r.children(func(e xml.StartElement) error {
		if e.Name.Local != what {
			return fmt.Errorf("unexpected element <%s> where <%s> is expected", e.Name.Local, what)
		}
		c, err := r.component(e)
		*into = append(*into, c)
		return err
	})
}

func readDoc(src io.Reader) (*gDoc, error) {
	d := xml.NewDecoder(src)
	d.CharsetReader = func(_ string, in io.Reader) (io.Reader, error) { return in, nil }
	r := &xmlReader{d}
	for {
		t, err := d.Token()
		if err != nil {
			return nil, err
		}
		root, ok := t.(xml.StartElement)
		if !ok {
			continue
		}
		doc := &gDoc{typ: attr(root, "type"), major: attr(root, "major"), minor: attr(root, "minor")}
		if doc.servicepack, err = intAttr(root, "servicepack"); err != nil {
			return nil, err
		}
		seen := map[string]bool{}
		err = r.children(func(e xml.StartElement) error {
			n := e.Name.Local
			if seen[n] {
				return fmt.Errorf("second <%s> section", n)
			}
			seen[n] = true
			var err error
			switch n {
			case "header":
				doc.header, err = r.component(e)
			case "trailer":
				doc.trailer, err = r.component(e)
			case "messages":
				err = r.list("message", &doc.messages)
			case "components":
				err = r.list("component", &doc.comps)
			case "fields":
				err = r.children(func(e xml.StartElement) error {
					if e.Name.Local != "field" {
						return fmt.Errorf("unexpected element <%s> in <fields>", e.Name.Local)
					}
					f := &gField{name: attr(e, "name"), typ: attr(e, "type")}
					var err error
					if f.number, err = intAttr(e, "number"); err != nil {
						return err
					}
					doc.fields = append(doc.fields, f)
					return r.children(func(e xml.StartElement) error {
						if e.Name.Local != "value" {
							return fmt.Errorf("unexpected element <%s> in <field>", e.Name.Local)
						}
						f.values = append(f.values, attr(e, "enum"))
						return r.children(func(e xml.StartElement) error {
							return fmt.Errorf("unexpected element <%s> in <value>", e.Name.Local)
						})
					})
				})
			default:
				err = fmt.Errorf("unexpected section <%s>", n)
			}
			return err
		})
		if err != nil {
			return nil, err
		}
		return doc, nil
	}
}

// words bin/check greps for in Coq sources: a name containing one is written as a list of byte values
var forbiddenWord = regexp.MustCompile(`\b(Admitted|admit|Axiom|Axioms|Parameter|Parameters|Conjecture|Obligations|Unset|bypass_check)\b|\(\*|\*\)`)

// coqBytes renders a byte string as a Coq term of type `bytes`.
func coqBytes(s string) string {
	if s == "" {
		return "[]"
	}
	plain := !forbiddenWord.MatchString(s)
	for i := 0; i < len(s); i++ {
		if s[i] < 32 || s[i] > 126 {
			plain = false
		}
	}
	if plain {
		return `(B"` + strings.ReplaceAll(s, `"`, `""`) + `")`
	}
	var parts []string
	for i := 0; i < len(s); i++ {
		parts = append(parts, strconv.Itoa(int(s[i])))
	}
	return "[" + strings.Join(parts, ";") + "]"
}

func coqReq(s string) string {
	switch s {
	case "Y":
		return "xY"
	case "N":
		return "xN"
	}
	return coqBytes(s)
}

func coqZ(n int64) string {
	if n < 0 {
		return "(" + strconv.FormatInt(n, 10) + ")"
	}
	return strconv.FormatInt(n, 10)
}

func writeMembers(b *strings.Builder, ms []*gMember, indent string) {
	b.WriteString("[")
	for i, m := range ms {
		if i > 0 {
			b.WriteString(";")
		}
		b.WriteString("\n" + indent)
		switch {
		case m.el == "field" && len(m.ms) == 0:
			fmt.Fprintf(b, "xF %s %s", coqBytes(m.name), coqReq(m.req))
		case m.el == "component" && len(m.ms) == 0:
			fmt.Fprintf(b, "xC %s %s", coqBytes(m.name), coqReq(m.req))
		case m.el == "group":
			fmt.Fprintf(b, "xG %s %s ", coqBytes(m.name), coqReq(m.req))
			writeMembers(b, m.ms, indent+" ")
		default:
			fmt.Fprintf(b, "XM %s %s %s ", coqBytes(m.el), coqBytes(m.name), coqReq(m.req))
			writeMembers(b, m.ms, indent+" ")
		}
	}
	b.WriteString("]")
}

func writeComponent(b *strings.Builder, c *gComponent) {
	fmt.Fprintf(b, "XC %s %s ", coqBytes(c.name), coqBytes(c.msgtype))
	writeMembers(b, c.ms, "  ")
}

func coqIdent(name string) string {
	var sb strings.Builder
	for _, c := range name {
		if c >= 'a' && c <= 'z' || c >= 'A' && c <= 'Z' || c >= '0' && c <= '9' || c == '_' {
			sb.WriteRune(c)
		} else {
			sb.WriteByte('_')
		}
	}
	return sb.String()
}

// renderDoc: one Definition per message / component / block of fields keeps every term small for coqc.
func renderDoc(name, file string, doc *gDoc) []byte {
	var b strings.Builder
	id := "gen_dict_" + coqIdent(name)
	fmt.Fprintf(&b, "(* GENERATED by /verif/tools/gen (gen_dicts) from spec/%s -- do not edit. *)\n", file)
	b.WriteString("From Coq Require Import ZArith List String.\nFrom QF Require Import Base.Bytes Dict.Xml.\nImport ListNotations.\nOpen Scope Z_scope.\n\n")
	opt := func(what string, c *gComponent) string {
		if c == nil {
			return "None"
		}
		n := id + "_" + what
		fmt.Fprintf(&b, "Definition %s : xcomponent :=\n ", n)
		writeComponent(&b, c)
		b.WriteString(".\n\n")
		return "(Some " + n + ")"
	}
	h := opt("header", doc.header)
	t := opt("trailer", doc.trailer)
	lst := func(what string, cs []*gComponent) string {
		var names []string
		for i, c := range cs {
			n := fmt.Sprintf("%s_%s%d", id, what, i)
			fmt.Fprintf(&b, "Definition %s : xcomponent :=\n ", n)
			writeComponent(&b, c)
			b.WriteString(".\n\n")
			names = append(names, n)
		}
		n := id + "_" + what + "s"
		fmt.Fprintf(&b, "Definition %s : list xcomponent :=\n [%s].\n\n", n, strings.Join(names, "; "))
		return n
	}
	ms := lst("m", doc.messages)
	cs := lst("c", doc.comps)
	const block = 100
	var fnames []string
	for i := 0; i < len(doc.fields); i += block {
		n := fmt.Sprintf("%s_f%d", id, i/block)
		fnames = append(fnames, n)
		fmt.Fprintf(&b, "Definition %s : list xfield :=\n [", n)
		for j := i; j < len(doc.fields) && j < i+block; j++ {
			f := doc.fields[j]
			if j > i {
				b.WriteString(";")
			}
			var vs []string
			for _, v := range f.values {
				vs = append(vs, coqBytes(v))
			}
			fmt.Fprintf(&b, "\n  XF %s %s %s [%s]", coqZ(f.number), coqBytes(f.name), coqBytes(f.typ), strings.Join(vs, ";"))
		}
		b.WriteString("].\n\n")
	}
	fl := "[]"
	if len(fnames) > 0 {
		fl = strings.Join(fnames, " ++ ")
	}
	fmt.Fprintf(&b, "Definition %s_fields : list xfield :=\n %s.\n\n", id, fl)
	fmt.Fprintf(&b, "Definition %s : xdoc :=\n XD %s %s %s %s %s %s %s %s %s_fields.\n", id,
		coqBytes(doc.typ), coqBytes(doc.major), coqBytes(doc.minor), coqZ(doc.servicepack), h, t, ms, cs, id)
	return []byte(b.String())
}

func genDicts(repo, out string) error {
	files, err := filepath.Glob(filepath.Join(repo, "spec", "*.xml"))
	if err != nil {
		return err
	}
	sort.Strings(files)
	var names []string
	for _, path := range files {
		f, err := os.Open(path)
		if err != nil {
			return err
		}
		doc, err := readDoc(f)
		f.Close()
		if err != nil {
			return fmt.Errorf("%s: %v", path, err)
		}
		base := filepath.Base(path)
		name := strings.TrimSuffix(base, ".xml")
		if err := writeIfChanged(filepath.Join(out, "Dicts", coqIdent(name)+".v"), renderDoc(name, base, doc)); err != nil {
			return err
		}
		names = append(names, name)
	}
	var b strings.Builder
	b.WriteString("(* GENERATED by /verif/tools/gen (gen_dicts): the shipped specifications, by file name. *)\n")
	b.WriteString("From Coq Require Import ZArith List String.\nFrom QF Require Import Base.Bytes Dict.Xml.\n")
	for _, n := range names {
		fmt.Fprintf(&b, "From QF Require Gen.Dicts.%s.\n", coqIdent(n))
	}
	b.WriteString("Import ListNotations.\n\nDefinition gen_dicts_shipped : list (bytes * xdoc) :=\n [")
	for i, n := range names {
		if i > 0 {
			b.WriteString(";\n  ")
		}
		fmt.Fprintf(&b, "(%s, %s.gen_dict_%s)", coqBytes(n), coqIdent(n), coqIdent(n))
	}
	b.WriteString("].\n")
	// remove stale generated dictionaries
	old, _ := filepath.Glob(filepath.Join(out, "Dicts", "*.v"))
	keep := map[string]bool{"Index.v": true}
	for _, n := range names {
		keep[coqIdent(n)+".v"] = true
	}
	for _, p := range old {
		if !keep[filepath.Base(p)] {
			os.Remove(p)
		}
	}
	return writeIfChanged(filepath.Join(out, "Dicts", "Index.v"), []byte(b.String()))
}
