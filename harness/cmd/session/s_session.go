package main

// Stream `session` (C01, C03, C04, C06, C07, C08, C20, C09): differential traces of the session state machine.
// One case = (cfg, event list). The observation is one record per event: callbacks in order, wire messages
// (projected), channel closure, both counters, state shape, queue length, stopped flag, heartbeat interval.

import (
	"os"
	"bytes"
	"fmt"
	"math"
	"sort"
	"strconv"
	"strings"
	"time"

	"github.com/quickfixgo/quickfix"

	. "qfverif/hx"
)

func main() { Main() }

func init() {
	Register("session", &Stream{Gen: genSession, Run: runSession})
}

const (
	tagVerdictApp   = 9001
	tagVerdictValid = 9002
	tagRefuse       = 9003
)

var beginStrings = []string{"FIX.4.0", "FIX.4.1", "FIX.4.2", "FIX.4.3", "FIX.4.4", "FIXT.1.1"}

// ---- application / store / validator owned by the harness ----

type hApp struct {
	now      time.Time
	log      []Sx
	store    quickfix.MessageStore
	toAppOK  bool
	refuse   map[int]bool
}

func fresInt(fm *quickfix.FieldMap, tag quickfix.Tag) Sx {
	if !fm.Has(tag) {
		return Sym("abs")
	}
	v, err := fm.GetInt(tag)
	if err != nil {
		return Sym("bad")
	}
	return L(Sym("val"), Int(v))
}

func verdictOf(m *quickfix.Message, tag quickfix.Tag) quickfix.MessageRejectError {
	s, err := m.Body.GetString(tag)
	if err != nil || s == "" || s == "A" {
		return nil
	}
	if s == "L" {
		return quickfix.RejectLogon{Text: "no"}
	}
	p := strings.Split(s, ",")
	reason, _ := strconv.Atoi(p[1])
	var ref *quickfix.Tag
	if p[2] != "-" {
		t, _ := strconv.Atoi(p[2])
		tt := quickfix.Tag(t)
		ref = &tt
	}
	if p[3] == "B" {
		return quickfix.NewBusinessMessageRejectError("harness", reason, ref)
	}
	return quickfix.NewMessageRejectError("harness", reason, ref)
}

// what the application can see of the header of the message it is handed
func (a *hApp) facts(m *quickfix.Message) Sx {
	begin, _ := m.Header.GetBytes(8)
	opt := func(tag quickfix.Tag) Sx {
		if !m.Header.Has(tag) {
			return None()
		}
		v, _ := m.Header.GetBytes(tag)
		return Some(Bytes(v))
	}
	var st Sx
	if !m.Header.Has(52) {
		st = Sym("abs")
	} else if t, err := m.Header.GetTime(52); err != nil {
		st = Sym("bad")
	} else {
		d := int(math.Round(t.Sub(a.now).Seconds()))
		if d >= -1 && d <= 1 {
			d = 0 // second-precision timestamps (before FIX.4.2) and scheduling jitter
		}
		st = L(Sym("val"), Int(d))
	}
	code, _ := m.Body.GetString(tagVerdictValid)
	var id Sx = None()
	if m.Body.Has(11) {
		v, _ := m.Body.GetBytes(11)
		id = Some(Bytes(v))
	}
	return L(Bytes(begin), opt(49), opt(56), st, verdictSx(code), id)
}

func (a *hApp) OnCreate(quickfix.SessionID) {}
func (a *hApp) OnLogon(quickfix.SessionID)  { a.log = append(a.log, Sym("onlogon")) }
func (a *hApp) OnLogout(quickfix.SessionID) { a.log = append(a.log, Sym("onlogout")) }
func (a *hApp) ToAdmin(m *quickfix.Message, _ quickfix.SessionID) {
	t, _ := m.Header.GetBytes(35)
	a.log = append(a.log, L(Sym("toadmin"), Bytes(t)))
}
func (a *hApp) ToApp(m *quickfix.Message, _ quickfix.SessionID) error {
	seq, _ := m.Header.GetInt(34)
	pd := m.Header.Has(43)
	a.log = append(a.log, L(Sym("toapp"), Int(seq), Bool(pd)))
	if pd {
		if a.refuse[seq] {
			return quickfix.ErrDoNotSend
		}
		return nil
	}
	if !a.toAppOK {
		return quickfix.ErrDoNotSend
	}
	return nil
}
func (a *hApp) FromAdmin(m *quickfix.Message, _ quickfix.SessionID) quickfix.MessageRejectError {
	t, _ := m.Header.GetBytes(35)
	a.log = append(a.log, L(Sym("fromadmin"), Bytes(t), fresInt(&m.Header.FieldMap, 34), a.facts(m)))
	if string(t) == "2" {
		a.refuse = map[int]bool{}
		if s, err := m.Body.GetString(tagRefuse); err == nil && s != "" {
			for _, p := range strings.Split(s, ",") {
				n, _ := strconv.Atoi(p)
				a.refuse[n] = true
			}
		}
	}
	return verdictOf(m, tagVerdictApp)
}
func (a *hApp) FromApp(m *quickfix.Message, _ quickfix.SessionID) quickfix.MessageRejectError {
	code, _ := m.Body.GetString(tagVerdictApp)
	a.log = append(a.log, L(Sym("fromapp"), fresInt(&m.Header.FieldMap, 34), Int(a.store.NextTargetMsgSeqNum()), verdictSx(code), a.facts(m)))
	return verdictOf(m, tagVerdictApp)
}

type hValidator struct{}

func (hValidator) Validate(m *quickfix.Message) quickfix.MessageRejectError { return verdictOf(m, tagVerdictValid) }

type hStore struct {
	quickfix.MessageStore
	app *hApp
}

func (s *hStore) Reset() error {
	s.app.log = append(s.app.log, Sym("reset"))
	return s.MessageStore.Reset()
}

// ---- decoding of the input ----

type cfgT struct {
	initiator                                 bool
	begin                                     int
	sender, target                            string
	rLogon, rLogout, rDisc, refresh           bool
	chunk, hb                                 int
	hbOver, skipLat                           bool
	maxLat                                    int
	noPersist, lastSeq                        bool
	inCap                                     int
	applVer                                   string
}

func cfgSx(c cfgT) Sx {
	return L(Bool(c.initiator), Int(c.begin), Str(c.sender), Str(c.target), Bool(c.rLogon), Bool(c.rLogout), Bool(c.rDisc), Bool(c.refresh),
		Int(c.chunk), Int(c.hb), Bool(c.hbOver), Bool(c.skipLat), Int(c.maxLat), Bool(c.noPersist), Bool(c.lastSeq), Int(c.inCap), Str(c.applVer))
}
func sxCfg(x Sx) cfgT {
	l := x.(List)
	return cfgT{AtomBool(l[0]), AtomInt(l[1]), string(AtomBytes(l[2])), string(AtomBytes(l[3])), AtomBool(l[4]), AtomBool(l[5]), AtomBool(l[6]), AtomBool(l[7]),
		AtomInt(l[8]), AtomInt(l[9]), AtomBool(l[10]), AtomBool(l[11]), AtomInt(l[12]), AtomBool(l[13]), AtomBool(l[14]), AtomInt(l[15]), string(AtomBytes(l[16]))}
}

// message description; fields are Sx in the input encoding
type msgT struct {
	typ, begin                       string
	sender, target                   *string
	seq, possdup, stime, otime       Sx // abs | bad | (val v)
	gapfill, newseq, beginseq, endseq Sx
	reset, hbint                     Sx
	testreq, applver                 *string
	route, body                      [][2]string // tag (decimal), value
	app, valid                       string      // verdict encoding
	refuse                           []int
}

func optStr(p *string) Sx {
	if p == nil {
		return None()
	}
	return Some(Str(*p))
}
func sxOptStr(x Sx) *string {
	if a, ok := x.(Atom); ok && a == "none" {
		return nil
	}
	s := string(AtomBytes(x.(List)[1]))
	return &s
}
func pairsSx(p [][2]string) Sx {
	l := List{}
	for _, kv := range p {
		n, _ := strconv.Atoi(kv[0])
		l = append(l, L(Int(n), Str(kv[1])))
	}
	return l
}
func sxPairs(x Sx) [][2]string {
	var r [][2]string
	for _, e := range x.(List) {
		el := e.(List)
		r = append(r, [2]string{strconv.Itoa(AtomInt(el[0])), string(AtomBytes(el[1]))})
	}
	return r
}
func verdictSx(v string) Sx {
	if v == "" || v == "A" {
		return Sym("acc")
	}
	if v == "L" {
		return Sym("rejlogon")
	}
	p := strings.Split(v, ",")
	reason, _ := strconv.Atoi(p[1])
	var tag Sx = None()
	if p[2] != "-" {
		t, _ := strconv.Atoi(p[2])
		tag = Some(Int(t))
	}
	return L(Sym("rej"), Int(reason), tag, Bool(p[3] == "B"))
}
func sxVerdict(x Sx) string {
	if a, ok := x.(Atom); ok {
		if a == "acc" {
			return "A"
		}
		return "L"
	}
	l := x.(List)
	tag := "-"
	if tl, ok := l[2].(List); ok {
		tag = strconv.Itoa(AtomInt(tl[1]))
	}
	b := "S"
	if AtomBool(l[3]) {
		b = "B"
	}
	return fmt.Sprintf("R,%d,%s,%s", AtomInt(l[1]), tag, b)
}
func msgSx(m msgT) Sx {
	ref := List{}
	for _, r := range m.refuse {
		ref = append(ref, Int(r))
	}
	return L(Str(m.typ), Str(m.begin), optStr(m.sender), optStr(m.target), m.seq, m.possdup, m.stime, m.otime, m.gapfill, m.newseq, m.beginseq, m.endseq,
		m.reset, m.hbint, optStr(m.testreq), optStr(m.applver), pairsSx(m.route), pairsSx(m.body), verdictSx(m.app), verdictSx(m.valid), ref)
}
func sxMsg(x Sx) msgT {
	l := x.(List)
	m := msgT{typ: string(AtomBytes(l[0])), begin: string(AtomBytes(l[1])), sender: sxOptStr(l[2]), target: sxOptStr(l[3]),
		seq: l[4], possdup: l[5], stime: l[6], otime: l[7], gapfill: l[8], newseq: l[9], beginseq: l[10], endseq: l[11], reset: l[12], hbint: l[13],
		testreq: sxOptStr(l[14]), applver: sxOptStr(l[15]), route: sxPairs(l[16]), body: sxPairs(l[17]), app: sxVerdict(l[18]), valid: sxVerdict(l[19])}
	for _, r := range l[20].(List) {
		m.refuse = append(m.refuse, AtomInt(r))
	}
	return m
}

func fAbs() Sx          { return Sym("abs") }
func fBad() Sx          { return Sym("bad") }
func fVal(v Sx) Sx      { return L(Sym("val"), v) }
func isVal(x Sx) bool   { _, ok := x.(List); return ok }
func isAbs(x Sx) bool   { a, ok := x.(Atom); return ok && a == "abs" }
func valOf(x Sx) Sx     { return x.(List)[1] }

const tsLayout = "20060102-15:04:05.000"

// build the wire bytes of an inbound message
func (m msgT) bytes(now time.Time) []byte {
	msg := quickfix.NewMessage()
	h := &msg.Header
	h.SetString(8, m.begin)
	h.SetString(35, m.typ)
	if m.sender != nil {
		h.SetString(49, *m.sender)
	}
	if m.target != nil {
		h.SetString(56, *m.target)
	}
	setInt := func(fm *quickfix.FieldMap, tag quickfix.Tag, x Sx) {
		switch {
		case isVal(x):
			fm.SetString(tag, string(valOf(x).(Atom)))
		case !isAbs(x):
			fm.SetString(tag, "1x")
		}
	}
	setBool := func(fm *quickfix.FieldMap, tag quickfix.Tag, x Sx) {
		switch {
		case isVal(x):
			if AtomBool(valOf(x)) {
				fm.SetString(tag, "Y")
			} else {
				fm.SetString(tag, "N")
			}
		case !isAbs(x):
			fm.SetString(tag, "y")
		}
	}
	setInt(&h.FieldMap, 34, m.seq)
	setBool(&h.FieldMap, 43, m.possdup)
	var st time.Time
	switch {
	case isVal(m.stime):
		st = now.Add(time.Duration(AtomInt(valOf(m.stime))) * time.Second)
		h.SetString(52, st.UTC().Format(tsLayout))
	case !isAbs(m.stime):
		st = now
		h.SetString(52, "20240101-25:00:00")
	default:
		st = now
	}
	switch {
	case isVal(m.otime):
		h.SetString(122, st.Add(time.Duration(AtomInt(valOf(m.otime)))*time.Second).UTC().Format(tsLayout))
	case !isAbs(m.otime):
		h.SetString(122, "yesterday")
	}
	for _, kv := range m.route {
		t, _ := strconv.Atoi(kv[0])
		h.SetString(quickfix.Tag(t), kv[1])
	}
	b := &msg.Body
	setBool(&b.FieldMap, 123, m.gapfill)
	setInt(&b.FieldMap, 36, m.newseq)
	setInt(&b.FieldMap, 7, m.beginseq)
	setInt(&b.FieldMap, 16, m.endseq)
	setBool(&b.FieldMap, 141, m.reset)
	setInt(&b.FieldMap, 108, m.hbint)
	if m.testreq != nil {
		b.SetString(112, *m.testreq)
	}
	if m.applver != nil {
		b.SetString(1137, *m.applver)
	}
	for _, kv := range m.body {
		t, _ := strconv.Atoi(kv[0])
		b.SetString(quickfix.Tag(t), kv[1])
	}
	if m.app != "" && m.app != "A" {
		b.SetString(tagVerdictApp, m.app)
	}
	if m.valid != "" && m.valid != "A" {
		b.SetString(tagVerdictValid, m.valid)
	}
	if len(m.refuse) > 0 {
		ss := make([]string, len(m.refuse))
		for i, r := range m.refuse {
			ss[i] = strconv.Itoa(r)
		}
		b.SetString(tagRefuse, strings.Join(ss, ","))
	}
	return []byte(msg.String())
}

// ---- the rig ----

type rig struct {
	c       cfgT
	app     *hApp
	v       *quickfix.VerifSession
	base    quickfix.MessageStore // the store below the logging wrapper (survives a restart)
	lastOut [][]byte              // raw messages written in the last event
	own     *quickfix.Message     // the application's message object, reused for every send
}

func newRig(c cfgT) *rig { return newRigOn(c, nil) }

// newRigFor: RefreshOnLogon means something only on a persistent store, so these configurations run on the file store
// (reopened at every Logon) and the others on the memory store; the model's store is the same for both (C16).
func newRigFor(c cfgT) (*rig, func()) {
	if !c.refresh || c.noPersist {
		return newRig(c), func() {}
	}
	_ = os.MkdirAll("/verif/_build/tmp", 0o755)
	dir, _ := os.MkdirTemp("/verif/_build/tmp", "sess")
	r := newRigOn(c, fileStoreFor(c, dir))
	return r, func() { _ = r.base.Close(); os.RemoveAll(dir) }
}

// newRigOn builds a session on an existing store (an engine recreated on its persistent store) or on a fresh one.
func newRigOn(c cfgT, base quickfix.MessageStore) *rig {
	app := &hApp{refuse: map[int]bool{}, toAppOK: true}
	sid := quickfix.SessionID{BeginString: beginStrings[c.begin], SenderCompID: c.sender, TargetCompID: c.target}
	ms := base
	if ms == nil {
		ms, _ = quickfix.NewMemoryStoreFactory().Create(sid)
	}
	st := &hStore{MessageStore: ms, app: app}
	app.store = st
	vc := quickfix.VerifSessionConfig{Initiator: c.initiator, BeginString: beginStrings[c.begin], SenderCompID: c.sender, TargetCompID: c.target,
		ResetOnLogon: c.rLogon, ResetOnLogout: c.rLogout, ResetOnDisconnect: c.rDisc, RefreshOnLogon: c.refresh, ResendRequestChunkSize: c.chunk,
		HeartBtInt: time.Duration(c.hb) * time.Second, HeartBtIntOverride: c.hbOver, SkipCheckLatency: c.skipLat, MaxLatency: time.Duration(c.maxLat) * time.Second,
		DisableMessagePersist: c.noPersist, EnableLastMsgSeqNumProcessed: c.lastSeq, InChanCapacity: c.inCap, DefaultApplVerID: c.applVer}
	return &rig{c: c, app: app, base: ms, v: quickfix.NewVerifSession(vc, app, st, hValidator{})}
}

var engineTypes = map[string]bool{"0": true, "1": true, "2": true, "3": true, "4": true, "5": true, "A": true, "j": true}

// projection of one outbound wire message
func (r *rig) wireSx(raw []byte) Sx {
	parts := bytes.Split(raw, []byte{1})
	typ := ""
	seq := 0
	idok := true
	type kv struct {
		t int
		v []byte
	}
	var hdr []kv
	body := List{}
	var v52, v122 []byte
	has122 := false
	for _, p := range parts {
		if len(p) == 0 {
			continue
		}
		i := bytes.IndexByte(p, '=')
		if i < 0 {
			idok = false
			continue
		}
		t, err := strconv.Atoi(string(p[:i]))
		if err != nil {
			idok = false
			continue
		}
		v := p[i+1:]
		switch t {
		case 8:
			if string(v) != beginStrings[r.c.begin] {
				idok = false
			}
		case 9, 10:
		case 52:
			v52 = v
		case 35:
			typ = string(v)
		case 34:
			seq, _ = strconv.Atoi(string(v))
		case 49:
			if string(v) != r.c.sender {
				idok = false
			}
		case 56:
			if string(v) != r.c.target {
				idok = false
			}
		case 122:
			v122, has122 = v, true
		default:
			if quickfix.Tag(t).IsHeader() {
				hdr = append(hdr, kv{t, v})
			} else {
				body = append(body, L(Int(t), Bytes(v)))
			}
		}
	}
	if has122 {
		// OrigSendingTime is projected to "T" when it is the original SendingTime: the message's own for a gap fill,
		// the stored original's for a replay (when the store still has it); anything else is shown as it is
		want := v52
		if typ != "4" {
			want = nil
			if ms, err := r.base.GetMessages(seq, seq); err == nil && len(ms) == 1 {
				for _, f := range bytes.Split(ms[0], []byte{1}) {
					if bytes.HasPrefix(f, []byte("52=")) {
						want = f[3:]
					}
				}
			}
		}
		if want == nil || bytes.Equal(want, v122) {
			hdr = append(hdr, kv{122, []byte("T")})
		} else {
			hdr = append(hdr, kv{122, append([]byte("differs-from-original-SendingTime:"), v122...)})
		}
	}
	sort.SliceStable(hdr, func(i, j int) bool { return hdr[i].t < hdr[j].t })
	h := List{}
	for _, e := range hdr {
		h = append(h, L(Int(e.t), Bytes(e.v)))
	}
	if engineTypes[typ] {
		nb := List{}
		for _, e := range body {
			if AtomInt(e.(List)[0]) != 58 {
				nb = append(nb, e)
			}
		}
		body = nb
	}
	return L(Str(typ), Int(seq), Bool(idok), h, body)
}

func (r *rig) apply(ev Sx) Sx {
	l := ev.(List)
	now := time.Now()
	r.app.now = now
	r.app.log = nil
	switch AtomSym(l[0]) {
	case "connect":
		r.v.Connect()
	case "arrive":
		r.v.Arrive(sxMsg(l[1]).bytes(now))
	case "deliver":
		r.v.Deliver()
	case "incoming":
		r.v.Incoming(sxMsg(l[1]).bytes(now))
	case "raw":
		r.v.Incoming(AtomBytes(l[1]))
	case "garbage":
		r.v.Incoming([]byte("8=FIX.4.2\x019=5\x0135=D\x0134=\x01"))
	case "inclosed":
		r.v.InClosed()
	case "timeout":
		r.v.Timeout(AtomInt(l[1]))
	case "send":
		// the application keeps one Message object and re-fills it for every send
		if r.own == nil {
			r.own = quickfix.NewMessage()
		}
		msg := r.own
		msg.Header.Clear()
		msg.Body.Clear()
		msg.Trailer.Clear()
		msg.Header.SetString(35, string(AtomBytes(l[1])))
		for _, kv := range sxPairs(l[2]) {
			t, _ := strconv.Atoi(kv[0])
			msg.Body.SetString(quickfix.Tag(t), kv[1])
		}
		r.app.toAppOK = AtomBool(l[3])
		_ = r.v.Send(msg)
		r.app.toAppOK = true
	case "flush":
		r.v.Flush()
	case "stop":
		r.v.Stop()
	case "resettime":
		r.v.ResetSeqTimeLogon()
	default:
		panic("unknown event " + SxString(ev))
	}
	out, closed := r.v.DrainOut()
	r.lastOut = out
	wire := List{}
	for _, w := range out {
		wire = append(wire, r.wireSx(w))
	}
	snd, tgt := r.v.Counters()
	cbs := List{}
	cbs = append(cbs, r.app.log...)
	return L(cbs, wire, Bool(closed), Int(snd), Int(tgt), Sym(r.v.StateShape()), Int(r.v.ToSendLen()), Bool(r.v.Stopped()), Int(r.v.HeartBtIntSeconds()), Int(r.v.InBuffered()))
}

func runSession(in Sx) Sx {
	l := in.(List)
	c := sxCfg(l[0])
	return Guard(func() Sx {
		r, done := newRigFor(c)
		defer done()
		obs := List{}
		for _, ev := range l[1].(List) {
			obs = append(obs, r.apply(ev))
		}
		return obs
	})
}
