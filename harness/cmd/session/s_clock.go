package main

// Stream `clock` (C20): the session on its REAL run loop with its real timers (session.run, internal.EventTimer), an
// acceptor taking HeartBtInt from the Logon, driven by a scripted peer in real time over several successive connections
// of the same session object.  What the untimed session model cannot exhibit — that the timers are armed, re-armed and
// survive a reconnect — is observed here and judged by a predicate with coarse windows (ocaml/session/s_clock.ml).
//
//	input   (clock KIND H CONNS)      KIND = silent | alive | late ;  H = HeartBtInt in seconds ; CONNS = connections
//	observed ((conn REPLY ((MS TYPE) ...) CLOSEDAT LOGOUTS TRAT ANSWERAT HANGUPAT) ... (timeline (MS WHAT ...) ...))
//	         conn: times in ms since the Logon reply; timeline: everything in order with ms since the case began
//	         (connect | push tTYPE SEQ TESTREQID | out tTYPE | closed | hangup) — input and output of the timed model
//	  silent: the peer says nothing after its Logon
//	  alive : the peer sends a Heartbeat every 0.4 H for 3 H, then hangs up
//	  slowlogon: the session is an INITIATOR; the peer answers its Logon 1.15 H late, then stays alive for 3 H (times since
//	          the initiator's own Logon)
//	  late  : the peer is silent until our TestRequest, answers it 1.1 H later (after the moment our own heartbeat timer
//	          fired while the answer was pending), then stays alive for 3 H, then hangs up

import (
	"bytes"
	"fmt"
	"strconv"
	"sync"
	"sync/atomic"
	"time"

	"github.com/quickfixgo/quickfix"

	. "qfverif/hx"
)

func init() { Register("clock", &Stream{Gen: genClock, Run: runClock}) }

type clockApp struct{ logouts int32 }

func (a *clockApp) OnCreate(quickfix.SessionID)                          {}
func (a *clockApp) OnLogon(quickfix.SessionID)                           {}
func (a *clockApp) OnLogout(quickfix.SessionID)                          { atomic.AddInt32(&a.logouts, 1) }
func (a *clockApp) ToAdmin(*quickfix.Message, quickfix.SessionID)        {}
func (a *clockApp) ToApp(*quickfix.Message, quickfix.SessionID) error    { return nil }
func (a *clockApp) FromAdmin(*quickfix.Message, quickfix.SessionID) quickfix.MessageRejectError {
	return nil
}
func (a *clockApp) FromApp(*quickfix.Message, quickfix.SessionID) quickfix.MessageRejectError {
	return nil
}

func clockFrame(sender, target, typ string, seq int, extra string) []byte {
	body := fmt.Sprintf("35=%s\x0149=%s\x0156=%s\x0134=%d\x0152=%s\x01%s", typ, sender, target, seq,
		time.Now().UTC().Format("20060102-15:04:05.000"), extra)
	s := fmt.Sprintf("8=FIX.4.2\x019=%d\x01%s", len(body), body)
	sum := 0
	for _, c := range []byte(s) {
		sum += int(c)
	}
	return []byte(fmt.Sprintf("%s10=%03d\x01", s, sum%256))
}

func typeOf(raw []byte) string {
	i := bytes.Index(raw, []byte("\x0135="))
	if i < 0 {
		return "?"
	}
	rest := raw[i+4:]
	j := bytes.IndexByte(rest, 1)
	if j < 0 {
		return "?"
	}
	return string(rest[:j])
}

var clockSerial int32

func runClockCase(kind string, hSec, conns int) Sx {
	n := atomic.AddInt32(&clockSerial, 1)
	us, peer := "ACC"+strconv.Itoa(int(n)), "INI"+strconv.Itoa(int(n))
	app := &clockApp{}
	var v *quickfix.VerifClock
	var err error
	if kind == "slowlogon" {
		v, err = quickfix.NewVerifClockInitiator(us, peer, hSec, app)
	} else {
		v, err = quickfix.NewVerifClock(us, peer, app)
	}
	if err != nil {
		return L(Sym("error"), Str(err.Error()))
	}
	defer v.Stop()
	H := time.Duration(hSec) * time.Second
	peerSeq := 1
	origin := time.Now()
	var tlMu sync.Mutex
	timeline := List{} // everything that happened, with its time in ms since the case began: the timed model's input and output
	note := func(at time.Time, what ...Sx) {
		tlMu.Lock()
		timeline = append(timeline, append(List{Int(int(at.Sub(origin) / time.Millisecond))}, what...))
		tlMu.Unlock()
	}
	push := func(typ, extra string) {
		tr := None()
		if extra == "112=TEST\x01" {
			tr = Some(Str("TEST"))
		}
		note(time.Now(), Sym("push"), Sym("t"+typ), Int(peerSeq), tr)
		v.Push(clockFrame(peer, us, typ, peerSeq, extra))
		peerSeq++
	}
	// scheduling jitter probe: a goroutine that sleeps 20 ms at a time and records by how much it overslept at worst. On a
	// heavily loaded machine the timer goroutines are late by as much; the case is then not judged (see s_clock.ml).
	var maxLate int64
	probeStop := make(chan struct{})
	go func() {
		for {
			select {
			case <-probeStop:
				return
			default:
			}
			t := time.Now()
			time.Sleep(20 * time.Millisecond)
			if late := int64(time.Since(t)/time.Millisecond) - 20; late > atomic.LoadInt64(&maxLate) {
				atomic.StoreInt64(&maxLate, late)
			}
		}
	}()
	defer close(probeStop)
	obs := List{}
	for k := 0; k < conns; k++ {
		out, err := v.Connect()
		note(time.Now(), Sym("connect"))
		if err != nil {
			obs = append(obs, L(Sym("conn"), Bool(false), List{}, Int(-1), Int(int(atomic.LoadInt32(&app.logouts))), Int(-1), Int(-1), Int(-1)))
			break
		}
		if kind != "slowlogon" {
			push("A", fmt.Sprintf("98=0\x01108=%d\x01", hSec))
		}
		// wait for the Logon reply (slowlogon: for the initiator's own Logon)
		var t0 time.Time
		reply := false
		deadline := time.After(3 * time.Second)
	waitReply:
		for {
			select {
			case b, ok := <-out:
				if !ok {
					break waitReply
				}
				if typeOf(b) == "A" {
					reply, t0 = true, time.Now()
					note(t0, Sym("out"), Sym("tA"))
					break waitReply
				}
			case <-deadline:
				break waitReply
			}
		}
		if !reply {
			obs = append(obs, L(Sym("conn"), Bool(false), List{}, Int(-1), Int(int(atomic.LoadInt32(&app.logouts))), Int(-1), Int(-1), Int(-1)))
			break
		}
		ms := func(t time.Time) int { return int(t.Sub(t0) / time.Millisecond) }
		events := List{}
		closedAt, trAt, answerAt, hangupAt := -1, -1, -1, -1
		var mu sync.Mutex
		closed := make(chan struct{})
		trSeen := make(chan struct{}, 1)
		go func() { // collector
			for b := range out {
				now := time.Now()
				typ := typeOf(b)
				note(now, Sym("out"), Sym("t"+typ))
				mu.Lock()
				events = append(events, L(Int(ms(now)), Sym("t"+typ)))
				if typ == "1" && trAt < 0 {
					trAt = ms(now)
					select {
					case trSeen <- struct{}{}:
					default:
					}
				}
				mu.Unlock()
			}
			note(time.Now(), Sym("closed"))
			mu.Lock()
			closedAt = ms(time.Now())
			mu.Unlock()
			close(closed)
		}()
		isClosed := func() bool {
			select {
			case <-closed:
				return true
			default:
				return false
			}
		}
		alive := func(d time.Duration) { // a Heartbeat every 0.4 H for d, unless the session closes the connection
			end := time.Now().Add(d)
			for time.Now().Before(end) && !isClosed() {
				push("0", "")
				time.Sleep(H * 4 / 10)
			}
		}
		hangup := func() {
			if !isClosed() {
				note(time.Now(), Sym("hangup"))
				mu.Lock()
				hangupAt = ms(time.Now())
				mu.Unlock()
				v.HangUp()
			}
			select {
			case <-closed:
			case <-time.After(3 * time.Second):
			}
		}
		switch kind {
		case "silent":
			select {
			case <-closed:
			case <-time.After(H*36/10 + time.Second):
			}
			hangup()
		case "alive":
			alive(3 * H)
			hangup()
		case "slowlogon":
			// the peer answers the initiator's Logon 1.15 intervals late (the initiator's heartbeat timer, armed by its own
			// Logon, has fired in the meantime), then stays alive
			time.Sleep(H * 115 / 100)
			if !isClosed() {
				mu.Lock()
				answerAt = ms(time.Now())
				mu.Unlock()
				push("A", fmt.Sprintf("98=0\x01108=%d\x01", hSec))
				time.Sleep(H * 4 / 10)
				alive(3 * H)
			}
			hangup()
		case "late":
			select {
			case <-trSeen:
				time.Sleep(H * 11 / 10)
				if !isClosed() {
					mu.Lock()
					answerAt = ms(time.Now())
					mu.Unlock()
					push("0", "112=TEST\x01")
					time.Sleep(H * 4 / 10)
					alive(3 * H)
				}
			case <-closed:
			case <-time.After(3*H + time.Second):
			}
			hangup()
		}
		mu.Lock()
		obs = append(obs, L(Sym("conn"), Bool(true), append(List{}, events...), Int(closedAt), Int(int(atomic.LoadInt32(&app.logouts))), Int(trAt), Int(answerAt), Int(hangupAt)))
		mu.Unlock()
		if !isClosed() {
			break // the session never released the connection: nothing more can be said
		}
	}
	tlMu.Lock()
	defer tlMu.Unlock()
	return append(obs, append(List{Sym("timeline")}, timeline...), L(Sym("jitter"), Int(int(atomic.LoadInt64(&maxLate)))))
}

func runClock(in Sx) Sx {
	l := in.(List)
	return runClockCase(AtomSym(l[1]), AtomInt(l[2]), AtomInt(l[3]))
}

func genClock(c *Ctx) {
	type cs struct {
		kind     string
		h, conns int
	}
	cases := []cs{{"silent", 1, 3}, {"alive", 1, 2}, {"late", 2, 2}, {"slowlogon", 2, 1}}
	if c.Tier == "thorough" {
		cases = append(cases, cs{"silent", 2, 3}, cs{"alive", 2, 3}, cs{"late", 2, 3}, cs{"late", 3, 2}, cs{"silent", 1, 4}, cs{"slowlogon", 1, 1})
	}
	if c.N < len(cases) {
		cases = cases[:c.N]
	}
	res := make([]Sx, len(cases))
	var wg sync.WaitGroup
	for i, k := range cases {
		wg.Add(1)
		go func(i int, k cs) {
			defer wg.Done()
			res[i] = runClockCase(k.kind, k.h, k.conns)
		}(i, k)
	}
	wg.Wait()
	for i, k := range cases {
		c.Emit(L(Sym("clock"), Sym(k.kind), Int(k.h), Int(k.conns)), res[i])
	}
}
