package main

// Generator for stream `session`: a scripted peer that is mostly protocol-correct, with weighted perturbations.
// Generation is interleaved with execution (the peer looks at the session's counters), but the emitted input
// contains only concrete events, so a case replays from its input alone.

import (
	"math"
	"math/rand"
	"strconv"
	"strings"

	. "qfverif/hx"
)

type gen struct {
	rng *rand.Rand
	r   *rig
	c   cfgT
	evs List
	obs List
	peerSeq int // next number the peer would use for a new message
}

func sp(s string) *string { return &s }

func (g *gen) base(typ string, seq int) msgT {
	m := msgT{typ: typ, begin: beginStrings[g.c.begin], sender: sp(g.c.target), target: sp(g.c.sender),
		seq: fVal(Int(seq)), possdup: fAbs(), stime: fVal(Int(0)), otime: fAbs(), gapfill: fAbs(), newseq: fAbs(), beginseq: fAbs(), endseq: fAbs(),
		reset: fAbs(), hbint: fAbs(), app: "A", valid: "A"}
	if typ == "A" {
		m.hbint = fVal(Int(20 + g.rng.Intn(3)*10))
		if g.c.begin == 5 {
			m.applver = sp("7")
		}
	}
	if typ == "D" || typ == "8" {
		m.body = [][2]string{{"11", "id" + strconv.Itoa(g.rng.Intn(100))}, {"55", "SYM"}}
	}
	return m
}

var pendingCtx *Ctx

func (g *gen) do(ev Sx) {
	g.evs = append(g.evs, ev)
	if pendingCtx != nil {
		pendingCtx.Pending(L(cfgSx(g.c), g.evs))
	}
	g.obs = append(g.obs, g.r.apply(ev))
}

func (g *gen) incoming(m msgT) {
	switch g.rng.Intn(12) {
	case 0:
		g.do(L(Sym("arrive"), msgSx(m)))
	case 1:
		g.do(L(Sym("arrive"), msgSx(m)))
		g.do(L(Sym("deliver")))
	default:
		g.do(L(Sym("incoming"), msgSx(m)))
	}
}

func (g *gen) pick(ws ...int) int {
	t := 0
	for _, w := range ws {
		t += w
	}
	x := g.rng.Intn(t)
	for i, w := range ws {
		if x < w {
			return i
		}
		x -= w
	}
	return 0
}

// header / field defects
func (g *gen) perturb(m *msgT) {
	switch g.pick(3, 3, 3, 2, 2, 2, 2, 2, 2, 2, 2, 2, 3, 3, 2) {
	case 0:
		m.begin = beginStrings[(g.c.begin+1+g.rng.Intn(5))%6]
	case 1:
		m.sender = sp("WRONG")
	case 2:
		m.target = sp("OTHER")
	case 3:
		m.sender = nil
	case 4:
		m.target = nil
	case 5:
		m.sender = sp("")
	case 6:
		m.target = sp("")
	case 7:
		m.stime = fAbs()
	case 8:
		m.stime = fBad()
	case 9:
		m.stime = fVal(Int([]int{-100000, 100000, -(g.c.maxLat + 30), g.c.maxLat + 30}[g.rng.Intn(4)]))
	case 10:
		m.seq = fAbs()
	case 11:
		m.seq = fBad()
	case 12:
		m.app = []string{"R,5,55,S", "R,3,-,B", "R,1,11,S", "R,9,-,S", "R,10,-,S", "R,8,44,B", "L", "R,13,55,S", "R,0,9999,S"}[g.rng.Intn(9)]
	case 13:
		m.valid = []string{"R,1,55,S", "R,2,9001,S", "R,11,-,S", "R,6,38,S", "R,14,49,S"}[g.rng.Intn(5)]
	case 14:
		m.begin = ""
	}
}

func (g *gen) routing(m *msgT) {
	tags := []string{"50", "57", "142", "143", "115", "128", "116", "129", "144", "145"}
	for _, t := range tags {
		if g.rng.Intn(3) == 0 {
			v := "R" + t
			if g.rng.Intn(8) == 0 {
				v = ""
			}
			m.route = append(m.route, [2]string{t, v})
		}
	}
}

func (g *gen) tgt() int { _, t := g.r.v.Counters(); return t }
func (g *gen) snd() int { s, _ := g.r.v.Counters(); return s }

func (g *gen) seqNear() int {
	t := g.tgt()
	switch g.pick(12, 3, 3, 2) {
	case 0:
		return t
	case 1:
		return t - 1 - g.rng.Intn(3)
	case 2:
		return t + 1 + g.rng.Intn(6)
	default:
		return g.peerSeq
	}
}

func (g *gen) possdupify(m *msgT) {
	switch g.pick(6, 2, 1, 1, 1, 1) {
	case 0:
		m.possdup = fVal(Bool(true))
		m.otime = fVal(Int(-g.rng.Intn(50)))
	case 1:
		m.possdup = fVal(Bool(true)) // no OrigSendingTime
	case 2:
		m.possdup = fVal(Bool(true))
		m.otime = fBad()
	case 3:
		m.possdup = fVal(Bool(true))
		m.otime = fVal(Int(30)) // OrigSendingTime after SendingTime
	case 4:
		m.possdup = fBad()
	case 5:
		m.possdup = fVal(Bool(false))
	}
}

func (g *gen) appSend() {
	body := List{L(Int(11), Str("o"+strconv.Itoa(g.rng.Intn(1000)))), L(Int(55), Str("X"))}
	if g.rng.Intn(3) == 0 {
		body = append(body, L(Int(58), Str("free text")))
	}
	t := []string{"D", "8", "F", "AE"}[g.rng.Intn(4)]
	g.do(L(Sym("send"), Str(t), body, Bool(g.rng.Intn(8) != 0)))
	if g.rng.Intn(3) != 0 {
		g.do(L(Sym("flush")))
	}
}

// scripted multi-step scenarios around known-delicate paths; each leaves the session wherever it ends up
func (g *gen) scenario() {
	t := g.tgt()
	dup := func(typ string, seq int) msgT {
		m := g.base(typ, seq)
		m.possdup = fVal(Bool(true))
		m.otime = fVal(Int(-5))
		return m
	}
	gapfill := func(seq, newseq int, pd bool) msgT {
		m := g.base("4", seq)
		m.gapfill = fVal(Bool(true))
		m.newseq = fVal(Int(newseq))
		if pd {
			m.possdup = fVal(Bool(true))
			m.otime = fVal(Int(-5))
		}
		return m
	}
	switch g.rng.Intn(10) {
	case 9: // messages sent, the connection lost, a new Logon (the store is refreshed when so configured), one more message,
		// then a resend request reaching back before the reconnection
		g.appSend()
		g.appSend()
		g.do(L(Sym("flush")))
		g.do(L(Sym("inclosed")))
		g.do(L(Sym("connect")))
		g.incoming(g.base("A", g.tgt()))
		g.appSend()
		g.do(L(Sym("flush")))
		m := g.base("2", g.tgt())
		m.beginseq = fVal(Int(1))
		m.endseq = fVal(Int([]int{0, g.snd(), g.snd() - 1}[g.rng.Intn(3)]))
		g.incoming(m)
	case 0: // gap; a kept gap fill that jumps by >= 2 and a kept message at its NewSeqNo; then the replays
		j := 2 + g.rng.Intn(2)
		g.incoming(g.base("D", t+2+j)) // opens the gap, kept
		g.incoming(gapfill(t+2, t+2+j, g.rng.Intn(2) == 0))
		for q := t; q < t+2; q++ {
			g.incoming(dup("D", q))
		}
		g.incoming(g.base("D", t+3+j))
	case 1: // test request pending, then a stale / future SendingTime at the expected number
		g.do(L(Sym("timeout"), Int(1)))
		m := g.base("D", g.tgt())
		m.stime = fVal(Int([]int{-100000, 100000, -(g.c.maxLat + 30), g.c.maxLat + 30}[g.rng.Intn(4)]))
		g.incoming(m)
	case 2: // test request pending, then a duplicate, then silence
		g.do(L(Sym("timeout"), Int(1)))
		g.incoming(dup("D", g.tgt()-1))
		g.do(L(Sym("timeout"), Int(1)))
		g.do(L(Sym("timeout"), Int(0)))
	case 3: // recovery, test request pending, an early message, then the replays
		g.incoming(g.base("D", t+3))
		g.do(L(Sym("timeout"), Int(1)))
		g.incoming(g.base("8", t+4))
		for q := t; q < t+3; q++ {
			g.incoming(dup("D", q))
		}
	case 4: // our Logout is out, the application sends, the peer asks for a resend
		g.do(L(Sym("stop")))
		g.appSend()
		m := g.base("2", g.tgt())
		m.beginseq = fVal(Int(1))
		m.endseq = fVal(Int(0))
		g.incoming(m)
		g.do(L(Sym("flush")))
	case 5: // chunked recovery with a replay overtaking its predecessor
		g.incoming(g.base("D", t+5))
		g.incoming(dup("D", t+1))
		g.incoming(dup("D", t))
		g.incoming(dup("D", t+2))
		g.incoming(gapfill(t+3, t+5, true))
	case 6: // Reset-mode SequenceReset whose own MsgSeqNum is low and whose NewSeqNo is below the expected number
		m := g.base("4", 1+g.rng.Intn(2))
		m.newseq = fVal(Int(t - 1 - g.rng.Intn(2)))
		if g.rng.Intn(2) == 0 {
			m.gapfill = fVal(Bool(false))
		}
		g.incoming(m)
		g.incoming(g.base("D", g.tgt()))
	case 7: // a too-low duplicate while recovering, twice
		g.incoming(g.base("D", t+3))
		g.incoming(dup("D", t))
		g.incoming(dup("D", t))
		g.incoming(dup("D", t-1))
		g.incoming(dup("D", t+1))
		g.incoming(dup("D", t+2))
	case 8: // a resend request with refusals at the tail, persistence on or off
		g.appSend()
		g.appSend()
		g.do(L(Sym("flush")))
		m := g.base("2", g.tgt())
		s := g.snd()
		m.beginseq = fVal(Int(1))
		m.endseq = fVal(Int([]int{0, s, s - 1, s + 1}[g.rng.Intn(4)]))
		m.refuse = []int{s - 1}
		if g.rng.Intn(2) == 0 {
			m.refuse = append(m.refuse, s-2)
		}
		g.incoming(m)
	}
}

// one peer action while the session is (believed) connected
func (g *gen) peerStep() {
	if g.rng.Intn(9) == 0 && !strings.Contains(g.r.v.StateShape(), "log") {
		g.scenario()
		return
	}
	shape := g.r.v.StateShape()
	inResend := strings.Contains(shape, "resend")
	t := g.tgt()
	if strings.HasPrefix(shape, "(pending") && g.rng.Intn(10) < 5 {
		// a test request is outstanding: whatever arrives next must cancel the pending disconnect
		switch g.pick(4, 3, 3, 2, 2, 4) {
		case 5: // a defective message at the expected number (header checks still apply while pending)
			m := g.base([]string{"D", "0", "8"}[g.rng.Intn(3)], t)
			g.perturb(&m)
			g.incoming(m)
		case 0: // a duplicate below the expected number
			m := g.base("D", t-1-g.rng.Intn(2))
			m.possdup = fVal(Bool(true))
			m.otime = fVal(Int(-5))
			g.incoming(m)
		case 1: // in sequence
			g.incoming(g.base([]string{"D", "0"}[g.rng.Intn(2)], t))
		case 2: // early
			g.incoming(g.base("D", t+1+g.rng.Intn(3)))
		case 3:
			g.do(L(Sym("timeout"), Int(g.rng.Intn(2))))
		case 4:
			m := g.base("4", t)
			m.gapfill = fVal(Bool(true))
			m.possdup = fVal(Bool(true))
			m.otime = fVal(Int(-5))
			m.newseq = fVal(Int(t + 1 + g.rng.Intn(3)))
			g.incoming(m)
		}
		return
	}
	if inResend && g.rng.Intn(10) < 7 {
		// the peer replays: messages at the expected number as PossDup, or gap fills spanning several numbers
		switch g.pick(8, 4, 2, 2, 1) {
		case 0:
			m := g.base("D", t)
			m.possdup = fVal(Bool(true))
			m.otime = fVal(Int(-5))
			g.incoming(m)
		case 1:
			m := g.base("4", t)
			m.possdup = fVal(Bool(true))
			m.otime = fVal(Int(-5))
			m.gapfill = fVal(Bool(true))
			m.newseq = fVal(Int(t + 1 + g.rng.Intn(4)))
			g.incoming(m)
		case 2:
			// a replay that overtakes its predecessor
			m := g.base("D", t+1+g.rng.Intn(2))
			m.possdup = fVal(Bool(true))
			m.otime = fVal(Int(-5))
			g.incoming(m)
		case 3:
			// live traffic beyond the gap
			if g.peerSeq <= t {
				g.peerSeq = t + 1
			}
			g.incoming(g.base([]string{"D", "0", "8"}[g.rng.Intn(3)], g.peerSeq+g.rng.Intn(2)))
			g.peerSeq++
		case 4:
			g.do(L(Sym("timeout"), Int(g.rng.Intn(2))))
		}
		return
	}
	switch g.pick(30, 10, 6, 6, 5, 6, 4, 3, 8, 6, 6, 3, 2, 2, 2, 2, 1) {
	case 0: // in-sequence application message
		m := g.base([]string{"D", "8", "F", "j", "D"}[g.rng.Intn(5)], t)
		if g.rng.Intn(4) == 0 {
			g.routing(&m)
		}
		g.incoming(m)
	case 1: // application message near the expected number
		m := g.base("D", g.seqNear())
		if g.rng.Intn(3) == 0 {
			g.possdupify(&m)
		}
		g.incoming(m)
	case 2: // heartbeat (or a session-level Reject from the peer: administrative, no reaction expected)
		g.incoming(g.base([]string{"0", "0", "0", "3"}[g.rng.Intn(4)], g.seqNear()))
	case 3: // test request
		m := g.base("1", g.seqNear())
		if g.rng.Intn(6) != 0 {
			m.testreq = sp("TR" + strconv.Itoa(g.rng.Intn(100)))
		}
		g.incoming(m)
	case 4: // resend request
		m := g.base("2", g.seqNear())
		s := g.snd()
		b := []int{1, 1, s - 1, s, s + 3, 2, 0, -5, g.rng.Intn(s + 2)}[g.rng.Intn(9)]
		e := []int{0, 999999, s - 1, s, s + 5, b, b - 1, b + 2, g.rng.Intn(s + 2)}[g.rng.Intn(9)]
		if g.rng.Intn(8) == 0 { // the far ends of the integer range: the store must not count its way through them
			b = []int{math.MinInt64, math.MinInt64 + 1 + g.rng.Intn(3), math.MinInt64 + s, -9000000000000000000}[g.rng.Intn(4)]
			if g.rng.Intn(3) == 0 {
				e = []int{math.MaxInt64, math.MaxInt64 - 1, 0}[g.rng.Intn(3)]
			}
		}
		m.beginseq = fVal(Int(b))
		m.endseq = fVal(Int(e))
		switch g.rng.Intn(14) {
		case 0:
			m.beginseq = fAbs()
		case 1:
			m.endseq = fBad()
		}
		for k := 1; k < s; k++ {
			if g.rng.Intn(5) == 0 {
				m.refuse = append(m.refuse, k)
			}
		}
		g.incoming(m)
	case 5: // sequence reset
		m := g.base("4", g.seqNear())
		switch g.rng.Intn(4) {
		case 0:
			m.gapfill = fVal(Bool(true))
		case 1:
			m.gapfill = fVal(Bool(false))
		case 2:
			m.gapfill = fBad()
		}
		switch g.rng.Intn(6) {
		case 0:
			m.newseq = fAbs()
		case 1:
			m.newseq = fBad()
		default:
			m.newseq = fVal(Int(t - 2 + g.rng.Intn(8)))
		}
		if g.rng.Intn(3) == 0 {
			g.possdupify(&m)
		}
		g.incoming(m)
	case 6: // logout
		g.incoming(g.base("5", g.seqNear()))
	case 7: // logon while logged on
		m := g.base("A", g.seqNear())
		if g.rng.Intn(3) == 0 {
			m.reset = fVal(Bool(true))
			m.seq = fVal(Int(1))
		}
		g.incoming(m)
	case 8: // defective message
		m := g.base([]string{"D", "0", "1", "2", "4", "5", "A", "8", "3", "j"}[g.rng.Intn(10)], g.seqNear())
		if m.typ == "2" {
			m.beginseq = fVal(Int(1))
			m.endseq = fVal(Int(0))
		}
		g.perturb(&m)
		if g.rng.Intn(4) == 0 {
			g.perturb(&m)
		}
		if g.rng.Intn(3) == 0 {
			g.routing(&m)
		}
		g.incoming(m)
	case 9:
		g.appSend()
	case 10:
		g.do(L(Sym("timeout"), Int(g.pick(4, 4, 1, 1))))
	case 11:
		g.do(L(Sym("flush")))
	case 12:
		g.do(L(Sym("garbage")))
	case 13:
		g.do(L(Sym("deliver")))
	case 14:
		g.do(L(Sym("stop")))
	case 15:
		g.do(L(Sym("inclosed")))
	case 16:
		g.do(L(Sym("resettime")))
	}
}

func (g *gen) logonExchange() {
	if g.rng.Intn(12) == 0 {
		// a first connection whose handshake never completes
		g.do(L(Sym("connect")))
		g.do(L(Sym("timeout"), Int(2)))
	}
	g.do(L(Sym("connect")))
	t := g.tgt()
	m := g.base("A", t)
	switch g.pick(14, 3, 2, 2, 2, 1, 2) {
	case 6:
		m.reset = fVal(Bool(false)) // ResetSeqNumFlag=N spelled out: not a reset
		if g.rng.Intn(3) == 0 {
			m.seq = fVal(Int(t + 1 + g.rng.Intn(3)))
		}
	case 1:
		m.seq = fVal(Int(t + 1 + g.rng.Intn(5))) // gap detected on the Logon itself
	case 2:
		m.seq = fVal(Int(t - 1))
	case 3:
		m.reset = fVal(Bool(true))
		m.seq = fVal(Int(1))
		switch g.rng.Intn(6) {
		case 0: // the application refuses the Logon that asks for a reset
			m.app = []string{"L", "R,5,55,S", "R,3,-,B"}[g.rng.Intn(3)]
		case 1: // the validator rejects it
			m.valid = []string{"R,1,55,S", "R,6,38,S"}[g.rng.Intn(2)]
		}
	case 4:
		g.perturb(&m)
	case 5:
		m = g.base("D", t) // not a Logon
	}
	if g.rng.Intn(10) == 0 {
		g.appSend()
	}
	g.incoming(m)
	if g.rng.Intn(2) == 0 {
		g.do(L(Sym("flush")))
	}
}

func genOneSession(rng *rand.Rand, steps int) (Sx, Sx) {
	c := cfgT{initiator: rng.Intn(2) == 0, begin: rng.Intn(6), sender: "ISLD", target: "TW",
		rLogon: rng.Intn(5) == 0, rLogout: rng.Intn(5) == 0, rDisc: rng.Intn(5) == 0, refresh: rng.Intn(4) == 0,
		chunk: []int{0, 0, 1, 2, 3, 5}[rng.Intn(6)], hb: 30, hbOver: rng.Intn(3) == 0, skipLat: rng.Intn(4) == 0, maxLat: 120,
		noPersist: rng.Intn(8) == 0, lastSeq: rng.Intn(4) == 0, inCap: 1 + rng.Intn(3)}
	if c.begin == 5 {
		c.applVer = "9"
	}
	r0, done := newRigFor(c)
	defer done()
	g := &gen{rng: rng, r: r0, c: c, peerSeq: 1}
	if rng.Intn(8) == 0 {
		g.appSend() // send while disconnected
	}
	g.logonExchange()
	for i := 0; i < steps; i++ {
		shape := g.r.v.StateShape()
		if shape == "latent" || shape == "notsession" {
			switch g.pick(6, 2, 1, 1) {
			case 0:
				g.logonExchange()
			case 1:
				g.appSend()
			case 2:
				g.do(L(Sym("incoming"), msgSx(g.base("D", g.tgt()))))
			case 3:
				g.do(L(Sym("timeout"), Int(g.rng.Intn(4))))
			}
			continue
		}
		g.peerStep()
	}
	return L(cfgSx(c), g.evs), g.obs
}

func genSession(c *Ctx) {
	pendingCtx = c
	for i := 0; i < c.N; i++ {
		steps := 8 + c.Rng.Intn(30)
		in, obs := genOneSession(c.Rng, steps)
		c.Emit(in, obs)
	}
}
