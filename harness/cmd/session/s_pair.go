package main

// Stream `pair` (C05): two real sessions (initiator A, acceptor B) in one process; the harness plays the network:
// it moves the bytes one side wrote to the other side's Incoming, cuts the connection (losing what is in flight),
// reconnects, and recreates an engine on its store.

import (
	"bytes"
	"errors"
	"strings"
	"math/rand"
	"os"
	"strconv"

	"github.com/quickfixgo/quickfix"
	"github.com/quickfixgo/quickfix/config"
	"github.com/quickfixgo/quickfix/store/file"

	. "qfverif/hx"
)

// a file store in dir for the session of configuration c (FileStoreSync off: durability across a process crash is C17's)
func fileStoreFor(c cfgT, dir string) quickfix.MessageStore {
	s := quickfix.NewSettings()
	g := s.GlobalSettings()
	g.Set(config.DynamicSessions, "Y")
	g.Set(config.FileStorePath, dir)
	g.Set(config.FileStoreSync, "N")
	sid := quickfix.SessionID{BeginString: beginStrings[c.begin], SenderCompID: c.sender, TargetCompID: c.target}
	st, err := file.NewStoreFactory(s).Create(sid)
	if err != nil {
		panic(err)
	}
	return st
}

func init() { Register("pair", &Stream{Gen: genPair, Run: runPair}) }

// One direction of the connection: what a side writes is a byte stream that the engine's stream parser (parser.go, the
// read loop of connection.go) cuts into frames again, reading it in chunks of varying size; the frames wait, exactly as
// the parser returned them, until they are delivered (the read loop hands them to the session's channel the same way).
type wire struct {
	pending []byte
	reads   int
	ps      *quickfix.VerifParser
	q       []*bytes.Buffer
}

var errWouldBlock = errors.New("no more bytes for now")
var readSizes = []int{1, 7, 64, 4096, 13, 300, 2, 1000, 5, 2048}

func (w *wire) Read(b []byte) (int, error) {
	if len(w.pending) == 0 {
		return 0, errWouldBlock
	}
	n := readSizes[w.reads%len(readSizes)]
	w.reads++
	if n > len(w.pending) {
		n = len(w.pending)
	}
	if n > len(b) {
		n = len(b)
	}
	copy(b, w.pending[:n])
	w.pending = w.pending[n:]
	return n, nil
}

func wireOf(msgs [][]byte) *wire {
	w := &wire{}
	w.ps = quickfix.VerifNewParser(w)
	return w.push(msgs)
}

func (w *wire) push(msgs [][]byte) *wire {
	if w == nil {
		return wireOf(msgs)
	}
	for _, m := range msgs {
		w.pending = append(w.pending, m...)
	}
	for {
		f, err := w.ps.ReadMessageBuffer()
		if err != nil {
			break // would block (every other error repeats on the next call and shows as missing frames)
		}
		w.q = append(w.q, f)
	}
	return w
}

func (w *wire) n() int {
	if w == nil {
		return 0
	}
	return len(w.q)
}

func (w *wire) pop() []byte {
	f := w.q[0]
	w.q = w.q[1:]
	return f.Bytes()
}

type pairRig struct {
	ca, cb     cfgT
	a, b       *rig
	ab, ba     *wire
	up         bool
	dirA, dirB string // file-store directories ("" = memory store kept across restarts)
}

func (p *pairRig) close() {
	if p.dirA != "" {
		_ = p.a.base.Close()
		_ = p.b.base.Close()
		os.RemoveAll(p.dirA)
		os.RemoveAll(p.dirB)
	}
}

func (p *pairRig) obs(oa, ob Sx) Sx {
	return L(oa, ob, Int(p.ab.n()), Int(p.ba.n()), Bool(p.up))
}

// idle observation of one side: an event that does not touch it
func (r *rig) idle() Sx {
	snd, tgt := r.v.Counters()
	return L(List{}, List{}, Bool(false), Int(snd), Int(tgt), Sym(r.v.StateShape()), Int(r.v.ToSendLen()), Bool(r.v.Stopped()), Int(r.v.HeartBtIntSeconds()), Int(r.v.InBuffered()))
}

func (p *pairRig) apply(ev Sx) Sx {
	l := ev.(List)
	switch AtomSym(l[0]) {
	case "connect":
		if p.up {
			return p.obs(p.a.idle(), p.b.idle())
		}
		oa := p.a.apply(L(Sym("connect")))
		p.ab = wireOf(p.a.lastOut)
		ob := p.b.apply(L(Sym("connect")))
		p.ba = wireOf(p.b.lastOut)
		p.up = true
		return p.obs(oa, ob)
	case "senda", "sendb":
		r := p.a
		if AtomSym(l[0]) == "sendb" {
			r = p.b
		}
		body := List{L(Int(11), l[1]), L(Int(55), Str("X"))}
		o1 := r.apply(L(Sym("send"), Str("D"), body, Bool(true)))
		_ = o1
		out1 := r.lastOut
		o2 := r.apply(L(Sym("flush")))
		out := append(append([][]byte(nil), out1...), r.lastOut...)
		// the pair model observes the state after both steps with the second step's logs
		if r == p.a {
			if p.up {
				p.ab = p.ab.push(out)
			} else {
				p.ab = nil
			}
			return p.obs(o2, p.b.idle())
		}
		if p.up {
			p.ba = p.ba.push(out)
		} else {
			p.ba = nil
		}
		return p.obs(p.a.idle(), o2)
	case "dab":
		if p.ab.n() == 0 {
			return p.obs(p.a.idle(), p.b.idle())
		}
		m := p.ab.pop()
		ob := p.b.apply(L(Sym("raw"), Bytes(m)))
		p.ba = p.ba.push(p.b.lastOut)
		return p.obs(p.a.idle(), ob)
	case "dba":
		if p.ba.n() == 0 {
			return p.obs(p.a.idle(), p.b.idle())
		}
		m := p.ba.pop()
		oa := p.a.apply(L(Sym("raw"), Bytes(m)))
		p.ab = p.ab.push(p.a.lastOut)
		return p.obs(oa, p.b.idle())
	case "timera":
		oa := p.a.apply(L(Sym("timeout"), l[1]))
		if p.up {
			p.ab = p.ab.push(p.a.lastOut)
		} else {
			p.ab = nil
		}
		return p.obs(oa, p.b.idle())
	case "timerb":
		ob := p.b.apply(L(Sym("timeout"), l[1]))
		if p.up {
			p.ba = p.ba.push(p.b.lastOut)
		} else {
			p.ba = nil
		}
		return p.obs(p.a.idle(), ob)
	case "stopa": // Initiator.Stop / Acceptor.Stop: the engine sends its Logout and waits for the answer
		oa := p.a.apply(L(Sym("stop")))
		if p.up {
			p.ab = p.ab.push(p.a.lastOut)
		} else {
			p.ab = nil
		}
		return p.obs(oa, p.b.idle())
	case "stopb":
		ob := p.b.apply(L(Sym("stop")))
		if p.up {
			p.ba = p.ba.push(p.b.lastOut)
		} else {
			p.ba = nil
		}
		return p.obs(p.a.idle(), ob)
	case "cut":
		oa := p.a.apply(L(Sym("inclosed")))
		ob := p.b.apply(L(Sym("inclosed")))
		p.ab, p.ba, p.up = nil, nil, false
		return p.obs(oa, ob)
	case "restarta":
		ob := p.b.apply(L(Sym("inclosed")))
		if p.dirA != "" {
			// the engine is discarded and recreated on its persistent store: a fresh store object on the same directory
			_ = p.a.base.Close()
			p.a = newRigOn(p.ca, fileStoreFor(p.ca, p.dirA))
		} else {
			p.a = newRigOn(p.ca, p.a.base)
		}
		p.ab, p.ba, p.up = nil, nil, false
		return p.obs(p.a.idle(), ob)
	case "restartb":
		oa := p.a.apply(L(Sym("inclosed")))
		if p.dirB != "" {
			_ = p.b.base.Close()
			p.b = newRigOn(p.cb, fileStoreFor(p.cb, p.dirB))
		} else {
			p.b = newRigOn(p.cb, p.b.base)
		}
		p.ab, p.ba, p.up = nil, nil, false
		return p.obs(oa, p.b.idle())
	}
	panic("pair: unknown event " + SxString(ev))
}

func newPair(ca, cb cfgT, fileStore bool) *pairRig {
	if !fileStore {
		return &pairRig{ca: ca, cb: cb, a: newRig(ca), b: newRig(cb)}
	}
	da, _ := os.MkdirTemp("/verif/_build/tmp", "pairA")
	db, _ := os.MkdirTemp("/verif/_build/tmp", "pairB")
	return &pairRig{ca: ca, cb: cb, a: newRigOn(ca, fileStoreFor(ca, da)), b: newRigOn(cb, fileStoreFor(cb, db)), dirA: da, dirB: db}
}

func runPair(in Sx) Sx {
	l := in.(List)
	ca, cb := sxCfg(l[0]), sxCfg(l[1])
	fileStore := len(l) > 3 && AtomBool(l[3])
	return Guard(func() Sx {
		p := newPair(ca, cb, fileStore)
		defer p.close()
		obs := List{}
		for _, ev := range l[2].(List) {
			obs = append(obs, p.apply(ev))
		}
		return obs
	})
}

func genOnePair(rng *rand.Rand, steps int) (Sx, Sx) {
	begin := rng.Intn(6)
	mk := func(initiator bool, sender, target string) cfgT {
		c := cfgT{initiator: initiator, begin: begin, sender: sender, target: target, chunk: []int{0, 0, 1, 2, 5}[rng.Intn(5)], hb: 30,
			hbOver: rng.Intn(3) == 0, skipLat: rng.Intn(4) == 0, maxLat: 120, lastSeq: rng.Intn(4) == 0, inCap: 1, refresh: rng.Intn(4) == 0}
		if begin == 5 {
			c.applVer = "9"
		}
		return c
	}
	ca, cb := mk(true, "AAA", "BBB"), mk(false, "BBB", "AAA")
	fileStore := rng.Intn(3) == 0
	p := newPair(ca, cb, fileStore)
	defer p.close()
	evs, obs := List{}, List{}
	do := func(ev Sx) {
		evs = append(evs, ev)
		if pendingCtx != nil {
			pendingCtx.Pending(L(cfgSx(ca), cfgSx(cb), evs, Bool(fileStore)))
		}
		obs = append(obs, p.apply(ev))
	}
	n := 0
	stoppedA, stoppedB := false, false
	id := func() Sx {
		n++
		if rng.Intn(4) == 0 {
			return Str("id" + strconv.Itoa(n) + strings.Repeat("x", 300+rng.Intn(900))) // a long ClOrdID: the stream parser's buffer wraps within one replay
		}
		return Str("id" + strconv.Itoa(n))
	}
	for i := 0; i < steps; i++ {
		if !p.up {
			switch rng.Intn(6) {
			case 0:
				do(L(Sym("senda"), id()))
			case 1:
				do(L(Sym("sendb"), id()))
			default:
				if stoppedA && rng.Intn(2) == 0 {
					do(L(Sym("restarta")))
					stoppedA = false
				}
				if stoppedB && rng.Intn(2) == 0 {
					do(L(Sym("restartb")))
					stoppedB = false
				}
				do(L(Sym("connect")))
			}
			continue
		}
		switch x := rng.Intn(40); {
		case x < 12:
			do(L(Sym("dab")))
		case x < 24:
			do(L(Sym("dba")))
		case x < 29:
			do(L(Sym("senda"), id()))
		case x < 34:
			do(L(Sym("sendb"), id()))
		case x < 36:
			do(L(Sym("cut")))
		case x < 37:
			if rng.Intn(2) == 0 {
				do(L(Sym("restarta")))
				stoppedA = false
			} else if !stoppedA { // the engine is stopped in the middle of whatever is going on (a recovery, in-flight traffic)
				do(L(Sym("stopa")))
				stoppedA = true
			}
		case x < 38:
			if rng.Intn(2) == 0 {
				do(L(Sym("restartb")))
				stoppedB = false
			} else if !stoppedB {
				do(L(Sym("stopb")))
				stoppedB = true
			}
		case x < 39:
			do(L(Sym("timera"), Int(rng.Intn(2))))
		default:
			do(L(Sym("timerb"), Int(rng.Intn(2))))
		}
	}
	// a stopped engine comes back only by being recreated on its store
	if stoppedA {
		do(L(Sym("restarta")))
	}
	if stoppedB {
		do(L(Sym("restartb")))
	}
	// the link stays up for a while: reconnect, deliver everything, a heartbeat round, deliver everything
	do(L(Sym("cut")))
	do(L(Sym("connect")))
	for round := 0; round < 6; round++ {
		for k := 0; k < 400 && (p.ab.n() > 0 || p.ba.n() > 0); k++ {
			if p.ab.n() > 0 {
				do(L(Sym("dab")))
			}
			if p.ba.n() > 0 {
				do(L(Sym("dba")))
			}
		}
		if round%2 == 0 {
			do(L(Sym("timera"), Int(0)))
			do(L(Sym("timerb"), Int(0)))
		}
	}
	return L(cfgSx(ca), cfgSx(cb), evs, Bool(fileStore)), obs
}

func genPair(c *Ctx) {
	pendingCtx = c
	for i := 0; i < c.N; i++ {
		in, obs := genOnePair(c.Rng, 10+c.Rng.Intn(50))
		c.Emit(in, obs)
	}
}
