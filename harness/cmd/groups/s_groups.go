package main

// Stream `groups` (C13): repeating groups written with SetGroup, built, parsed without and with a data
// dictionary, read back with GetGroup through a template.
//
// input  = (case (hdr xBEGIN xMSGTYPE ((TAG xV)...)) (body ITEM...) (reads (TAG TMPL)...)
//                (dict none | (some (DEF...))) (xh TAG...) (xt TAG...) (src LABEL))
//   ITEM = (f TAG xV) | (g TAG TMPL VAL)          TMPL = (TI...)   TI = (e TAG) | (g TAG TI...)
//   VAL  = (ENTRY...)   ENTRY = ((TAG xV) | (TAG (ENTRY...)) ...)   in Set order
//   DEF  = (TAG DEF...)        the MessageDef.Fields of the message type, restricted to tags on the wire
// output = (obs (built (TAG xV)...) (nodict R) (dict R))
//   R = panic | fuel | perr | (ok (groups (HAS GV)...) (fields FV...))
//   GV = (err CODE) | (ok VIEW)   VIEW = (ROW...)  ROW = per template item: none | (some xV) | (g VIEW) | (gerr CODE)
//   FV = none | (some xV)

import (
	"bytes"
	"fmt"
	"os"
	"path/filepath"
	"sort"
	"strconv"

	"github.com/quickfixgo/quickfix"
	"github.com/quickfixgo/quickfix/datadictionary"

	. "qfverif/hx"
)

func main() { Main() }

func init() {
	Register("groups", &Stream{Gen: genGroups, Run: func(in Sx) Sx { return runGroups(in, nil, nil) }})
}

// ---------------------------------------------------------------------------------------------------
// trees

type item struct {
	tag   int
	isGrp bool
	sub   []item
}

type member struct {
	tag int
	isG bool
	v   []byte
	g   []entry
}
type entry []member

type def struct {
	tag     int
	members []def
}

type bitem struct {
	tag   int
	isGrp bool
	v     []byte
	tmpl  []item
	g     []entry
}

type read struct {
	tag  int
	tmpl []item
}

type gcase struct {
	begin, msgType []byte
	hdr            []member // plain header extras, ascending tags
	body           []bitem
	reads          []read
	dict           []def
	hasDict        bool
	xh, xt         []int
	src            string
}

func tmplSx(t []item) Sx {
	l := List{}
	for _, it := range t {
		if it.isGrp {
			l = append(l, append(List{Sym("g"), Int(it.tag)}, tmplSx(it.sub).(List)...))
		} else {
			l = append(l, L(Sym("e"), Int(it.tag)))
		}
	}
	return l
}

func valSx(g []entry) Sx {
	l := List{}
	for _, e := range g {
		el := List{}
		for _, m := range e {
			if m.isG {
				el = append(el, L(Int(m.tag), valSx(m.g)))
			} else {
				el = append(el, L(Int(m.tag), Bytes(m.v)))
			}
		}
		l = append(l, el)
	}
	return l
}

func defSx(d def) Sx {
	l := List{Int(d.tag)}
	for _, m := range d.members {
		l = append(l, defSx(m))
	}
	return l
}

func intsSx(head string, xs []int) Sx {
	l := List{Sym(head)}
	for _, x := range xs {
		l = append(l, Int(x))
	}
	return l
}

func (c *gcase) sx() Sx {
	hl := List{}
	for _, m := range c.hdr {
		hl = append(hl, L(Int(m.tag), Bytes(m.v)))
	}
	bl := List{Sym("body")}
	for _, b := range c.body {
		if b.isGrp {
			bl = append(bl, L(Sym("g"), Int(b.tag), tmplSx(b.tmpl), valSx(b.g)))
		} else {
			bl = append(bl, L(Sym("f"), Int(b.tag), Bytes(b.v)))
		}
	}
	rl := List{Sym("reads")}
	for _, r := range c.reads {
		rl = append(rl, L(Int(r.tag), tmplSx(r.tmpl)))
	}
	var d Sx = None()
	if c.hasDict {
		dl := List{}
		for _, x := range c.dict {
			dl = append(dl, defSx(x))
		}
		d = Some(dl)
	}
	return L(Sym("case"), L(Sym("hdr"), Bytes(c.begin), Bytes(c.msgType), hl), bl, rl, L(Sym("dict"), d),
		intsSx("xh", c.xh), intsSx("xt", c.xt), L(Sym("src"), Sym(c.src)))
}

func sxTmpl(x Sx) []item {
	out := []item{}
	for _, e := range x.(List) {
		l := e.(List)
		switch AtomSym(l[0]) {
		case "e":
			out = append(out, item{tag: AtomInt(l[1])})
		case "g":
			out = append(out, item{tag: AtomInt(l[1]), isGrp: true, sub: sxTmpl(l[2:])})
		default:
			panic("template item")
		}
	}
	return out
}

func sxVal(x Sx) []entry {
	out := []entry{}
	for _, e := range x.(List) {
		en := entry{}
		for _, m := range e.(List) {
			ml := m.(List)
			if a, ok := ml[1].(Atom); ok {
				en = append(en, member{tag: AtomInt(ml[0]), v: AtomBytes(a)})
			} else {
				en = append(en, member{tag: AtomInt(ml[0]), isG: true, g: sxVal(ml[1])})
			}
		}
		out = append(out, en)
	}
	return out
}

func sxDef(x Sx) def {
	l := x.(List)
	d := def{tag: AtomInt(l[0])}
	for _, m := range l[1:] {
		d.members = append(d.members, sxDef(m))
	}
	return d
}

func sxInts(x Sx) []int {
	out := []int{}
	for _, e := range x.(List)[1:] {
		out = append(out, AtomInt(e))
	}
	return out
}

func sxCase(in Sx) *gcase {
	l := in.(List)
	c := &gcase{}
	h := l[1].(List)
	c.begin, c.msgType = AtomBytes(h[1]), AtomBytes(h[2])
	for _, m := range h[3].(List) {
		ml := m.(List)
		c.hdr = append(c.hdr, member{tag: AtomInt(ml[0]), v: AtomBytes(ml[1])})
	}
	for _, b := range l[2].(List)[1:] {
		bl := b.(List)
		if AtomSym(bl[0]) == "g" {
			c.body = append(c.body, bitem{tag: AtomInt(bl[1]), isGrp: true, tmpl: sxTmpl(bl[2]), g: sxVal(bl[3])})
		} else {
			c.body = append(c.body, bitem{tag: AtomInt(bl[1]), v: AtomBytes(bl[2])})
		}
	}
	for _, r := range l[3].(List)[1:] {
		rl := r.(List)
		c.reads = append(c.reads, read{tag: AtomInt(rl[0]), tmpl: sxTmpl(rl[1])})
	}
	d := l[4].(List)[1]
	if dl, ok := d.(List); ok {
		c.hasDict = true
		for _, x := range dl[1].(List) {
			c.dict = append(c.dict, sxDef(x))
		}
	}
	c.xh, c.xt = sxInts(l[5]), sxInts(l[6])
	c.src = AtomSym(l[7].(List)[1])
	return c
}

// ---------------------------------------------------------------------------------------------------
// the implementation side

func toTemplate(t []item) quickfix.GroupTemplate {
	gt := quickfix.GroupTemplate{}
	for _, it := range t {
		if it.isGrp {
			gt = append(gt, quickfix.NewRepeatingGroup(quickfix.Tag(it.tag), toTemplate(it.sub)))
		} else {
			gt = append(gt, quickfix.GroupElement(quickfix.Tag(it.tag)))
		}
	}
	return gt
}

// the same template, but every nested group item already holds entries (a template object that was also used to write, as
// applications do): reading through it must give what a fresh template gives
func toUsedTemplate(t []item) quickfix.GroupTemplate {
	gt := quickfix.GroupTemplate{}
	for _, it := range t {
		if it.isGrp {
			rg := quickfix.NewRepeatingGroup(quickfix.Tag(it.tag), toUsedTemplate(it.sub))
			if len(it.sub) > 0 {
				for k := 0; k < 2; k++ {
					rg.Add().SetBytes(quickfix.Tag(it.sub[0].tag), []byte("used"))
				}
			}
			gt = append(gt, rg)
		} else {
			gt = append(gt, quickfix.GroupElement(quickfix.Tag(it.tag)))
		}
	}
	return gt
}

func hasNested(t []item) bool {
	for _, it := range t {
		if it.isGrp {
			return true
		}
	}
	return false
}

// the template a nested group under tag t is built with: the first template item with that tag, if it is a group
func subTemplate(t []item, tag int) []item {
	for _, it := range t {
		if it.tag == tag {
			if it.isGrp {
				return it.sub
			}
			return nil
		}
	}
	return nil
}

func buildRG(tag int, tmpl []item, g []entry) *quickfix.RepeatingGroup {
	rg := quickfix.NewRepeatingGroup(quickfix.Tag(tag), toTemplate(tmpl))
	for _, e := range g {
		grp := rg.Add()
		for _, m := range e {
			if m.isG {
				grp.SetGroup(buildRG(m.tag, subTemplate(tmpl, m.tag), m.g))
			} else {
				grp.SetBytes(quickfix.Tag(m.tag), m.v)
			}
		}
	}
	return rg
}

func viewGroup(rg *quickfix.RepeatingGroup, tmpl []item) Sx {
	rows := List{}
	for i := 0; i < rg.Len(); i++ {
		g := rg.Get(i)
		row := List{}
		for _, it := range tmpl {
			tag := quickfix.Tag(it.tag)
			if !g.Has(tag) {
				row = append(row, None())
				continue
			}
			if !it.isGrp {
				v, _ := g.GetBytes(tag)
				row = append(row, Some(Bytes(v)))
				continue
			}
			nested := quickfix.NewRepeatingGroup(tag, toTemplate(it.sub))
			if err := g.GetGroup(nested); err != nil {
				row = append(row, L(Sym("gerr"), Int(err.RejectReason())))
			} else {
				row = append(row, L(Sym("g"), viewGroup(nested, it.sub)))
			}
		}
		rows = append(rows, row)
	}
	return rows
}

func toFieldDef(d def) *datadictionary.FieldDef {
	fd := datadictionary.NewFieldDef(datadictionary.NewFieldType("F"+strconv.Itoa(d.tag), d.tag, "STRING"), false)
	for _, m := range d.members {
		fd.Fields = append(fd.Fields, toFieldDef(m))
	}
	return fd
}

func tagMessageDef(tags []int) *datadictionary.MessageDef {
	md := &datadictionary.MessageDef{Fields: map[int]*datadictionary.FieldDef{}}
	for _, t := range tags {
		md.Fields[t] = toFieldDef(def{tag: t})
	}
	return md
}

// the dictionaries described by the input alone
func synthDicts(c *gcase) (transport, app *datadictionary.DataDictionary) {
	if !c.hasDict {
		return nil, nil
	}
	md := &datadictionary.MessageDef{MsgType: string(c.msgType), Fields: map[int]*datadictionary.FieldDef{}}
	for _, d := range c.dict {
		md.Fields[d.tag] = toFieldDef(d)
	}
	app = &datadictionary.DataDictionary{Messages: map[string]*datadictionary.MessageDef{string(c.msgType): md},
		Header: tagMessageDef(nil), Trailer: tagMessageDef(nil)}
	transport = &datadictionary.DataDictionary{Messages: map[string]*datadictionary.MessageDef{},
		Header: tagMessageDef(c.xh), Trailer: tagMessageDef(c.xt)}
	return
}

func splitFields(b []byte) Sx {
	l := List{Sym("built")}
	for len(b) > 0 {
		end := bytes.IndexByte(b, 1)
		if end < 0 {
			l = append(l, L(Sym("junk"), Bytes(b)))
			break
		}
		f := b[:end]
		b = b[end+1:]
		eq := bytes.IndexByte(f, '=')
		if eq < 0 {
			l = append(l, L(Sym("junk"), Bytes(f)))
			continue
		}
		t, err := strconv.Atoi(string(f[:eq]))
		if err != nil {
			l = append(l, L(Sym("junk"), Bytes(f)))
			continue
		}
		l = append(l, L(Int(t), Bytes(f[eq+1:])))
	}
	return l
}

func observeParsed(c *gcase, raw []byte, transport, app *datadictionary.DataDictionary, withDict bool) Sx {
	return Guard(func() Sx {
		m := quickfix.NewMessage()
		var err error
		if withDict {
			err = quickfix.ParseMessageWithDataDictionary(m, bytes.NewBuffer(append([]byte(nil), raw...)), transport, app)
		} else {
			err = quickfix.ParseMessage(m, bytes.NewBuffer(append([]byte(nil), raw...)))
		}
		if err != nil {
			return Sym("perr")
		}
		gl := List{Sym("groups")}
		for _, r := range c.reads {
			tag := quickfix.Tag(r.tag)
			rg := quickfix.NewRepeatingGroup(tag, toTemplate(r.tmpl))
			var gv Sx
			if e := m.Body.GetGroup(rg); e != nil {
				gv = L(Sym("err"), Int(e.RejectReason()))
			} else {
				gv = OkV(viewGroup(rg, r.tmpl))
			}
			if hasNested(r.tmpl) {
				used := quickfix.NewRepeatingGroup(tag, toUsedTemplate(r.tmpl))
				var uv Sx
				if e := m.Body.GetGroup(used); e != nil {
					uv = L(Sym("err"), Int(e.RejectReason()))
				} else {
					uv = OkV(viewGroup(used, r.tmpl))
				}
				if SxString(uv) != SxString(gv) {
					gv = L(Sym("used-template-differs"), uv, gv)
				}
			}
			gl = append(gl, L(Bool(m.Body.Has(tag)), gv))
		}
		fl := List{Sym("fields")}
		for _, b := range c.body {
			if b.isGrp {
				continue
			}
			if v, e := m.Body.GetBytes(quickfix.Tag(b.tag)); e != nil {
				fl = append(fl, None())
			} else {
				fl = append(fl, Some(Bytes(v)))
			}
		}
		return OkV(L(gl, fl))
	})
}

// realT/realA: the dictionaries loaded from /repo/spec the case was derived from (nil on replay)
func runGroups(in Sx, realT, realA *datadictionary.DataDictionary) Sx {
	c := sxCase(in)
	var raw []byte
	built := Guard(func() Sx {
		m := quickfix.NewMessage()
		m.Header.SetBytes(8, c.begin)
		m.Header.SetBytes(35, c.msgType)
		for _, h := range c.hdr {
			m.Header.SetBytes(quickfix.Tag(h.tag), h.v)
		}
		for _, b := range c.body {
			if b.isGrp {
				m.Body.SetGroup(buildRG(b.tag, b.tmpl, b.g))
			} else {
				m.Body.SetBytes(quickfix.Tag(b.tag), b.v)
			}
		}
		raw = []byte(m.String())
		return splitFields(raw)
	})
	if raw == nil {
		return L(Sym("obs"), built)
	}
	st, sa := synthDicts(c)
	nod := observeParsed(c, raw, nil, nil, false)
	var wd Sx
	if c.hasDict {
		wd = observeParsed(c, raw, st, sa, true)
		if realA != nil {
			// the projection handed to the model must behave like the dictionary it was taken from
			if r := observeParsed(c, raw, realT, realA, true); SxString(r) != SxString(wd) {
				wd = L(Sym("real-dictionary-differs"), r, wd)
			}
		}
	} else {
		wd = observeParsed(c, raw, nil, nil, true)
	}
	return L(Sym("obs"), built, L(Sym("nodict"), nod), L(Sym("dict"), wd))
}

// ---------------------------------------------------------------------------------------------------
// generators

type rnd interface{ Intn(n int) int }

var valAlphabet = []byte("ABCDEFGHIJKLMNOPQRSTUVWXYZabcdefghijklmnopqrstuvwxyz0123456789")

func randValue(r rnd) []byte {
	n := 1 + r.Intn(4)
	switch r.Intn(24) {
	case 0:
		n = 0
	case 1:
		n = 9
	}
	b := make([]byte, n)
	for i := range b {
		b[i] = valAlphabet[r.Intn(len(valAlphabet))]
	}
	if n > 1 && r.Intn(12) == 0 {
		b[r.Intn(n)] = "= .-+/"[r.Intn(6)]
	}
	return b
}

// a value for a group written with template t: delimiter always present, the other members with probability
// pres/100 each; nested groups 0..maxN entries
func randGroup(r rnd, t []item, nEntries int, depth int) []entry {
	g := []entry{}
	if len(t) == 0 {
		return g
	}
	// keep large shipped templates small on the wire
	pres := 50
	if len(t) > 10 {
		pres = 500 / len(t)
	}
	if depth > 1 {
		pres = pres * 2 / 3
	}
	for i := 0; i < nEntries; i++ {
		e := entry{}
		for k, it := range t {
			if k > 0 && r.Intn(100) >= pres {
				continue
			}
			if it.isGrp {
				n := r.Intn(3)
				if depth >= 3 {
					n = r.Intn(2)
				}
				e = append(e, member{tag: it.tag, isG: true, g: randGroup(r, it.sub, n, depth+1)})
			} else {
				e = append(e, member{tag: it.tag, v: randValue(r)})
			}
		}
		// Set order is not template order in one entry out of four
		if len(e) > 1 && r.Intn(4) == 0 {
			for k := len(e) - 1; k > 0; k-- {
				j := r.Intn(k + 1)
				e[k], e[j] = e[j], e[k]
			}
		}
		g = append(g, e)
	}
	return g
}

func defOfTemplate(tag int, t []item) def {
	d := def{tag: tag}
	for _, it := range t {
		if it.isGrp {
			d.members = append(d.members, defOfTemplate(it.tag, it.sub))
		} else {
			d.members = append(d.members, def{tag: it.tag})
		}
	}
	return d
}

func allTags(t []item, acc map[int]bool) {
	for _, it := range t {
		acc[it.tag] = true
		if it.isGrp {
			allTags(it.sub, acc)
		}
	}
}

func builtinHeader(t int) bool { return quickfix.Tag(t).IsHeader() }
func builtinTrailer(t int) bool { return quickfix.Tag(t).IsTrailer() }

// wire tags of a case (what the parser can ask the dictionaries about)
func wireTags(c *gcase) map[int]bool {
	w := map[int]bool{8: true, 9: true, 10: true, 35: true}
	for _, h := range c.hdr {
		w[h.tag] = true
	}
	var val func(g []entry)
	val = func(g []entry) {
		for _, e := range g {
			for _, m := range e {
				w[m.tag] = true
				if m.isG {
					val(m.g)
				}
			}
		}
	}
	for _, b := range c.body {
		w[b.tag] = true
		if b.isGrp {
			val(b.g)
		}
	}
	return w
}

// ------------------------------------------------------------ shipped dictionaries

type shipped struct {
	name      string
	app       *datadictionary.DataDictionary
	transport *datadictionary.DataDictionary
	begin     string
}

func loadShipped() []*shipped {
	files, _ := filepath.Glob("/repo/spec/*.xml")
	sort.Strings(files)
	byName := map[string]*datadictionary.DataDictionary{}
	names := []string{}
	for _, f := range files {
		dd, err := datadictionary.Parse(f)
		if err != nil {
			fmt.Fprintln(os.Stderr, "groups: cannot load", f, err)
			os.Exit(2)
		}
		n := filepath.Base(f)
		n = n[:len(n)-4]
		byName[n] = dd
		names = append(names, n)
	}
	out := []*shipped{}
	for _, n := range names {
		s := &shipped{name: n, app: byName[n], transport: byName[n]}
		switch n {
		case "FIX50", "FIX50SP1", "FIX50SP2", "FIXT11":
			s.transport = byName["FIXT11"]
			s.begin = "FIXT.1.1"
		default:
			s.begin = "FIX." + n[3:4] + "." + n[4:5]
		}
		out = append(out, s)
	}
	return out
}

func templateOfFieldDef(fd *datadictionary.FieldDef) []item {
	t := []item{}
	for _, m := range fd.Fields {
		if m.IsGroup() {
			t = append(t, item{tag: m.Tag(), isGrp: true, sub: templateOfFieldDef(m)})
		} else {
			t = append(t, item{tag: m.Tag()})
		}
	}
	return t
}

func defOfFieldDef(fd *datadictionary.FieldDef) def {
	d := def{tag: fd.Tag()}
	for _, m := range fd.Fields {
		d.members = append(d.members, defOfFieldDef(m))
	}
	return d
}

// project the real dictionaries onto the tags that occur on the wire
func projectDicts(c *gcase, s *shipped, md *datadictionary.MessageDef) {
	w := wireTags(c)
	c.hasDict = true
	tags := []int{}
	for t := range md.Fields {
		if w[t] {
			tags = append(tags, t)
		}
	}
	sort.Ints(tags)
	for _, t := range tags {
		c.dict = append(c.dict, defOfFieldDef(md.Fields[t]))
	}
	wl := []int{}
	for t := range w {
		wl = append(wl, t)
	}
	sort.Ints(wl)
	for _, t := range wl {
		if _, ok := s.transport.Header.Fields[t]; ok && !builtinHeader(t) {
			c.xh = append(c.xh, t)
		}
		if _, ok := s.transport.Trailer.Fields[t]; ok && !builtinTrailer(t) {
			c.xt = append(c.xt, t)
		}
	}
}

func genShipped(c *Ctx, all []*shipped, rounds int) {
	for _, s := range all {
		mts := []string{}
		for mt := range s.app.Messages {
			mts = append(mts, mt)
		}
		sort.Strings(mts)
		for _, mt := range mts {
			md := s.app.Messages[mt]
			gtags, ftags := []int{}, []int{}
			for t, fd := range md.Fields {
				if fd.IsGroup() {
					gtags = append(gtags, t)
				} else if !builtinHeader(t) && !builtinTrailer(t) {
					ftags = append(ftags, t)
				}
			}
			sort.Ints(gtags)
			sort.Ints(ftags)
			for _, gt := range gtags {
				for round := 0; round < rounds; round++ {
					gc := &gcase{begin: []byte(s.begin), msgType: []byte(mt), src: s.name + ":" + mt + ":" + strconv.Itoa(gt)}
					gc.hdr = []member{{tag: 34, v: []byte("7")}, {tag: 49, v: []byte("S")}, {tag: 56, v: []byte("T")}}
					tmpl := templateOfFieldDef(md.Fields[gt])
					used := map[int]bool{gt: true}
					gc.body = append(gc.body, bitem{tag: gt, isGrp: true, tmpl: tmpl, g: randGroup(c.Rng, tmpl, c.Rng.Intn(4), 1)})
					gc.reads = append(gc.reads, read{tag: gt, tmpl: tmpl})
					// a second group of the same message, one time out of three
					if len(gtags) > 1 && c.Rng.Intn(3) == 0 {
						g2 := gtags[c.Rng.Intn(len(gtags))]
						if !used[g2] {
							used[g2] = true
							t2 := templateOfFieldDef(md.Fields[g2])
							gc.body = append(gc.body, bitem{tag: g2, isGrp: true, tmpl: t2, g: randGroup(c.Rng, t2, c.Rng.Intn(3), 1)})
							gc.reads = append(gc.reads, read{tag: g2, tmpl: t2})
						}
					}
					// plain fields of the message before and after the group (first / middle / last position)
					var lower, higher []int
					for _, t := range ftags {
						if t < gt {
							lower = append(lower, t)
						} else {
							higher = append(higher, t)
						}
					}
					pos := c.Rng.Intn(4) // 0 first, 1 last, 2/3 middle
					pick := func(pool []int, n int) {
						for k := 0; k < n && len(pool) > 0; k++ {
							t := pool[c.Rng.Intn(len(pool))]
							if !used[t] {
								used[t] = true
								gc.body = append(gc.body, bitem{tag: t, v: randValue(c.Rng)})
							}
						}
					}
					if pos != 0 {
						pick(lower, 1+c.Rng.Intn(2))
					}
					if pos != 1 {
						pick(higher, 1+c.Rng.Intn(2))
					}
					// now and then a field the message does not define
					if c.Rng.Intn(8) == 0 {
						t := 5000 + c.Rng.Intn(50)
						if !used[t] {
							used[t] = true
							gc.body = append(gc.body, bitem{tag: t, v: randValue(c.Rng)})
						}
					}
					// Set order: shuffled
					for k := len(gc.body) - 1; k > 0; k-- {
						j := c.Rng.Intn(k + 1)
						gc.body[k], gc.body[j] = gc.body[j], gc.body[k]
					}
					projectDicts(gc, s, md)
					in := gc.sx()
					c.Pending(in); c.Emit(in, runGroups(in, s.transport, s.app))
				}
			}
		}
	}
}

// ------------------------------------------------------------ generated templates

type tagPool struct {
	r    rnd
	next int
	seen []int
}

func (p *tagPool) fresh() int {
	p.next += 1 + p.r.Intn(3)
	p.seen = append(p.seen, p.next)
	return p.next
}

// mostly fresh tags; with probability clash/100 a tag already used somewhere else in the tree
func (p *tagPool) pick(clash int) int {
	if len(p.seen) > 0 && p.r.Intn(100) < clash {
		return p.seen[p.r.Intn(len(p.seen))]
	}
	return p.fresh()
}

func randTemplate(p *tagPool, depth, maxDepth, clash int) []item {
	n := 1 + p.r.Intn(4)
	t := []item{}
	for i := 0; i < n; i++ {
		tag := p.pick(clash)
		dup := false
		for _, it := range t {
			if it.tag == tag {
				dup = true
			}
		}
		if dup {
			continue
		}
		if depth < maxDepth && p.r.Intn(100) < 45 {
			t = append(t, item{tag: tag, isGrp: true, sub: randTemplate(p, depth+1, maxDepth, clash)})
		} else {
			t = append(t, item{tag: tag})
		}
	}
	if len(t) == 0 {
		t = append(t, item{tag: p.fresh()})
	}
	return t
}

func cloneTemplate(t []item) []item {
	out := make([]item, len(t))
	for i, it := range t {
		out[i] = item{tag: it.tag, isGrp: it.isGrp, sub: cloneTemplate(it.sub)}
	}
	return out
}

// a read template that is not the write template
func perturbTemplate(r rnd, t []item) []item {
	t = cloneTemplate(t)
	switch r.Intn(5) {
	case 0: // drop the delimiter
		if len(t) > 1 {
			return t[1:]
		}
		return []item{}
	case 1: // drop some item
		k := r.Intn(len(t))
		return append(t[:k:k], t[k+1:]...)
	case 2: // rotate
		return append(t[1:len(t):len(t)], t[0])
	case 3: // change the kind of an item
		k := r.Intn(len(t))
		if t[k].isGrp {
			t[k] = item{tag: t[k].tag}
		} else {
			t[k] = item{tag: t[k].tag, isGrp: true, sub: []item{{tag: t[k].tag + 1}}}
		}
		return t
	default: // perturb below
		for k := range t {
			if t[k].isGrp && len(t[k].sub) > 0 {
				t[k].sub = perturbTemplate(r, t[k].sub)
				return t
			}
		}
		return []item{}
	}
}

func perturbDef(r rnd, d def) def {
	out := def{tag: d.tag, members: append([]def(nil), d.members...)}
	if len(out.members) == 0 {
		return out
	}
	switch r.Intn(3) {
	case 0:
		k := r.Intn(len(out.members))
		out.members = append(out.members[:k:k], out.members[k+1:]...)
	case 1:
		out.members = append(out.members, def{tag: 2000 + r.Intn(40)})
	default:
		k := r.Intn(len(out.members))
		out.members[k] = perturbDef(r, out.members[k])
	}
	return out
}

func genGenerated(c *Ctx, n int) {
	r := c.Rng
	for i := 0; i < n; i++ {
		gc := &gcase{begin: []byte("FIX.4.4"), msgType: []byte("D"), src: "gen"}
		if r.Intn(2) == 0 {
			gc.hdr = []member{{tag: 49, v: []byte("S")}, {tag: 56, v: []byte("T")}}
		}
		maxDepth := 1 + r.Intn(4)
		clash := 0
		if r.Intn(4) == 0 {
			clash = 12
		}
		malformed := r.Intn(5) == 0
		p := &tagPool{r: r, next: 1000 + r.Intn(20)}
		used := map[int]bool{}
		nGroups := 1
		if r.Intn(4) == 0 {
			nGroups = 2
		}
		// fields before
		nBefore := r.Intn(3)
		for k := 0; k < nBefore; k++ {
			t := p.fresh()
			used[t] = true
			gc.body = append(gc.body, bitem{tag: t, v: randValue(r)})
		}
		for k := 0; k < nGroups; k++ {
			gt := p.fresh()
			for used[gt] {
				gt = p.fresh()
			}
			used[gt] = true
			tmpl := randTemplate(p, 1, maxDepth, clash)
			val := randGroup(r, tmpl, r.Intn(4), 1)
			if malformed && r.Intn(8) == 0 {
				// a plain member listed twice on the top level: groupTagOrder keeps the LAST index,
				// findItemInGroupTemplate the FIRST item
				var elems []int
				for _, it := range tmpl {
					if !it.isGrp {
						elems = append(elems, it.tag)
					}
				}
				if len(elems) > 0 {
					tmpl = append(cloneTemplate(tmpl), item{tag: elems[r.Intn(len(elems))]})
					val = randGroup(r, tmpl[:len(tmpl)-1], r.Intn(3), 1)
				}
			}
			rt := tmpl
			if malformed && r.Intn(2) == 0 {
				rt = perturbTemplate(r, tmpl)
			}
			if malformed && r.Intn(3) == 0 && len(val) > 0 {
				// an entry with members outside the template / without the delimiter
				e := val[r.Intn(len(val))]
				switch r.Intn(3) {
				case 0:
					if len(e) > 0 {
						val[0] = e[1:]
					}
				case 1:
					val[0] = append(entry{{tag: 3000 + r.Intn(5), v: randValue(r)}}, val[0]...)
				default:
					val[0] = append(append(entry{}, val[0]...), member{tag: 3000 + r.Intn(5), v: randValue(r)}, member{tag: 3010 + r.Intn(5), v: randValue(r)})
				}
			}
			gc.body = append(gc.body, bitem{tag: gt, isGrp: true, tmpl: tmpl, g: val})
			gc.reads = append(gc.reads, read{tag: gt, tmpl: rt})
			d := defOfTemplate(gt, tmpl)
			if malformed && r.Intn(3) == 0 {
				d = perturbDef(r, d)
			}
			gc.dict = append(gc.dict, d)
			// a field between / after: fresh (larger tag), sometimes a tag of the template tree
			if r.Intn(3) != 0 {
				t := p.pick(clash)
				if t < gt || used[t] {
					t = p.fresh()
				}
				used[t] = true
				gc.body = append(gc.body, bitem{tag: t, v: randValue(r)})
			}
		}
		if malformed && r.Intn(4) == 0 {
			// a plain field where a count is expected, read as a group
			t := p.fresh()
			used[t] = true
			vals := []string{"0", "1", "2", "-1", "x", "", "00", "99999999999999999999"}
			gc.body = append(gc.body, bitem{tag: t, v: []byte(vals[r.Intn(len(vals))])})
			gc.reads = append(gc.reads, read{tag: t, tmpl: []item{{tag: t + 1}, {tag: t + 2}}})
			if r.Intn(2) == 0 {
				gc.body = append(gc.body, bitem{tag: t + 1, v: randValue(r)})
				used[t+1] = true
				p.next = t + 2
			}
			if r.Intn(2) == 0 {
				gc.dict = append(gc.dict, def{tag: t, members: []def{{tag: t + 1}, {tag: t + 2}}})
			}
		}
		if malformed && r.Intn(6) == 0 {
			// header / trailer tags among the body fields
			t := []int{50, 57, 93, 89, 115}[r.Intn(5)]
			if !used[t] {
				used[t] = true
				gc.body = append(gc.body, bitem{tag: t, v: randValue(r)})
			}
		}
		switch r.Intn(6) {
		case 0:
			gc.hasDict = false
			gc.dict = nil
		default:
			gc.hasDict = true
			sort.Slice(gc.dict, func(a, b int) bool { return gc.dict[a].tag < gc.dict[b].tag })
		}
		if gc.hasDict && r.Intn(10) == 0 {
			// transport dictionary declaring a body tag a header / trailer field
			if len(p.seen) > 0 {
				t := p.seen[r.Intn(len(p.seen))]
				if r.Intn(2) == 0 {
					gc.xh = []int{t}
				} else {
					gc.xt = []int{t}
				}
			}
		}
		for k := len(gc.body) - 1; k > 0; k-- {
			j := r.Intn(k + 1)
			gc.body[k], gc.body[j] = gc.body[j], gc.body[k]
		}
		in := gc.sx()
		c.Pending(in); c.Emit(in, runGroups(in, nil, nil))
	}
}

func genGroups(c *Ctx) {
	rounds := 1
	if c.Tier == "thorough" {
		rounds = 20
	}
	genShipped(c, loadShipped(), rounds)
	genGenerated(c, c.N)
}
