package main

// Stream `framer` (C12): the real parser (parser.go) fed by a chunking io.Reader.
//
// input  = (stream (pieces PIECE...) (parts PART...))
//   PIECE = (g xBYTES)            bytes between messages
//         | (m xV xD xBODY xC)    "8=" V SOH "9=" D SOH BODY SOH "10=" C SOH
//         | (raw xBYTES)          anything else
//   the stream is the concatenation of the pieces;
//   PART  = (rep K)               chunks of K bytes (the last one shorter)
//         | (sizes N1 N2 ...)     chunks of these sizes (zeros skipped), the remainder is the last chunk
//         | (rep-eof K) | (sizes-eof N1 ...)  the same chunks, but the Read that delivers the last bytes also returns io.EOF
//                                 (io.Reader allows n > 0 together with an error)
// observed = one entry per partition: ((xFRAME ...) TERM)
//   TERM  = eof | nolen | invlen | empty | format | range | other | panic | fuel

import (
	"bytes"
	"io"
	"strconv"

	"github.com/quickfixgo/quickfix"

	. "qfverif/hx"
)

func main() { Main() }

func init() {
	Register("framer", &Stream{Gen: genFramer, Run: runFramer})
}

// chunkReader delivers the chunks one Read at a time: at most len(p) bytes of the current chunk.
type chunkReader struct {
	chunks      [][]byte
	eofWithLast bool
}

func (r *chunkReader) Read(p []byte) (int, error) {
	if len(r.chunks) == 0 {
		return 0, io.EOF
	}
	n := copy(p, r.chunks[0])
	if n == len(r.chunks[0]) {
		r.chunks = r.chunks[1:]
	} else {
		r.chunks[0] = r.chunks[0][n:]
	}
	if r.eofWithLast && len(r.chunks) == 0 {
		return n, io.EOF
	}
	return n, nil
}

func mkMsg(v, d, body, c []byte) []byte {
	var b bytes.Buffer
	b.WriteString("8=")
	b.Write(v)
	b.WriteString("\x019=")
	b.Write(d)
	b.WriteString("\x01")
	b.Write(body)
	b.WriteString("\x0110=")
	b.Write(c)
	b.WriteString("\x01")
	return b.Bytes()
}

func streamOf(pieces List) []byte {
	var s []byte
	for _, p := range pieces {
		l := p.(List)
		switch AtomSym(l[0]) {
		case "g", "raw":
			s = append(s, AtomBytes(l[1])...)
		case "m":
			s = append(s, mkMsg(AtomBytes(l[1]), AtomBytes(l[2]), AtomBytes(l[3]), AtomBytes(l[4]))...)
		default:
			panic("framer: unknown piece " + SxString(p))
		}
	}
	return s
}

func cut(part Sx, s []byte) [][]byte {
	l := part.(List)
	var out [][]byte
	switch AtomSym(l[0]) {
	case "rep", "rep-eof":
		k := AtomInt(l[1])
		for len(s) > 0 {
			n := k
			if n > len(s) {
				n = len(s)
			}
			out = append(out, s[:n])
			s = s[n:]
		}
	case "sizes", "sizes-eof":
		for _, x := range l[1:] {
			if len(s) == 0 {
				break
			}
			n := AtomInt(x)
			if n == 0 {
				continue
			}
			if n > len(s) {
				n = len(s)
			}
			out = append(out, s[:n])
			s = s[n:]
		}
		if len(s) > 0 {
			out = append(out, s)
		}
	default:
		panic("framer: unknown partition " + SxString(part))
	}
	return out
}

func errClass(err error) string {
	if err == io.EOF {
		return "eof"
	}
	switch err.Error() {
	case "No length given":
		return "nolen"
	case "Invalid length":
		return "invlen"
	case "empty bytes":
		return "empty"
	case "invalid format":
		return "format"
	case "value out of range":
		return "range"
	}
	return "other"
}

func runPartition(chunks [][]byte, total int, eofWithLast bool) Sx {
	// private copies: the parser must not see the harness's slices change, nor we the parser's buffer
	cs := make([][]byte, len(chunks))
	for i, c := range chunks {
		cs[i] = append([]byte(nil), c...)
	}
	// The frames are held as the parser returned them and looked at only when the stream has ended, the way the read loop
	// hands them to a channel that the session empties later: a frame must stay what it was while the parser reads on.
	var held []*bytes.Buffer
	r := Guard(func() Sx {
		p := quickfix.VerifNewParser(&chunkReader{chunks: cs, eofWithLast: eofWithLast})
		for i := 0; i <= total+1; i++ {
			m, err := p.ReadMessageBuffer()
			if err != nil {
				return Sym(errClass(err))
			}
			held = append(held, m)
		}
		return Sym("fuel")
	})
	if AtomSym(r) == "fuel" {
		return L(List{}, r) // still running: its frame list must not be read
	}
	frames := List{}
	for _, m := range held {
		frames = append(frames, Bytes(m.Bytes()))
	}
	return L(frames, r)
}

func runFramer(in Sx) Sx {
	l := in.(List)
	s := streamOf(l[1].(List)[1:])
	parts := l[2].(List)[1:]
	out := List{}
	for _, part := range parts {
		kind := AtomSym(part.(List)[0])
		out = append(out, runPartition(cut(part, s), len(s), kind == "rep-eof" || kind == "sizes-eof"))
	}
	return out
}

// ---------------------------------------------------------------- generator

const bufSize = 4096

func randField(c *Ctx, n int) []byte {
	// tag=value of about n bytes, SOH-free value, over an alphabet that contains the parser's marker characters
	alpha := []byte("8=9=10=abcXYZ 0123456789.-|8=")
	tag := strconv.Itoa(11 + c.Rng.Intn(900))
	b := []byte(tag + "=")
	for len(b) < n {
		b = append(b, alpha[c.Rng.Intn(len(alpha))])
	}
	return b
}

// body without its final SOH, about n bytes
func randBody(c *Ctx, n int) []byte {
	b := []byte("35=" + string("0ADFG8"[c.Rng.Intn(6)]))
	for len(b) < n {
		b = append(b, 1)
		switch c.Rng.Intn(12) {
		case 0:
			b = append(b, []byte("10=123")...) // a checksum look-alike inside the body
		case 1:
			b = append(b, []byte("9=7")...) // a length look-alike
		case 2:
			b = append(b, []byte("58=8=FIX.4.2")...) // a begin marker inside
		default:
			k := 4 + c.Rng.Intn(30)
			if n > 1000 && c.Rng.Intn(4) == 0 {
				k = 200 + c.Rng.Intn(1500)
			}
			b = append(b, randField(c, k)...)
		}
	}
	return b
}

// allowBig: whether the stream being generated may contain messages / garbage around and above the buffer size
// (a fifth of the streams: the list-based model is slow on them)
var allowBig bool

func bodySize(c *Ctx) int {
	if !allowBig {
		return 5 + c.Rng.Intn(400)
	}
	switch r := c.Rng.Intn(100); {
	case r < 50:
		return 5 + c.Rng.Intn(200)
	case r < 65:
		return 200 + c.Rng.Intn(2000)
	case r < 80:
		return bufSize - 60 + c.Rng.Intn(120) // around the buffer size
	case r < 92:
		return bufSize + c.Rng.Intn(bufSize)
	default:
		return 2*bufSize + c.Rng.Intn(bufSize)
	}
}

func goodLen(c *Ctx, n int) []byte {
	d := strconv.Itoa(n)
	switch c.Rng.Intn(12) {
	case 0:
		d = "000" + d
	case 1:
		for len(d) < 19+c.Rng.Intn(4) { // the long path of atoi
			d = "0" + d
		}
	}
	return []byte(d)
}

func goodMsg(c *Ctx) Sx {
	v := []string{"FIX.4.2", "FIX.4.4", "FIXT.1.1", "FIX.4.0", "F", "", "8", "FIX=9"}[c.Rng.Intn(8)]
	body := randBody(c, bodySize(c))
	ck := []string{"000", "123", "255", "7", "", "0x10=1"}[c.Rng.Intn(6)]
	if c.Rng.Intn(4) != 0 {
		ck = strconv.Itoa(1000 + c.Rng.Intn(256))[1:]
	}
	return L(Sym("m"), Str(v), Bytes(goodLen(c, len(body)+1)), Bytes(body), Str(ck))
}

func badMsg(c *Ctx) Sx {
	body := randBody(c, 5+c.Rng.Intn(300))
	n := len(body) + 1
	ds := []string{"", "0", "-5", "-0", "abc", "12x", "1 2", "+7", "999999999999999999", "9223372036854775807",
		"9223372036854775800", "9223372036854775808", "99999999999999999999999", "-9223372036854775808",
		"00000000000000000000", "-00000000000000000001", "18446744073709551617",
		strconv.Itoa(n - 1 - c.Rng.Intn(4)), strconv.Itoa(n + 1 + c.Rng.Intn(9)), strconv.Itoa(n + 4000 + c.Rng.Intn(9000)),
		strconv.Itoa(9223372036854775807 - c.Rng.Intn(60))}
	d := ds[c.Rng.Intn(len(ds))]
	if c.Rng.Intn(2) == 0 {
		// a length that misses the trailer by a few bytes: the jump lands just before, inside or just after "SOH 10="
		d = strconv.Itoa(n + []int{-4, -3, -2, -1, 1, 2, 3, 4, 5, 6}[c.Rng.Intn(10)])
	}
	return L(Sym("m"), Str("FIX.4.2"), Str(d), Bytes(body), Str("000"))
}

// bytes between messages; withMarker: may contain "8="
func garbage(c *Ctx, withMarker bool) []byte {
	var n int
	switch r := c.Rng.Intn(100); {
	case r < 50:
		n = 0
	case r < 90:
		n = 1 + c.Rng.Intn(40)
	case r < 95:
		n = 100 + c.Rng.Intn(3000)
	default:
		n = bufSize + c.Rng.Intn(bufSize)
	}
	if !allowBig && n > 100 {
		n = 40 + c.Rng.Intn(60)
	}
	alpha := []byte("8=9=10=\x01\x01 abcFIX.42\n\x00\xff8")
	g := make([]byte, n)
	for i := range g {
		g[i] = alpha[c.Rng.Intn(len(alpha))]
		if !withMarker && i > 0 && g[i-1] == '8' && g[i] == '=' {
			g[i] = '-'
		}
	}
	if withMarker && n >= 2 {
		i := c.Rng.Intn(n - 1)
		g[i], g[i+1] = '8', '='
	}
	if n > 0 && c.Rng.Intn(4) == 0 {
		g[n-1] = '8' // a lone "8" right in front of the next message / at the end of the stream
		if !withMarker && n > 1 && g[n-2] == '8' {
			g[n-2] = 'x'
		}
	}
	return g
}

func markerCuts(s []byte) []int {
	// cut points in the middle of every "8=", "9=", "10=" and right behind every SOH-less "10"
	var cuts []int
	for i := 0; i+1 < len(s); i++ {
		if (s[i] == '8' || s[i] == '9') && s[i+1] == '=' {
			cuts = append(cuts, i+1)
		}
		if s[i] == '1' && s[i+1] == '0' {
			cuts = append(cuts, i+1, i+2)
		}
		if s[i] == 1 && (s[i+1] == '9' || s[i+1] == '1') {
			cuts = append(cuts, i+1)
		}
	}
	return cuts
}

func sizesOfCuts(cuts []int) Sx {
	l := List{Sym("sizes")}
	prev := 0
	for _, x := range cuts {
		if x > prev {
			l = append(l, Int(x-prev))
			prev = x
		}
	}
	return l
}

func randSizes(c *Ctx, total, max int) Sx {
	l := List{Sym("sizes")}
	for sum := 0; sum < total; {
		k := 1 + c.Rng.Intn(max)
		l = append(l, Int(k))
		sum += k
	}
	return l
}

func partitions(c *Ctx, s []byte) Sx {
	n := len(s)
	small := 1
	limit := 1500
	if c.Tier == "thorough" {
		limit = 9000
	}
	if n > limit {
		small = 24 + c.Rng.Intn(100) // the model is quadratic on 1-byte reads; long streams get short reads instead
	}
	lo := 1
	cuts := markerCuts(s)
	if n > limit {
		// long streams: average read of 32 bytes or more
		lo = 64
		var kept []int
		for _, x := range cuts {
			if c.Rng.Intn(n) < limit/3 {
				kept = append(kept, x)
			}
		}
		cuts = kept
	}
	big := List{Sym("sizes"), Int(c.Rng.Intn(100)), Int(bufSize + 1 + c.Rng.Intn(2*bufSize))}
	var medium Sx
	if n > limit {
		medium = randSizes(c, n, 64+c.Rng.Intn(600))
	} else {
		medium = randSizes(c, n, 1+c.Rng.Intn(16))
	}
	return L(Sym("parts"),
		L(Sym("sizes")),           // one Read delivers everything the buffer takes
		L(Sym("rep"), Int(small)), // byte by byte
		medium,
		randSizes(c, n, lo+c.Rng.Intn(700)),
		sizesOfCuts(cuts), // split inside 8= 9= 10=
		big,               // one chunk larger than the buffer
		L(Sym("rep"), Int([]int{bufSize, bufSize - 1, bufSize + 1, bufSize / 2, 2 * bufSize, 1000}[c.Rng.Intn(6)])),
		randSizes(c, n, 1+c.Rng.Intn(3*bufSize)),
		withEOF(medium),
		withEOF(sizesOfCuts(cuts)),
		lastCut(c, n), // one cut near the end, the second Read returns the rest together with io.EOF
	)
}

func withEOF(part Sx) Sx {
	l := append(List{}, part.(List)...)
	l[0] = Sym(AtomSym(l[0]) + "-eof")
	return l
}

func lastCut(c *Ctx, n int) Sx {
	back := 1 + c.Rng.Intn(300)
	if back >= n {
		back = n / 2
	}
	return L(Sym("sizes-eof"), Int(n-back))
}

func genFramer(c *Ctx) {
	emit := func(pieces List) {
		s := streamOf(pieces)
		in := L(Sym("stream"), append(List{Sym("pieces")}, pieces...), partitions(c, s))
		c.Pending(in); c.Emit(in, runFramer(in))
	}
	// fixed small cases first
	emit(List{})
	emit(List{L(Sym("g"), Str("8"))})
	emit(List{L(Sym("raw"), Str("8="))})
	emit(List{L(Sym("raw"), Str("8=FIX.4.2\x019=\x01"))})
	emit(List{L(Sym("raw"), Str("8=FIX.4.2\x019=12"))})
	emit(List{L(Sym("raw"), Str("8=FIX.4.2\x019"))})
	emit(List{L(Sym("raw"), Str("8=FIX.4.2\x019=12\x01"))})
	emit(List{L(Sym("raw"), Str("8=FIX.4.2\x019=9223372036854775807\x0135=0\x0110=000\x01"))})
	emit(List{L(Sym("raw"), Str("8=FIX.4.2\x019=5\x0135=0\x0110=000"))})
	emit(List{L(Sym("g"), Str("")), L(Sym("m"), Str("FIX.4.2"), Str("5"), Str("35=0"), Str("000")), L(Sym("g"), Str(""))})
	for i := 0; i < c.N; i++ {
		kind := c.Rng.Intn(100)
		nmsg := 1 + c.Rng.Intn(6)
		allowBig = c.Rng.Intn(5) == 0
		var pieces List
		switch {
		case kind < 55: // well-formed: g m g m ... g
			pieces = append(pieces, L(Sym("g"), Bytes(garbage(c, false))))
			for k := 0; k < nmsg; k++ {
				pieces = append(pieces, goodMsg(c), L(Sym("g"), Bytes(garbage(c, false))))
			}
		case kind < 70: // garbage may contain a begin marker
			pieces = append(pieces, L(Sym("g"), Bytes(garbage(c, c.Rng.Intn(2) == 0))))
			for k := 0; k < nmsg; k++ {
				pieces = append(pieces, goodMsg(c), L(Sym("g"), Bytes(garbage(c, c.Rng.Intn(2) == 0))))
			}
		case kind < 85: // one message with a bad / negative / huge / wrong length among good ones
			bad := c.Rng.Intn(nmsg)
			pieces = append(pieces, L(Sym("g"), Bytes(garbage(c, false))))
			for k := 0; k < nmsg; k++ {
				if k == bad {
					pieces = append(pieces, badMsg(c))
				} else {
					pieces = append(pieces, goodMsg(c))
				}
				pieces = append(pieces, L(Sym("g"), Bytes(garbage(c, false))))
			}
		default: // truncation of a well-formed stream
			var ps List
			ps = append(ps, L(Sym("g"), Bytes(garbage(c, false))))
			for k := 0; k < nmsg; k++ {
				ps = append(ps, goodMsg(c), L(Sym("g"), Bytes(garbage(c, false))))
			}
			s := streamOf(ps)
			cutAt := c.Rng.Intn(len(s) + 1)
			switch c.Rng.Intn(3) {
			case 0:
				if len(s) > 40 {
					cutAt = len(s) - c.Rng.Intn(40) // near the end: inside the trailer
				}
			case 1: // inside the header of some message: in 8=, in the 9= tag, in the length digits
				if i := bytes.LastIndex(s[:cutAt], []byte("8=")); i >= 0 {
					cutAt = i + c.Rng.Intn(18)
					if cutAt > len(s) {
						cutAt = len(s)
					}
				}
			}
			pieces = List{L(Sym("raw"), Bytes(s[:cutAt]))}
		}
		emit(pieces)
	}
}
