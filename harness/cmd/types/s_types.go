package main

// Stream `types` (C14, C09): FIX value types.

import (
	"math"

	"github.com/quickfixgo/quickfix"

	. "qfverif/hx"
)

func main() { Main() }

func init() {
	Register("types", &Stream{Gen: genTypes, Run: runTypes})
}

func runTypes(in Sx) Sx {
	l := in.(List)
	switch AtomSym(l[0]) {
	case "int-read":
		b := AtomBytes(l[1])
		return Guard(func() Sx {
			var v quickfix.FIXInt
			if err := v.Read(b); err != nil {
				return ErrV()
			}
			return OkV(Int(int(v)))
		})
	case "int-write":
		n := AtomInt64(l[1])
		return Guard(func() Sx { return Bytes(quickfix.FIXInt(n).Write()) })
	case "bool-read":
		b := AtomBytes(l[1])
		return Guard(func() Sx {
			var v quickfix.FIXBoolean
			if err := v.Read(b); err != nil {
				return ErrV()
			}
			return OkV(Bool(bool(v)))
		})
	case "bool-write":
		return Guard(func() Sx { return Bytes(quickfix.FIXBoolean(AtomBool(l[1])).Write()) })
	}
	panic("types: unknown op " + SxString(in))
}

// all strings over alphabet up to length maxLen
func enumStrings(alphabet []byte, maxLen int, f func([]byte)) {
	var rec func(prefix []byte, k int)
	rec = func(prefix []byte, k int) {
		f(append([]byte(nil), prefix...))
		if k == 0 {
			return
		}
		for _, c := range alphabet {
			rec(append(prefix, c), k-1)
		}
	}
	rec(nil, maxLen)
}

func genTypes(c *Ctx) {
	run := func(in Sx) { c.Emit(in, runTypes(in)) }
	// ints: exhaustive short strings over digits + near-miss characters
	intAlpha := []byte("0159-+. eE_x,")
	maxLen := 3
	if c.Tier == "thorough" {
		maxLen = 5
	}
	enumStrings(intAlpha, maxLen, func(s []byte) { run(L(Sym("int-read"), Bytes(s))) })
	// boundary integers, as text
	for _, s := range []string{"9223372036854775807", "9223372036854775808", "-9223372036854775808", "-9223372036854775809",
		"18446744073709551616", "99999999999999999999999", "000000000000000000000000000001", "-0", "00", "-00012"} {
		run(L(Sym("int-read"), Str(s)))
	}
	for i := 0; i < c.N; i++ {
		// random digit strings of random length, with an occasional defect
		n := 1 + c.Rng.Intn(24)
		s := make([]byte, n)
		for j := range s {
			s[j] = byte('0' + c.Rng.Intn(10))
		}
		if c.Rng.Intn(3) == 0 {
			s[0] = '-'
		}
		if c.Rng.Intn(5) == 0 {
			s[c.Rng.Intn(n)] = intAlpha[c.Rng.Intn(len(intAlpha))]
		}
		run(L(Sym("int-read"), Bytes(s)))
	}
	for _, v := range []int64{0, 1, -1, 9, 10, -10, 99, 100, math.MaxInt64, math.MinInt64, math.MaxInt64 - 1, math.MinInt64 + 1, 1 << 31, -(1 << 31), 1 << 32} {
		run(L(Sym("int-write"), Int64(v)))
	}
	for i := 0; i < c.N; i++ {
		v := c.Rng.Int63() >> uint(c.Rng.Intn(63))
		if c.Rng.Intn(2) == 0 {
			v = -v
		}
		run(L(Sym("int-write"), Int64(v)))
	}
	// bools
	enumStrings([]byte("YNyn01 "), 2, func(s []byte) { run(L(Sym("bool-read"), Bytes(s))) })
	run(L(Sym("bool-write"), Bool(true)))
	run(L(Sym("bool-write"), Bool(false)))
}
