package main

// Stream `types` (C14, C09): FIX value types.
//
// Ops (input -> observation):
//   (int-read  bytes)            -> (ok v rewrite) | err          rewrite = Write of the value read
//   (int-write n)                -> (text reread)                 reread  = Read of the text written
//   (bool-read bytes) / (bool-write b)                            same shapes
//   (ts-read   bytes)            -> (ok sec nsec prec rewrite) | err
//   (ts-write  sec nsec prec [zone-offset-seconds]) -> (text reread)
//   (float-read bytes)           -> ok | err                      float values are never reported
//   (float-write neg digits dp)  -> (text T|F)                    v = 0.digits * 10^dp (shortest digits); T: Read(Write(v)) == v
//   (float-canon bytes)          -> T | F | err                   Write(Read(s)) == s
//   (str-rt bytes) (bytes-rt bytes) -> (ok read write)
//   (dec-read  bytes scale)      -> (ok coef exp text reread) | (ok coef exp) when |exp| > 1000 | err
//   (dec-write coef exp scale)   -> (text reread)
//   (udec-read bytes scale)      -> (ok string prec text rereadstring) | err

import (
	"bytes"
	"math"
	"math/big"
	"strconv"
	"strings"
	"time"

	"github.com/quickfixgo/quickfix"
	"github.com/shopspring/decimal"

	. "qfverif/hx"
)

func main() { Main() }

func init() {
	Register("types", &Stream{Gen: genTypes, Run: runTypes})
}

func bigAtom(x Sx) *big.Int {
	n, ok := new(big.Int).SetString(AtomSym(x), 10)
	if !ok {
		panic("bad integer atom")
	}
	return n
}

func tsObs(f quickfix.FIXUTCTimestamp, rest ...Sx) Sx {
	l := List{Sym("ok"), Int64(f.Time.Unix()), Int(f.Time.Nanosecond()), Int(int(f.Precision))}
	return append(l, rest...)
}

func decObs(d decimal.Decimal, rest ...Sx) Sx {
	l := List{Sym("ok"), Sym(d.Coefficient().String()), Int(int(d.Exponent()))}
	return append(l, rest...)
}

func decWritePart(d decimal.Decimal, scale int32) []Sx {
	w := quickfix.FIXDecimal{Decimal: d, Scale: scale}.Write()
	var r quickfix.FIXDecimal
	if err := r.Read(w); err != nil {
		return []Sx{Bytes(w), ErrV()}
	}
	return []Sx{Bytes(w), decObs(r.Decimal)}
}

func floatOfDigits(neg bool, digs []byte, dp int) float64 {
	s := "0." + string(digs) + "e" + strconv.Itoa(dp)
	if len(digs) == 0 {
		s = "0"
	}
	if neg {
		s = "-" + s
	}
	v, err := strconv.ParseFloat(s, 64)
	if err != nil {
		panic(err)
	}
	return v
}

// usedReceiver > 0: every Read goes into a receiver that already holds an earlier value (variant 1 or 2) instead of a new
// variable. Read overwrites its receiver, so what it yields must not depend on what the receiver held.
var usedReceiver int

func runTypes(in Sx) Sx {
	usedReceiver = 0
	fresh := runTypesOnce(in)
	for v := 1; v <= 2; v++ {
		usedReceiver = v
		again := runTypesOnce(in)
		usedReceiver = 0
		if SxString(again) != SxString(fresh) {
			return L(Sym("reused"), again)
		}
	}
	return fresh
}

func recvInt() quickfix.FIXInt {
	return quickfix.FIXInt([]int{0, 987654, -3}[usedReceiver])
}
func recvBool() quickfix.FIXBoolean { return quickfix.FIXBoolean(usedReceiver == 1) }
func recvTS() quickfix.FIXUTCTimestamp {
	switch usedReceiver {
	case 1:
		return quickfix.FIXUTCTimestamp{Time: time.Unix(1455055636, 123456789).UTC(), Precision: quickfix.Nanos}
	case 2:
		return quickfix.FIXUTCTimestamp{Time: time.Unix(1455055636, 0).UTC(), Precision: quickfix.Seconds}
	}
	return quickfix.FIXUTCTimestamp{}
}
func recvFloat() quickfix.FIXFloat   { return quickfix.FIXFloat([]float64{0, 3.25, -1e9}[usedReceiver]) }
func recvString() quickfix.FIXString { return quickfix.FIXString([]string{"", "earlier", "x"}[usedReceiver]) }
func recvBytes() quickfix.FIXBytes {
	return quickfix.FIXBytes([][]byte{nil, []byte("earlier"), {1, 2}}[usedReceiver])
}
func recvDec() quickfix.FIXDecimal {
	if usedReceiver == 0 {
		return quickfix.FIXDecimal{}
	}
	return quickfix.FIXDecimal{Decimal: decimal.New(int64(12345*usedReceiver), -3), Scale: int32(usedReceiver)}
}
func recvUDec() quickfix.FIXUDecimal {
	var v quickfix.FIXUDecimal
	if usedReceiver > 0 {
		_ = v.Read([]byte([]string{"", "12.345", "7"}[usedReceiver]))
		v.Scale = uint8(usedReceiver)
	}
	return v
}

// readThenOverwrite: Read from a private copy of the text and overwrite that copy before the value is looked at: a value
// read from a buffer must not change when the buffer is used again (FIXBytes is the one type that is a view by design).
func readThenOverwrite(v interface{ Read([]byte) error }, b []byte) error {
	src := append([]byte(nil), b...)
	err := v.Read(src)
	for i := range src {
		src[i] = 'X'
	}
	return err
}

func runTypesOnce(in Sx) Sx {
	l := in.(List)
	switch AtomSym(l[0]) {
	case "int-read":
		b := AtomBytes(l[1])
		return Guard(func() Sx {
			v := recvInt()
			if err := readThenOverwrite(&v, b); err != nil {
				return ErrV()
			}
			return L(Sym("ok"), Int(int(v)), Bytes(v.Write()))
		})
	case "int-write":
		n := AtomInt64(l[1])
		return Guard(func() Sx {
			w := quickfix.FIXInt(n).Write()
			v := recvInt()
			if err := readThenOverwrite(&v, w); err != nil {
				return L(Bytes(w), ErrV())
			}
			return L(Bytes(w), OkV(Int(int(v))))
		})
	case "bool-read":
		b := AtomBytes(l[1])
		return Guard(func() Sx {
			v := recvBool()
			if err := readThenOverwrite(&v, b); err != nil {
				return ErrV()
			}
			return L(Sym("ok"), Bool(bool(v)), Bytes(v.Write()))
		})
	case "bool-write":
		return Guard(func() Sx {
			w := quickfix.FIXBoolean(AtomBool(l[1])).Write()
			v := recvBool()
			if err := readThenOverwrite(&v, w); err != nil {
				return L(Bytes(w), ErrV())
			}
			return L(Bytes(w), OkV(Bool(bool(v))))
		})
	case "ts-read":
		b := AtomBytes(l[1])
		return Guard(func() Sx {
			f := recvTS()
			if err := readThenOverwrite(&f, b); err != nil {
				return ErrV()
			}
			return tsObs(f, Bytes(f.Write()))
		})
	case "ts-write":
		sec, ns, p := AtomInt64(l[1]), AtomInt64(l[2]), AtomInt(l[3])
		return Guard(func() Sx {
			tm := time.Unix(sec, ns)
			if len(l) > 4 { // the same instant carried in a fixed-offset zone: the written text must not depend on it
				tm = tm.In(time.FixedZone("z", AtomInt(l[4])))
			}
			f := quickfix.FIXUTCTimestamp{Time: tm, Precision: quickfix.TimestampPrecision(p)}
			w := f.Write()
			r := recvTS()
			if err := readThenOverwrite(&r, w); err != nil {
				return L(Bytes(w), ErrV())
			}
			return L(Bytes(w), tsObs(r))
		})
	case "float-read":
		b := AtomBytes(l[1])
		return Guard(func() Sx {
			v := recvFloat()
			if err := readThenOverwrite(&v, b); err != nil {
				return ErrV()
			}
			return Sym("ok")
		})
	case "float-write":
		neg, digs, dp := AtomBool(l[1]), AtomBytes(l[2]), AtomInt(l[3])
		return Guard(func() Sx {
			v := floatOfDigits(neg, digs, dp)
			w := quickfix.FIXFloat(v).Write()
			r := recvFloat()
			same := false
			if err := readThenOverwrite(&r, w); err == nil {
				same = math.Float64bits(float64(r)) == math.Float64bits(v)
			}
			return L(Bytes(w), Bool(same))
		})
	case "float-canon":
		b := AtomBytes(l[1])
		return Guard(func() Sx {
			v := recvFloat()
			if err := readThenOverwrite(&v, b); err != nil {
				return ErrV()
			}
			return Bool(bytes.Equal(v.Write(), b))
		})
	case "str-rt":
		b := AtomBytes(l[1])
		return Guard(func() Sx {
			v := recvString()
			if err := readThenOverwrite(&v, b); err != nil {
				return ErrV()
			}
			return L(Sym("ok"), Str(string(v)), Bytes(v.Write()))
		})
	case "bytes-rt":
		b := AtomBytes(l[1])
		return Guard(func() Sx {
			v := recvBytes()
			if err := v.Read(b); err != nil {
				return ErrV()
			}
			return L(Sym("ok"), Bytes([]byte(v)), Bytes(v.Write()))
		})
	case "dec-read":
		b, scale := AtomBytes(l[1]), AtomInt(l[2])
		return Guard(func() Sx {
			v := recvDec()
			if err := readThenOverwrite(&v, b); err != nil {
				return ErrV()
			}
			if e := v.Decimal.Exponent(); e > 1000 || e < -1000 {
				return decObs(v.Decimal) // Write would compute 10^|e|: not exercised
			}
			return decObs(v.Decimal, decWritePart(v.Decimal, int32(scale))...)
		})
	case "dec-write":
		coef, exp, scale := bigAtom(l[1]), AtomInt(l[2]), AtomInt(l[3])
		return Guard(func() Sx {
			return L(decWritePart(decimal.NewFromBigInt(coef, int32(exp)), int32(scale))...)
		})
	case "udec-read":
		b, scale := AtomBytes(l[1]), AtomInt(l[2])
		return Guard(func() Sx {
			v := recvUDec()
			if err := readThenOverwrite(&v, b); err != nil {
				return ErrV()
			}
			v.Scale = uint8(scale)
			w := v.Write()
			r := recvUDec()
			var rr Sx = ErrV()
			if err := readThenOverwrite(&r, w); err == nil {
				rr = Str(r.Decimal.String())
			}
			return L(Sym("ok"), Str(v.Decimal.String()), Int(v.Decimal.Prec()), Bytes(w), rr)
		})
	}
	panic("types: unknown op " + SxString(in))
}

// all strings over alphabet up to length maxLen
func enumStrings(alphabet []byte, maxLen int, f func([]byte)) {
	var rec func(prefix []byte, k int)
	rec = func(prefix []byte, k int) {
		f(append([]byte(nil), prefix...))
		if k == 0 {
			return
		}
		for _, c := range alphabet {
			rec(append(prefix, c), k-1)
		}
	}
	rec(nil, maxLen)
}

const nearMiss = "+-.,eE_x :"

type gen struct {
	c   *Ctx
	run func(in Sx)
}

func (g *gen) thorough() bool { return g.c.Tier == "thorough" }
func (g *gen) intn(n int) int  { return g.c.Rng.Intn(n) }

func (g *gen) digits(n int) []byte {
	s := make([]byte, n)
	for j := range s {
		s[j] = byte('0' + g.intn(10))
	}
	return s
}

func genTypes(c *Ctx) {
	g := &gen{c: c, run: func(in Sx) { c.Pending(in); c.Emit(in, runTypes(in)) }}
	g.ints()
	g.bools()
	g.timestamps()
	g.floats()
	g.strings()
	g.decimals()
	g.udecimals()
}

func (g *gen) ints() {
	run, c := g.run, g.c
	// exhaustive short strings over digits + near-miss characters
	intAlpha := []byte("0159" + nearMiss)
	maxLen := 4
	if g.thorough() {
		maxLen = 5
	}
	enumStrings(intAlpha, maxLen, func(s []byte) { run(L(Sym("int-read"), Bytes(s))) })
	// boundary integers, as text
	for _, s := range []string{"9223372036854775807", "9223372036854775808", "-9223372036854775808", "-9223372036854775809",
		"18446744073709551616", "99999999999999999999999", "000000000000000000000000000001", "-0", "00", "-00012",
		"999999999999999999", "-999999999999999999", "1000000000000000000", "-1000000000000000000", "0999999999999999999",
		"-000000000000000000", "0000000000000000000", "-9223372036854775808x", "+9223372036854775807", "-", "--1",
		"9223372036854775807 ", " 9223372036854775807", "00000000009223372036854775807", "00000000009223372036854775808",
		"-00000000009223372036854775808", "-00000000009223372036854775809", "1234567890123456789-", "12345678901234567890123-"} {
		run(L(Sym("int-read"), Str(s)))
	}
	for i := 0; i < c.N; i++ {
		// random digit strings of random length, with an occasional defect
		n := 1 + g.intn(24)
		s := g.digits(n)
		if g.intn(3) == 0 {
			s[0] = '-'
		}
		if g.intn(5) == 0 {
			s[g.intn(n)] = intAlpha[g.intn(len(intAlpha))]
		}
		run(L(Sym("int-read"), Bytes(s)))
	}
	for i := 0; i < c.N/4; i++ {
		// texts around the int64 boundary: 19 digits near 2^63
		v := new(big.Int).Add(new(big.Int).Lsh(big.NewInt(1), 63), big.NewInt(int64(g.intn(41)-20)))
		s := v.String()
		if g.intn(2) == 0 {
			s = "-" + s
		}
		run(L(Sym("int-read"), Str(s)))
	}
	for _, v := range []int64{0, 1, -1, 9, 10, -10, 99, 100, math.MaxInt64, math.MinInt64, math.MaxInt64 - 1, math.MinInt64 + 1, 1 << 31, -(1 << 31), 1 << 32,
		999999999999999999, 1000000000000000000, -999999999999999999, -1000000000000000000} {
		run(L(Sym("int-write"), Int64(v)))
	}
	for i := 0; i < c.N; i++ {
		v := c.Rng.Int63() >> uint(g.intn(63))
		if g.intn(2) == 0 {
			v = -v
		}
		run(L(Sym("int-write"), Int64(v)))
	}
}

func (g *gen) bools() {
	enumStrings([]byte("YNyn01 TF"), 2, func(s []byte) { g.run(L(Sym("bool-read"), Bytes(s))) })
	for _, s := range []string{"YES", "NO", "true", "false", "Y\x00", "\x00"} {
		g.run(L(Sym("bool-read"), Str(s)))
	}
	g.run(L(Sym("bool-write"), Bool(true)))
	g.run(L(Sym("bool-write"), Bool(false)))
}

var tsSeeds = []string{
	"20060102-15:04:05.123456789", "00000101-00:00:00.000000000", "99991231-23:59:59.999999999",
	"20040229-12:30:45.500000000", "19000228-09:09:09.090909090", "20000229-00:59:59.000000001", "20231130-23:00:00.987654321",
}

var tsLens = []int{17, 21, 24, 27}

func (g *gen) timestamps() {
	run, c := g.run, g.c
	rd := func(s []byte) { run(L(Sym("ts-read"), Bytes(s))) }
	mut := []byte("0123456789" + nearMiss + "Z")
	// per-position mutation of valid texts of the four lengths: every position, every mutation character
	nseeds := 2
	if g.thorough() {
		nseeds = len(tsSeeds)
	}
	for _, seed := range tsSeeds[:nseeds] {
		for _, n := range tsLens {
			base := []byte(seed[:n])
			rd(base)
			for i := 0; i < n; i++ {
				for _, m := range mut {
					s := append([]byte(nil), base...)
					s[i] = m
					rd(s)
				}
			}
		}
	}
	// pairwise-position mutation: all position pairs, characters drawn from a smaller set (quick) / the full set (thorough)
	pairMut := []byte("09-+.,: ")
	if g.thorough() {
		pairMut = mut
	}
	for _, n := range tsLens {
		base := []byte(tsSeeds[0][:n])
		for i := 0; i < n; i++ {
			for j := i + 1; j < n; j++ {
				for _, a := range pairMut {
					for _, b := range pairMut {
						if !g.thorough() && g.intn(4) != 0 && !(i >= 15 || j >= 15) {
							continue // quick: sample a quarter of the pairs in front of the seconds field
						}
						s := append([]byte(nil), base...)
						s[i], s[j] = a, b
						rd(s)
					}
				}
			}
		}
	}
	// field ranges: every month/day combination for leap / non-leap / century years, every hour, minute, second value 00..99
	for _, y := range []string{"2023", "2024", "1900", "2000", "0000", "0001", "0004", "0100", "0400", "9999"} {
		for mo := 0; mo <= 13; mo++ {
			for d := 0; d <= 32; d++ {
				rd([]byte(y + two(mo) + two(d) + "-00:00:00"))
			}
		}
	}
	for v := 0; v < 100; v++ {
		rd([]byte("20060102-" + two(v) + ":04:05"))
		rd([]byte("20060102-15:" + two(v) + ":05.000"))
		rd([]byte("20060102-15:04:" + two(v) + ".000000"))
		rd([]byte("20060102-15:04:" + two(v)))
	}
	// wrong lengths: drop / insert a character anywhere, truncate, extend
	for _, n := range tsLens {
		base := []byte(tsSeeds[0][:n])
		for i := 0; i <= n; i++ {
			rd(append(append([]byte(nil), base[:i]...), base[min(i+1, n):]...))
			for _, m := range []byte("0 .-") {
				s := append(append(append([]byte(nil), base[:i]...), m), base[i:]...)
				rd(s)
			}
		}
	}
	for n := 0; n <= 32; n++ {
		rd([]byte(("20060102-15:04:05.1234567890123456")[:n]))
	}
	for _, s := range []string{"20060102-5:04:05.0000", "20060102-5:04:05.000", "2006012-15:04:05.000", "20060102-15:04:05,000", "20060102-15:04:05.+12",
		"20060102-15:04:05.-00", "20060102-15:04:05.-01", "20060102-15:04:05.+12345", "20060102-15:04:05.-00000", "20060102-15:04:05.+12345678",
		"20060102-15:04:05.-00000000", "20060102-15:04:05.1 3", "20060102-15:04:05. 13", "+2006102-15:04:05", "-2006102-15:04:05", "20060102 15:04:05",
		"20060102T15:04:05", "20060102-15.04.05", "20060102-15:04:5.0000", "20060102-15:4:05.0000", "2006-01-02 15:04:0", "20060102-15:04:05Z",
		"20060102-15:04:05.000Z", "20060230-00:00:00", "20060431-00:00:00", "20060631-00:00:00", "20060931-00:00:00", "20061131-00:00:00",
		"20061231-23:59:60", "20160630-23:59:60.000", "20060102-24:00:00", "20060102-23:60:00"} {
		rd([]byte(s))
	}
	// random valid texts and random mutations of them
	for i := 0; i < c.N; i++ {
		t := g.randTime()
		n := tsLens[g.intn(4)]
		s := []byte(t.Format("20060102-15:04:05.000000000")[:n])
		k := g.intn(4) // 0: valid, 1..3: that many random mutations
		for ; k > 0; k-- {
			s[g.intn(len(s))] = mut[g.intn(len(mut))]
		}
		rd(s)
	}
	// writes: boundary instants and random instants at each precision (and an undefined precision)
	wr := func(sec, ns int64, p int) {
		run(L(Sym("ts-write"), Int64(sec), Int64(ns), Int(p)))
		if g.intn(3) == 0 { // the instant held in a non-UTC location
			off := []int{19800, -28800, 3600, -3600, 50400, -43200, 1, -1, 12345}[g.intn(9)]
			run(L(Sym("ts-write"), Int64(sec), Int64(ns), Int(p), Int(off)))
		}
	}
	for _, sec := range []int64{0, -1, 1, 86399, 86400, -86400, -86401, 951782400, 951868799, 951868800, 1078012800, 4107542400,
		-62167219200, -62167219201, 253402300799, 253402300800, -62135596800, -2208988800, 1136214245, 68169600 + 31535999, -30610224000} {
		for p := 0; p < 4; p++ {
			for _, ns := range []int64{0, 1, 999, 1000, 999999, 1000000, 123456789, 999999999} {
				wr(sec, ns, p)
			}
		}
	}
	for i := 0; i < c.N; i++ {
		t := g.randTime()
		p := g.intn(4)
		if g.intn(20) == 0 {
			p = 4 + g.intn(3) // not a named precision: written as millis
		}
		wr(t.Unix(), int64(t.Nanosecond()), p)
	}
	for i := 0; i < c.N/10; i++ {
		// outside the years 0000..9999 (five-digit / negative years): model comparison only
		sec := int64(253402300800) + c.Rng.Int63n(86400*365*2000)
		if g.intn(2) == 0 {
			sec = int64(-62167219200) - 1 - c.Rng.Int63n(86400*365*2000)
		}
		wr(sec, int64(g.intn(1000000000)), g.intn(4))
	}
}

func two(v int) string {
	return string([]byte{byte('0' + v/10%10), byte('0' + v%10)})
}

// a random instant of the years 0000..9999, biased to month/year ends and to coarse nanoseconds
func (g *gen) randTime() time.Time {
	const lo, hi = int64(-62167219200), int64(253402300800)
	sec := lo + g.c.Rng.Int63n(hi-lo)
	switch g.intn(6) {
	case 0:
		sec = sec - ((sec%86400)+86400)%86400 + 86399 // last second of a day
	case 1:
		y := g.intn(10000)
		sec = time.Date(y, time.Month(2+g.intn(2)), 1, 0, 0, 0, 0, time.UTC).Unix() - int64(g.intn(2)) // around the end of February
	case 2:
		y := g.intn(10000)
		sec = time.Date(y, 1, 1, 0, 0, 0, 0, time.UTC).Unix() - int64(g.intn(2)) // around new year
	}
	ns := int64(g.intn(1000000000))
	switch g.intn(5) {
	case 0:
		ns = ns / 1000000 * 1000000
	case 1:
		ns = ns / 1000 * 1000
	case 2:
		ns = []int64{0, 999999999, 999000000, 999999000, 1, 1000, 1000000}[g.intn(7)]
	}
	return time.Unix(sec, ns).UTC()
}

func (g *gen) floats() {
	run, c := g.run, g.c
	rd := func(s []byte) { run(L(Sym("float-read"), Bytes(s))) }
	floatAlpha := []byte("019" + nearMiss)
	maxLen := 4
	if g.thorough() {
		maxLen = 5
	}
	enumStrings(floatAlpha, maxLen, rd)
	enumStrings([]byte("05.-"), maxLen+2, rd)
	for _, s := range []string{"inf", "Inf", "+Inf", "-Inf", "infinity", "nan", "NaN", "0x10", "0x1p-2", "0X1P4", "1_0", "1_000.5", "1e5", "1E5", "1e-5", "1.5e+3",
		"١٢٣", "1.2.3", "1..2", "-1-", "1-2", "--1", "-.", ".", "-", "", "-0", "-0.0", "00.00", "-.5", "5.", "-5.", "0.1", "100", "1.7976931348623157",
		"0.000000000000000000000000000000000000000000000000001", "123456789012345678901234567890.123456789012345678901234567890"} {
		rd([]byte(s))
	}
	// the float64 overflow threshold 2^1024 - 2^970 and its neighbours, with and without fraction / leading zeros
	thr := new(big.Int).Sub(new(big.Int).Lsh(big.NewInt(1), 1024), new(big.Int).Lsh(big.NewInt(1), 970))
	for d := int64(-3); d <= 3; d++ {
		s := new(big.Int).Add(thr, big.NewInt(d)).String()
		for _, t := range []string{s, "-" + s, s + ".0", s + ".", "000" + s, s[:len(s)-3] + "." + s[len(s)-3:], s + "0", s + ".99999", "-" + s + ".5"} {
			rd([]byte(t))
		}
	}
	maxs := new(big.Int).Sub(new(big.Int).Lsh(big.NewInt(1), 1024), new(big.Int).Lsh(big.NewInt(1), 971)).String() // MaxFloat64
	for _, t := range []string{maxs, maxs + ".9", "-" + maxs, "1" + strings.Repeat("0", 308), "1" + strings.Repeat("0", 309), "2" + strings.Repeat("0", 308),
		"0." + strings.Repeat("0", 400) + "1", strings.Repeat("9", 308), strings.Repeat("9", 309), strings.Repeat("9", 310), "17976931348623158" + strings.Repeat("0", 292),
		"17976931348623159" + strings.Repeat("0", 292), "0." + strings.Repeat("9", 350), strings.Repeat("0", 350) + "1", "-" + strings.Repeat("9", 309) + ".5"} {
		rd([]byte(t))
	}
	for i := 0; i < c.N; i++ {
		// random longer texts: digits with at most a few defects; sometimes very long (overflow region)
		n := 1 + g.intn(30)
		if g.intn(10) == 0 {
			n = 300 + g.intn(20)
		}
		s := g.digits(n)
		if g.intn(2) == 0 {
			s[g.intn(n)] = '.'
		}
		if g.intn(3) == 0 {
			s[0] = '-'
		}
		if g.intn(4) == 0 {
			s[g.intn(n)] = floatAlpha[g.intn(len(floatAlpha))]
		}
		rd(s)
	}
	// writes: finite float64 values given by their shortest digits; canonical texts read back
	wr := func(v float64) {
		e := strconv.FormatFloat(v, 'e', -1, 64) // d.ddddde±xx
		neg := e[0] == '-'
		if neg {
			e = e[1:]
		}
		mant, exps, _ := strings.Cut(e, "e")
		digs := strings.Replace(mant, ".", "", 1)
		x, _ := strconv.Atoi(exps)
		dp := x + 1
		if v == 0 {
			digs, dp = "", 0
		}
		run(L(Sym("float-write"), Bool(neg), Str(digs), Int(dp)))
		run(L(Sym("float-canon"), Str(strconv.FormatFloat(v, 'f', -1, 64))))
	}
	for _, v := range []float64{0, math.Copysign(0, -1), 1, -1, 0.5, 0.1, 100, 1e21, 1e22, 1e-7, 123.456, math.MaxFloat64, -math.MaxFloat64, math.SmallestNonzeroFloat64,
		2.2250738585072014e-308, 2.225073858507201e-308, 9007199254740993, 1.7976931348623157e308, 5e-324, 1e300, 123456789.125, 0.000001, 1e-6, 999999.9999999999} {
		wr(v)
	}
	for i := 0; i < c.N; i++ {
		var v float64
		switch g.intn(4) {
		case 0:
			v = math.Float64frombits(c.Rng.Uint64()) // any exponent
		case 1:
			v = float64(c.Rng.Int63n(1000000000)) / 10000 // prices
		case 2:
			v = c.Rng.NormFloat64() * math.Pow(10, float64(g.intn(30)-15))
		default:
			v = float64(c.Rng.Int63()>>uint(g.intn(63))) * math.Pow(10, -float64(g.intn(10)))
		}
		if math.IsNaN(v) || math.IsInf(v, 0) {
			continue
		}
		wr(v)
	}
}

func (g *gen) strings() {
	for _, s := range []string{"", "a", "hello world", "\x00\x01=|", "ünïcode", "8=FIX.4.2\x019=12\x01"} {
		g.run(L(Sym("str-rt"), Str(s)))
		g.run(L(Sym("bytes-rt"), Str(s)))
	}
	for i := 0; i < g.c.N/4; i++ {
		b := make([]byte, g.intn(40))
		g.c.Rng.Read(b)
		g.run(L(Sym("str-rt"), Bytes(b)))
		g.run(L(Sym("bytes-rt"), Bytes(b)))
	}
}

// a canonical decimal text -?D+(.D+)? with up to ni integer and exactly nf fraction digits
func (g *gen) decText(ni, nf int) []byte {
	ip := g.digits(1 + g.intn(ni))
	if len(ip) > 1 && ip[0] == '0' {
		ip[0] = byte('1' + g.intn(9))
	}
	s := ip
	if nf > 0 {
		s = append(append(s, '.'), g.digits(nf)...)
	}
	if g.intn(3) == 0 && strings.Trim(string(s), "0.") != "" {
		s = append([]byte{'-'}, s...)
	}
	return s
}

func (g *gen) decimals() {
	run, c := g.run, g.c
	decAlpha := []byte("015" + nearMiss)
	maxLen := 3
	if g.thorough() {
		maxLen = 4
	}
	enumStrings(decAlpha, maxLen, func(s []byte) { run(L(Sym("dec-read"), Bytes(s), Int(2))) })
	for _, s := range []string{"1e5", "1E-5", "1.5e3", "1e", "e5", "1e+", "1e2147483647", "1e2147483648", "1e-2147483648", "1e-2147483649", "1.5e-2147483648", ".-5", "-.5", "+.5", "5.",
		".", "-", "", "1.2.3", "1..2", "0.5", "0.05", "-0.05", "0.45", "0.55", "-0.45", "-0.55", "2.5", "-2.5", "0.005", "-0.005", "999.995", "-999.995",
		"123456789012345678", "1234567890123456789", "-1234567890123456789012345678901234567890.12345678901234567890", "0.000", "-0.000", "00012.50", "1_0", "1e1e1", "0x10"} {
		for _, sc := range []int{0, 1, 2, 3} {
			run(L(Sym("dec-read"), Str(s), Int(sc)))
		}
	}
	for i := 0; i < c.N; i++ {
		nf := g.intn(10)
		s := g.decText(12+g.intn(12), nf)
		sc := nf // own scale: canonical rewrite
		if g.intn(2) == 0 {
			sc = g.intn(10) // any scale 0..9: rounding
		}
		if g.intn(12) == 0 {
			s[g.intn(len(s))] = decAlpha[g.intn(len(decAlpha))]
		}
		run(L(Sym("dec-read"), Bytes(s), Int(sc)))
	}
	// values that have no canonical text: positive exponents, trailing zeros, negative scales, halves
	for _, v := range []int64{0, 5, -5, 15, -15, 25, 45, 55, -45, -55, 149, 150, 151, -149, -150, -151, 995, -995, 999999, 1000000} {
		for _, e := range []int{-4, -3, -2, -1, 0, 1, 3} {
			for _, sc := range []int{-2, -1, 0, 1, 2, 3, 5} {
				run(L(Sym("dec-write"), Int64(v), Int(e), Int(sc)))
			}
		}
	}
	for i := 0; i < c.N; i++ {
		v := new(big.Int).Rand(c.Rng, new(big.Int).Lsh(big.NewInt(1), uint(1+g.intn(100))))
		if g.intn(2) == 0 {
			v.Neg(v)
		}
		if g.intn(4) == 0 {
			// ...5 at the rounding position
			v.Mul(v, big.NewInt(10)).Add(v, big.NewInt(int64(5*v.Sign())))
		}
		run(L(Sym("dec-write"), Sym(v.String()), Int(g.intn(28)-20), Int(g.intn(13)-3)))
	}
}

func (g *gen) udecimals() {
	run, c := g.run, g.c
	decAlpha := []byte("015" + nearMiss)
	maxLen := 3
	if g.thorough() {
		maxLen = 4
	}
	enumStrings(decAlpha, maxLen, func(s []byte) { run(L(Sym("udec-read"), Bytes(s), Int(2))) })
	for _, s := range []string{"0.5", "0.05", "-0.05", "0.45", "0.55", "-0.999", "2.5", "0.000", "-0.000", "-0", "+1.5", "+0", "00012.50", "1.", ".5", "-.5", "+.5", "1e5",
		"1.1234567890123456789", "1.12345678901234567890", "340282366920938463463374607431768211455", "340282366920938463463374607431768211456",
		"-340282366920938463463374607431768211456.5", "34028236692093846346337460743176821145.5", "1234567890123456789", "12345678901234567890",
		"1234567890.123456789", "12345678901.123456789", "-+1", "+-1", "--1", "1-", "1.2.3", "1..2", "0000000000000000000000000000000000000000000.5",
		"12345678901234567890123456789012345678901234567890.1234567890123456789", strings.Repeat("9", 200), strings.Repeat("9", 201), "-" + strings.Repeat("9", 199)} {
		for _, sc := range []int{0, 1, 2, 19, 25} {
			run(L(Sym("udec-read"), Str(s), Int(sc)))
		}
	}
	for i := 0; i < c.N; i++ {
		nf := g.intn(20)
		ni := 12 + g.intn(12)
		if g.intn(8) == 0 {
			ni = 30 + g.intn(40) // beyond u128: big.Int path
		}
		s := g.decText(ni, nf)
		sc := nf
		if g.intn(2) == 0 {
			sc = g.intn(22)
		}
		if g.intn(12) == 0 {
			s[g.intn(len(s))] = decAlpha[g.intn(len(decAlpha))]
		}
		run(L(Sym("udec-read"), Bytes(s), Int(sc)))
	}
}
