package main

// Stream `stress` (C02): free-running goroutines, no imposed schedule; checked by the spec predicate only.
// input = (stress NAPPS NSENDS PERSIST SEED) ; observed = (obs (final SND QLEN) (trace EV ...))

import (
	"github.com/quickfixgo/quickfix"
	"sync"

	. "qfverif/hx"
)

func runStress(in Sx) Sx {
	l := in.(List)
	napps, nsends, persist := AtomInt(l[1]), AtomInt(l[2]), AtomBool(l[3])
	r := newRig(nil, persist, true, true)
	var wg sync.WaitGroup
	stop := make(chan struct{})
	for a := 0; a < napps; a++ {
		wg.Add(1)
		go func(a int) {
			defer wg.Done()
			var mine *quickfix.Message // one Message object per application goroutine, re-filled for every send
			for i := 0; i < nsends; i++ {
				k := "app"
				if (i+a)%7 == 3 {
					k = "apprej"
				}
				r.doOpOwn(L(Sym("q"), Sym(k)), &mine)
			}
		}(a)
	}
	sessDone := make(chan struct{})
	go func() {
		defer close(sessDone)
		n := 0
		for {
			select {
			case <-stop:
				r.doOp(Sym("flush"))
				return
			default:
			}
			n++
			switch {
			case n%5 == 0:
				r.doOp(L(Sym("send"), Sym("admin")))
			case n%7 == 0:
				r.doOp(L(Sym("resend"), Int(1), Int(1+n%9), List{}))
			default:
				r.doOp(Sym("flush"))
			}
		}
	}()
	wg.Wait()
	close(stop)
	<-sessDone
	r.log.mu.Lock()
	trace := append(List{Sym("trace")}, r.log.events...)
	r.log.mu.Unlock()
	return L(Sym("obs"), L(Sym("final"), Int(r.store.MessageStore.NextSenderMsgSeqNum()), Int(r.sess.VerifConcQueueLen())), trace)
}

func genStress(c *Ctx) {
	for i := 0; i < c.N; i++ {
		in := L(Sym("stress"), Int(2+c.Rng.Intn(6)), Int(5+c.Rng.Intn(40)), Bool(c.Rng.Intn(5) != 0), Int(i))
		c.Pending(in); c.Emit(in, runStress(in))
	}
}
