package main

// Stream `sched` (C02): a model schedule imposed on real goroutines calling the real session send path.
//
// input  = (sched (cfg PERSIST LOGGED OPEN) (threads (op ...) (op ...) ...) (schedule t t ...))
//          thread 0 = session goroutine, threads 1.. = application goroutines
//   op   = (q KIND) | (send KIND) | (dropsend KIND) | dropreset | flush | (resend B E (REJ ...)) | logonreset | (setlogged T|F)
//   KIND = app | apprej | admin | logon | logonreset
// observed = (obs (steps (T STATUS (woke (T STATUS) ...)) ...) (calls CALL ...) (wire ITEM ...) (final SND QLEN) (trace EV ...))
//   after the given schedule the harness keeps releasing the lowest parked thread until all are done (drain), those
//   steps are reported too. `trace` is the implementation's event log with the actual bytes (for the spec predicate
//   only; the model side does not compare it).

import (
	"bytes"
	"fmt"
	"strconv"
	"time"

	"github.com/quickfixgo/quickfix"

	. "qfverif/hx"
)

func main() { Main() }

func init() {
	Register("sched", &Stream{Gen: genSched, Run: runSched})
	Register("stress", &Stream{Gen: genStress, Run: runStress})
}

// ---------- event log ----------
type evlog struct {
	mu      spin
	events  []Sx
	calls   []Sx
	wire    []Sx
	quietNx bool
}

func (l *evlog) add(ev Sx, call Sx, wire Sx) {
	l.mu.Lock()
	defer l.mu.Unlock()
	if ev != nil {
		l.events = append(l.events, ev)
	}
	if call != nil {
		l.calls = append(l.calls, call)
	}
	if wire != nil {
		l.wire = append(l.wire, wire)
	}
}

// ---------- store wrapper ----------
type concStore struct {
	quickfix.MessageStore
	w   *world
	log *evlog
}

func (s *concStore) NextSenderMsgSeqNum() int {
	n := s.MessageStore.NextSenderMsgSeqNum()
	s.log.mu.Lock()
	quiet := s.log.quietNx
	s.log.mu.Unlock()
	if quiet && s.w != nil {
		if th := s.w.current(); th == nil || th.id != 0 {
			quiet = false // only the session goroutine's reads inside handleLogon are not reported
		}
	}
	if !quiet {
		s.log.add(nil, L(Sym("next"), Int(n)), nil)
	}
	return n
}
func (s *concStore) SaveMessageAndIncrNextSenderMsgSeqNum(n int, msg []byte) error {
	if s.w != nil {
		s.w.yield("save")
	}
	cp := append([]byte(nil), msg...)
	s.log.add(L(Sym("save"), Int(n), Bytes(cp)), L(Sym("save"), Int(n)), nil)
	return s.MessageStore.SaveMessageAndIncrNextSenderMsgSeqNum(n, msg)
}
func (s *concStore) IncrNextSenderMsgSeqNum() error {
	if s.w != nil {
		s.w.yield("incr")
	}
	n := s.MessageStore.NextSenderMsgSeqNum()
	s.log.add(L(Sym("incr"), Int(n)), L(Sym("incr")), nil)
	return s.MessageStore.IncrNextSenderMsgSeqNum()
}
func (s *concStore) Reset() error {
	if s.w != nil {
		s.w.yield("reset")
	}
	s.log.add(L(Sym("reset")), L(Sym("reset")), nil)
	return s.MessageStore.Reset()
}

// ---------- application ----------
type concApp struct {
	w    *world
	mu   spin
	rejs map[int]bool // replayed numbers ToApp rejects during the current resend
}

func (a *concApp) OnCreate(quickfix.SessionID) {}
func (a *concApp) OnLogon(quickfix.SessionID)  {}
func (a *concApp) OnLogout(quickfix.SessionID) {}
func (a *concApp) FromAdmin(*quickfix.Message, quickfix.SessionID) quickfix.MessageRejectError {
	return nil
}
func (a *concApp) FromApp(*quickfix.Message, quickfix.SessionID) quickfix.MessageRejectError {
	return nil
}
func (a *concApp) ToAdmin(*quickfix.Message, quickfix.SessionID) {
	if a.w != nil {
		a.w.yield("app")
	}
}

type doNotSend struct{}

func (doNotSend) Error() string { return "do not send" }

func (a *concApp) ToApp(m *quickfix.Message, _ quickfix.SessionID) error {
	if a.w != nil {
		a.w.yield("app")
	}
	var dup quickfix.FIXBoolean
	if m.Header.GetField(quickfix.Tag(43), &dup) == nil && bool(dup) {
		n, _ := m.Header.GetInt(quickfix.Tag(34))
		a.mu.Lock()
		r := a.rejs[n]
		a.mu.Unlock()
		if r {
			return doNotSend{}
		}
		return nil
	}
	if txt, err := m.Body.GetString(quickfix.Tag(58)); err == nil && txt == "REJ" {
		return doNotSend{}
	}
	return nil
}

// ---------- log (wire observer) ----------
type concLog struct{ log *evlog }

func (l concLog) OnIncoming([]byte) {}
func (l concLog) OnOutgoing(b []byte) {
	cp := append([]byte(nil), b...)
	l.log.add(L(Sym("wire"), Bytes(cp)), nil, wireItem(cp))
}
func (l concLog) OnEvent(string)                 {}
func (l concLog) OnEventf(string, ...interface{}) {}

func fieldOf(b []byte, tag string) (string, bool) {
	for _, f := range bytes.Split(b, []byte{1}) {
		if bytes.HasPrefix(f, []byte(tag+"=")) {
			return string(f[len(tag)+1:]), true
		}
	}
	return "", false
}

// (first n) | (replay n) | (gap b e)
func wireItem(b []byte) Sx {
	seq, _ := fieldOf(b, "34")
	n, _ := strconv.Atoi(seq)
	dup, _ := fieldOf(b, "43")
	mt, _ := fieldOf(b, "35")
	if mt == "4" {
		if gf, _ := fieldOf(b, "123"); gf == "Y" {
			ns, _ := fieldOf(b, "36")
			e, _ := strconv.Atoi(ns)
			return L(Sym("gap"), Int(n), Int(e))
		}
	}
	if dup == "Y" {
		return L(Sym("replay"), Int(n))
	}
	return L(Sym("first"), Int(n))
}

// ---------- messages ----------
var msgCounter int
var msgCounterMu spin

// buildMsg fills a message of the given kind.  With own != nil the application thread keeps ONE Message object and
// re-fills it for every send (clear, set the fields again), as an application that re-sends an order object does; what
// the engine made of the earlier sends (queued, stored or written bytes) must not depend on the object's later life.
func buildMsg(kind string, own **quickfix.Message) *quickfix.Message {
	var m *quickfix.Message
	if own != nil && *own != nil {
		m = *own
		m.Header.Clear()
		m.Body.Clear()
		m.Trailer.Clear()
	} else {
		m = quickfix.NewMessage()
		if own != nil {
			*own = m
		}
	}
	msgCounterMu.Lock()
	msgCounter++
	id := msgCounter
	msgCounterMu.Unlock()
	switch kind {
	case "app", "apprej":
		m.Header.SetField(quickfix.Tag(35), quickfix.FIXString("D"))
		m.Body.SetField(quickfix.Tag(11), quickfix.FIXString(fmt.Sprintf("ID%d", id)))
		if kind == "apprej" {
			m.Body.SetField(quickfix.Tag(58), quickfix.FIXString("REJ"))
		}
	case "admin":
		m.Header.SetField(quickfix.Tag(35), quickfix.FIXString("0"))
		m.Body.SetField(quickfix.Tag(112), quickfix.FIXString(fmt.Sprintf("T%d", id)))
	case "logon", "logonreset":
		m.Header.SetField(quickfix.Tag(35), quickfix.FIXString("A"))
		m.Body.SetField(quickfix.Tag(98), quickfix.FIXString("0"))
		m.Body.SetField(quickfix.Tag(108), quickfix.FIXInt(30))
		if kind == "logonreset" {
			m.Body.SetField(quickfix.Tag(141), quickfix.FIXBoolean(true))
		}
	default:
		panic("conc: unknown message kind " + kind)
	}
	return m
}

func inboundLogonReset() *quickfix.Message {
	m := quickfix.NewMessage()
	m.Header.SetField(quickfix.Tag(8), quickfix.FIXString("FIX.4.2"))
	m.Header.SetField(quickfix.Tag(35), quickfix.FIXString("A"))
	m.Header.SetField(quickfix.Tag(49), quickfix.FIXString("TW"))
	m.Header.SetField(quickfix.Tag(56), quickfix.FIXString("ISLD"))
	m.Header.SetField(quickfix.Tag(34), quickfix.FIXInt(1))
	m.Header.SetField(quickfix.Tag(52), quickfix.FIXUTCTimestamp{Time: time.Now().UTC()})
	m.Body.SetField(quickfix.Tag(98), quickfix.FIXString("0"))
	m.Body.SetField(quickfix.Tag(108), quickfix.FIXInt(30))
	m.Body.SetField(quickfix.Tag(141), quickfix.FIXBoolean(true))
	return m
}

// ---------- one case ----------
type rig struct {
	w     *world
	log   *evlog
	store *concStore
	app   *concApp
	sess  *quickfix.VerifConcSession
}

func newRig(w *world, persist, logged, open bool) *rig {
	inner, err := quickfix.NewMemoryStoreFactory().Create(quickfix.SessionID{BeginString: "FIX.4.2", SenderCompID: "ISLD", TargetCompID: "TW"})
	if err != nil {
		panic(err)
	}
	l := &evlog{}
	r := &rig{w: w, log: l}
	r.store = &concStore{MessageStore: inner, w: w, log: l}
	r.app = &concApp{w: w, rejs: map[int]bool{}}
	r.sess = quickfix.NewVerifConcSession(r.app, r.store, concLog{l}, 1<<14, open, logged, !persist)
	return r
}

func (r *rig) doOp(op Sx) { r.doOpOwn(op, nil) }

func (r *rig) doOpOwn(op Sx, own **quickfix.Message) {
	if a, ok := op.(Atom); ok {
		switch string(a) {
		case "dropreset":
			_ = r.sess.VerifConcResetSession() // the registry call ResetSession while not logged on, dropAndReset otherwise
		case "flush":
			r.sess.VerifConcSendAppMessages()
		case "logonreset":
			r.log.mu.Lock()
			r.log.quietNx = true
			r.log.mu.Unlock()
			r.sess.VerifConcHandleLogon(inboundLogonReset())
			r.log.mu.Lock()
			r.log.quietNx = false
			r.log.mu.Unlock()
		default:
			panic("conc: unknown op " + string(a))
		}
		return
	}
	l := op.(List)
	switch AtomSym(l[0]) {
	case "q":
		r.sess.VerifConcQueueForSend(buildMsg(AtomSym(l[1]), own))
	case "send":
		r.sess.VerifConcSendInReplyTo(buildMsg(AtomSym(l[1]), own))
	case "dropsend":
		r.sess.VerifConcDropAndSend(buildMsg(AtomSym(l[1]), own))
	case "resend":
		rejs := map[int]bool{}
		for _, x := range l[3].(List) {
			rejs[AtomInt(x)] = true
		}
		r.app.mu.Lock()
		r.app.rejs = rejs
		r.app.mu.Unlock()
		r.log.add(L(Sym("rbegin")), nil, nil)
		r.sess.VerifConcResend(AtomInt(l[1]), AtomInt(l[2]))
		r.log.add(L(Sym("rend")), nil, nil)
	case "setlogged":
		r.sess.VerifConcSetLoggedOn(AtomBool(l[1]))
	default:
		panic("conc: unknown op " + SxString(op))
	}
}

// chooser picks the next thread to release given the labels of all threads, or -1 to stop choosing (drain follows).
type chooser func(labels []string) int

func execSched(cfg Sx, threadsSx Sx, choose chooser) (schedule []int, obs Sx) {
	c := cfg.(List)
	persist, logged, open := AtomBool(c[1]), AtomBool(c[2]), AtomBool(c[3])
	threads := threadsSx.(List)[1:]

	w := newWorld()
	r := newRig(w, persist, logged, open)
	for ti, t := range threads {
		ops := t.(List)
		reuse := ti%2 == 0 // every other thread re-fills one Message object for all its sends
		w.spawn(func(th *thread) {
			var mine *quickfix.Message
			for _, op := range ops {
				w.yield("start")
				if reuse {
					r.doOpOwn(op, &mine)
				} else {
					r.doOp(op)
				}
			}
		})
	}
	w.settle()

	var steps []Sx
	snapshot := func() []string {
		s := make([]string, len(w.threads))
		for i := range w.threads {
			s[i] = w.label(i)
		}
		return s
	}
	step := func(t int) {
		before := snapshot()
		var res string
		if w.release(t) {
			res = w.label(t)
		} else {
			res = "skip"
		}
		after := snapshot()
		woke := List{Sym("woke")}
		for i := range after {
			if i != t && before[i] != after[i] {
				woke = append(woke, L(Int(i), Sym(after[i])))
			}
		}
		steps = append(steps, L(Int(t), Sym(res), woke))
	}
	for n := 0; n < 4000; n++ {
		t := choose(snapshot())
		if t < 0 {
			break
		}
		schedule = append(schedule, t)
		step(t)
	}
	// drain: lowest parked thread first
	for n := 0; n < 4000; n++ {
		t := -1
		for i := range w.threads {
			if st, _ := w.statusOf(i); st == stParked {
				t = i
				break
			}
		}
		if t < 0 {
			break
		}
		step(t)
	}
	allDone := true
	for i := range w.threads {
		if st, _ := w.statusOf(i); st != stDone {
			allDone = false
		}
	}
	qlen := -1
	if allDone {
		qlen = r.sess.VerifConcQueueLen()
	}
	r.log.mu.Lock()
	calls := append(List{Sym("calls")}, r.log.calls...)
	wire := append(List{Sym("wire")}, r.log.wire...)
	trace := append(List{Sym("trace")}, r.log.events...)
	r.log.mu.Unlock()
	final := L(Sym("final"), Int(r.store.MessageStore.NextSenderMsgSeqNum()), Int(qlen))
	return schedule, L(Sym("obs"), append(List{Sym("steps")}, steps...), calls, wire, final, trace)
}

func runSched(in Sx) Sx {
	l := in.(List)
	sched := l[3].(List)[1:]
	i := 0
	_, obs := execSched(l[1], l[2], func([]string) int {
		if i >= len(sched) {
			return -1
		}
		i++
		return AtomInt(sched[i-1])
	})
	return obs
}

// ---------- generator: programs at random, schedule chosen online among the parked threads ----------
func genOps(c *Ctx, session bool, allowFinding bool) List {
	ops := List{}
	if !session {
		n := 1 + c.Rng.Intn(3)
		for i := 0; i < n; i++ {
			k := "app"
			switch c.Rng.Intn(8) {
			case 0:
				k = "apprej"
			case 1:
				k = "admin"
			}
			ops = append(ops, L(Sym("q"), Sym(k)))
		}
		return ops
	}
	n := 2 + c.Rng.Intn(5)
	for i := 0; i < n; i++ {
		switch x := c.Rng.Intn(40); {
		case x < 12:
			ops = append(ops, Sym("flush"))
		case x < 18:
			ops = append(ops, L(Sym("send"), Sym("admin")))
		case x < 21:
			ops = append(ops, L(Sym("send"), Sym([]string{"app", "apprej"}[c.Rng.Intn(2)])))
		case x < 29:
			b := 1 + c.Rng.Intn(4)
			e := b + c.Rng.Intn(5) - 1
			rejs := List{}
			for k := b; k <= e; k++ {
				if c.Rng.Intn(5) == 0 {
					rejs = append(rejs, Int(k))
				}
			}
			ops = append(ops, L(Sym("resend"), Int(b), Int(e), rejs))
		case x < 31:
			ops = append(ops, Sym("dropreset"))
		case x < 34:
			ops = append(ops, L(Sym("dropsend"), Sym([]string{"logon", "logonreset", "admin"}[c.Rng.Intn(3)])))
		case x < 36:
			ops = append(ops, L(Sym("setlogged"), Bool(c.Rng.Intn(2) == 0)))
		case x < 38:
			ops = append(ops, L(Sym("q"), Sym("admin")))
		default:
			if allowFinding {
				ops = append(ops, Sym("logonreset"))
			} else {
				ops = append(ops, Sym("flush"))
			}
		}
	}
	return ops
}

func genSched(c *Ctx) {
	for i := 0; i < c.N; i++ {
		persist := c.Rng.Intn(6) != 0
		logged := c.Rng.Intn(5) != 0
		open := c.Rng.Intn(8) != 0
		cfg := L(Sym("cfg"), Bool(persist), Bool(logged), Bool(open))
		napps := 1 + c.Rng.Intn(3)
		threads := List{Sym("threads"), genOps(c, true, i%4 == 3)}
		for a := 0; a < napps; a++ {
			threads = append(threads, genOps(c, false, false))
		}
		last := -1
		sched, obs := execSched(cfg, threads, func(labels []string) int {
			appBlocked := false
			for t, l := range labels {
				if t > 0 && l == "blocked" {
					appBlocked = true
				}
			}
			var cand []int
			for t, l := range labels {
				if l == "blocked" || l == "done" {
					continue
				}
				if t > 0 && l == "start" && appBlocked {
					continue // keep at most one application thread blocked: lock hand-over stays deterministic
				}
				cand = append(cand, t)
			}
			if len(cand) == 0 {
				return -1
			}
			if last >= 0 && c.Rng.Intn(2) == 0 {
				for _, t := range cand {
					if t == last {
						return t
					}
				}
			}
			last = cand[c.Rng.Intn(len(cand))]
			return last
		})
		sl := List{Sym("schedule")}
		for _, t := range sched {
			sl = append(sl, Int(t))
		}
		c.Emit(L(Sym("sched"), cfg, threads, sl), obs)
	}
}
