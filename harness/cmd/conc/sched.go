package main

// Schedule-directed execution of real goroutines over the real session send path (C02).
//
// Every harness thread is a goroutine running a list of operations. It parks at *yield points*:
//   start  - before invoking each operation
//   app    - on entry of Application.ToAdmin / ToApp
//   save   - on entry of MessageStore.SaveMessageAndIncrNextSenderMsgSeqNum
//   incr   - on entry of MessageStore.IncrNextSenderMsgSeqNum
//   reset  - on entry of MessageStore.Reset
// `release(t)` lets a parked thread perform the parked action and run on to its next yield point. The world is
// quiescent when every thread is parked, done, or waiting inside sync.Mutex / sync.RWMutex (seen in a goroutine
// dump; a thread that reaches neither within 200 ms is reported blocked as well).

import (
	"bytes"
	"runtime"
	"strconv"
	"sync/atomic"
	"time"
)

// spin is a lock that never parks its waiters in a sync wait state (the scheduler classifies goroutines by that state).
type spin struct{ v int32 }

func (s *spin) Lock() {
	for !atomic.CompareAndSwapInt32(&s.v, 0, 1) {
		runtime.Gosched()
	}
}
func (s *spin) Unlock() { atomic.StoreInt32(&s.v, 0) }

const (
	stParked = iota
	stBusy // released (or woken) and not yet arrived at a yield point: running or blocked on a lock
	stDone
)

type thread struct {
	id     int
	gid    uint64
	status int
	kind   string // yield kind when parked
	resume chan struct{}
}

type world struct {
	mu      spin
	threads []*thread
	byGid   map[uint64]*thread
	arrive  chan int // thread ids that changed status (parked/done)
	timeout time.Duration
}

func goid() uint64 {
	var buf [64]byte
	n := runtime.Stack(buf[:], false)
	// "goroutine 123 [running]:..."
	b := buf[10:n]
	i := bytes.IndexByte(b, ' ')
	if i < 0 {
		return 0
	}
	id, _ := strconv.ParseUint(string(b[:i]), 10, 64)
	return id
}

func newWorld() *world {
	return &world{byGid: map[uint64]*thread{}, arrive: make(chan int, 4096), timeout: 200 * time.Millisecond}
}

// spawn starts a thread; body runs on the new goroutine and must call w.yield at its yield points.
func (w *world) spawn(body func(th *thread)) *thread {
	th := &thread{id: len(w.threads), resume: make(chan struct{}), status: stBusy}
	w.threads = append(w.threads, th)
	reg := make(chan struct{})
	go func() {
		th.gid = goid()
		w.mu.Lock()
		w.byGid[th.gid] = th
		w.mu.Unlock()
		close(reg)
		body(th)
		w.mu.Lock()
		th.status = stDone
		th.kind = "done"
		w.mu.Unlock()
		w.arrive <- th.id
	}()
	<-reg
	return th
}

// yield parks the calling harness thread (no-op when called from any other goroutine).
func (w *world) yield(kind string) {
	g := goid()
	w.mu.Lock()
	th := w.byGid[g]
	if th != nil {
		th.status = stParked
		th.kind = kind
	}
	w.mu.Unlock()
	if th == nil {
		return
	}
	w.arrive <- th.id
	<-th.resume
}

func (w *world) current() *thread {
	g := goid()
	w.mu.Lock()
	defer w.mu.Unlock()
	return w.byGid[g]
}

// goroutine states from a full dump; a lock wait counts only when the Lock/RLock call was made by quickfix code
func goroutineStates() map[uint64]string {
	buf := make([]byte, 1<<16)
	for {
		n := runtime.Stack(buf, true)
		if n < len(buf) {
			buf = buf[:n]
			break
		}
		buf = make([]byte, 2*len(buf))
	}
	res := map[uint64]string{}
	for _, blk := range bytes.Split(buf, []byte("\n\n")) {
		if !bytes.HasPrefix(blk, []byte("goroutine ")) {
			continue
		}
		lines := bytes.Split(blk, []byte("\n"))
		rest := lines[0][10:]
		sp := bytes.IndexByte(rest, ' ')
		if sp < 0 {
			continue
		}
		id, err := strconv.ParseUint(string(rest[:sp]), 10, 64)
		if err != nil {
			continue
		}
		lb := bytes.IndexByte(rest, '[')
		rb := bytes.IndexByte(rest, ']')
		if lb < 0 || rb < lb {
			continue
		}
		state := string(rest[lb+1 : rb])
		if c := bytes.IndexByte([]byte(state), ','); c >= 0 {
			state = state[:c]
		}
		if lockWaitState(state) {
			// function lines are the even lines after the header; find the caller of the sync Lock/RLock
			caller := ""
			for i := 1; i+2 < len(lines); i += 2 {
				f := lines[i]
				if bytes.HasPrefix(f, []byte("sync.(*Mutex).Lock(")) || bytes.HasPrefix(f, []byte("sync.(*RWMutex).RLock(")) || bytes.HasPrefix(f, []byte("sync.(*RWMutex).Lock(")) {
					caller = string(lines[i+2])
				}
			}
			if !bytes.HasPrefix([]byte(caller), []byte("github.com/quickfixgo/quickfix.")) {
				state = "harness-lock"
			}
		}
		res[id] = state
	}
	return res
}

func lockWaitState(state string) bool {
	switch state {
	case "sync.Mutex.Lock", "sync.RWMutex.RLock", "sync.RWMutex.Lock", "semacquire":
		return true
	}
	return false
}

func lockWait(state string) bool { return lockWaitState(state) }

// settle waits until no thread is runnable: every busy thread sits in a lock wait.
func (w *world) settle() {
	deadline := time.Now().Add(w.timeout)
	for {
		// drain arrivals
	drain:
		for {
			select {
			case <-w.arrive:
			default:
				break drain
			}
		}
		w.mu.Lock()
		var busy []*thread
		for _, th := range w.threads {
			if th.status == stBusy {
				busy = append(busy, th)
			}
		}
		w.mu.Unlock()
		if len(busy) == 0 {
			return
		}
		states := goroutineStates()
		all := true
		for _, th := range busy {
			if !lockWait(states[th.gid]) {
				all = false
			}
		}
		if all {
			// re-check statuses: an arrival may have raced with the dump
			w.mu.Lock()
			still := true
			for _, th := range busy {
				if th.status != stBusy {
					still = false
				}
			}
			w.mu.Unlock()
			if still {
				return
			}
			continue
		}
		if time.Now().After(deadline) {
			return
		}
		select {
		case <-w.arrive:
		case <-time.After(200 * time.Microsecond):
		}
	}
}

func (w *world) statusOf(t int) (int, string) {
	w.mu.Lock()
	defer w.mu.Unlock()
	th := w.threads[t]
	return th.status, th.kind
}

// release lets a parked thread go; returns false if it is not parked.
func (w *world) release(t int) bool {
	if t < 0 || t >= len(w.threads) {
		return false
	}
	w.mu.Lock()
	th := w.threads[t]
	if th.status != stParked {
		w.mu.Unlock()
		return false
	}
	th.status = stBusy
	th.kind = "blocked"
	w.mu.Unlock()
	th.resume <- struct{}{}
	w.settle()
	return true
}

func (w *world) label(t int) string {
	st, kind := w.statusOf(t)
	switch st {
	case stParked:
		return kind
	case stDone:
		return "done"
	}
	return "blocked"
}
