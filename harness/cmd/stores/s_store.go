package main

// Stream `store` (C16).  Input: (hist <fsync T|F> (op ...)) with op =
//   (set-s i n) (set-t i n) (incr-s i) (incr-t i) (save i n xBYTES) (save-incr i n xBYTES) (get i b e)
//   (iter i b e none|(some k)) (refresh i now) (reset i now) (reopen i now)         i = session index 0|1
// Observed: ((mem (out ...)) (file (out ...)) (sql (out ...))), out = (status (msg ...) nextSender nextTarget renewed).

import (
	"errors"
	"math"
	"os"
	"path/filepath"

	_ "github.com/mattn/go-sqlite3"
	"github.com/quickfixgo/quickfix"
	"github.com/quickfixgo/quickfix/store/file"
	qsql "github.com/quickfixgo/quickfix/store/sql"

	. "qfverif/hx"
)

func init() {
	Register("store", &Stream{Gen: genStore, Run: runStore})
}

type backend struct {
	name     string
	st       [2]quickfix.MessageStore
	open     func(i int) (quickfix.MessageStore, error)
	volatile bool // memory store: there is nothing to reopen, the object is kept
}

var errCallback = errors.New("callback abort")

func (b *backend) exec(op List) Sx {
	kind := AtomSym(op[0])
	i := AtomInt(op[1])
	st := b.st[i]
	before := st.CreationTime()
	r := Guard(func() Sx {
		status := stOK
		var msgs [][]byte
		fail := func(err error) {
			if err != nil {
				status = stErr
			}
		}
		switch kind {
		case "set-s":
			fail(st.SetNextSenderMsgSeqNum(int(AtomInt64(op[2]))))
		case "set-t":
			fail(st.SetNextTargetMsgSeqNum(int(AtomInt64(op[2]))))
		case "incr-s":
			fail(st.IncrNextSenderMsgSeqNum())
		case "incr-t":
			fail(st.IncrNextTargetMsgSeqNum())
		case "save":
			fail(st.SaveMessage(int(AtomInt64(op[2])), AtomBytes(op[3])))
		case "save-incr":
			fail(st.SaveMessageAndIncrNextSenderMsgSeqNum(int(AtomInt64(op[2])), AtomBytes(op[3])))
		case "get":
			m, err := st.GetMessages(int(AtomInt64(op[2])), int(AtomInt64(op[3])))
			msgs = m
			fail(err)
		case "iter":
			abort := -1
			if l, ok := op[4].(List); ok {
				abort = AtomInt(l[1])
			}
			calls := 0
			err := st.IterateMessages(int(AtomInt64(op[2])), int(AtomInt64(op[3])), func(m []byte) error {
				msgs = append(msgs, append([]byte(nil), m...))
				calls++
				if calls-1 == abort {
					return errCallback
				}
				return nil
			})
			if err == errCallback {
				status = stCb
			} else {
				fail(err)
			}
		case "refresh":
			fail(st.Refresh())
		case "reset":
			fail(st.Reset())
		case "reopen":
			if !b.volatile {
				fail(st.Close())
				n, err := b.open(i)
				if err != nil {
					status = stErr
				} else {
					b.st[i] = n
				}
			}
		default:
			panic("store: unknown op " + kind)
		}
		return L(Int(status), msgsSx(msgs))
	})
	status, msgs := Sx(Int(stOK)), Sx(List{})
	switch v := r.(type) {
	case Atom:
		if v == "panic" {
			status = Int(stPanic)
		} else {
			status = Int(stFuel)
		}
	case List:
		status, msgs = v[0], v[1]
	}
	cur := b.st[i]
	return L(status, msgs, Int(cur.NextSenderMsgSeqNum()), Int(cur.NextTargetMsgSeqNum()), Bool(!cur.CreationTime().Equal(before)))
}

func (b *backend) run(ops List) Sx {
	out := List{Sym(b.name)}
	outs := List{}
	for _, op := range ops {
		outs = append(outs, b.exec(op.(List)))
	}
	for i := range b.st {
		if b.st[i] != nil {
			_ = b.st[i].Close()
		}
	}
	return append(out, outs)
}

func (b *backend) openAll() {
	for i := range b.st {
		st, err := b.open(i)
		if err != nil {
			panic("store: cannot open " + b.name + ": " + err.Error())
		}
		b.st[i] = st
	}
}

func runStore(in Sx) Sx {
	l := in.(List)
	fsync := AtomBool(l[1])
	ops := l[2].(List)
	dir := caseDir("store")
	defer os.RemoveAll(dir)

	mem := &backend{name: "mem", volatile: true, open: func(i int) (quickfix.MessageStore, error) {
		return quickfix.NewMemoryStoreFactory().Create(sessionIDs[i])
	}}
	ff := file.NewStoreFactory(fileSettings(filepath.Join(dir, "files"), fsync))
	fil := &backend{name: "file", open: func(i int) (quickfix.MessageStore, error) { return ff.Create(sessionIDs[i]) }}
	dsn := createSQLiteDB(filepath.Join(dir, "store.db"))
	sf := qsql.NewStoreFactory(sqlSettings("sqlite3", dsn))
	sq := &backend{name: "sql", open: func(i int) (quickfix.MessageStore, error) { return sf.Create(sessionIDs[i]) }}

	res := List{}
	for _, b := range []*backend{mem, fil, sq} {
		b.openAll()
		res = append(res, b.run(ops))
	}
	return res
}

// ---- generator

var byteAlphabet = []byte{0x01, 0x00, 0xff, 0x80, '\n', '\r', ',', '=', '0', '9', 'A', 'z', ' ', '-', 0x7f, 0xc3, 0xa9}

func genBytes(c *Ctx) []byte {
	n := 0
	switch r := c.Rng.Intn(20); {
	case r == 0:
		n = 0
	case r < 14:
		n = 1 + c.Rng.Intn(24)
	case r < 19:
		n = 25 + c.Rng.Intn(80)
	default:
		n = 300 + c.Rng.Intn(3000)
	}
	b := make([]byte, n)
	for i := range b {
		if c.Rng.Intn(3) == 0 {
			b[i] = byte(c.Rng.Intn(256))
		} else {
			b[i] = byteAlphabet[c.Rng.Intn(len(byteAlphabet))]
		}
	}
	return b
}

type genSession struct {
	snd, tgt int64
	hasKey   bool
	maxKey   int64
	size     int64
}

const ctrLo = -1000000000000000000 // exclusive; below it "%019d" is 20 characters wide (outside the stated range)

func genCounter(c *Ctx) int64 {
	switch c.Rng.Intn(10) {
	case 0:
		return 0
	case 1:
		return -int64(c.Rng.Intn(1000))
	case 2:
		return ctrLo + 1 + c.Rng.Int63n(1000)
	case 3:
		return math.MaxInt64 - 2 - c.Rng.Int63n(1000)
	case 4:
		return c.Rng.Int63()
	default:
		return 1 + int64(c.Rng.Intn(200))
	}
}

// genHistory produces a history that satisfies abs_hist_ok: ascending save numbers per epoch, counters inside (ctrLo, 2^63).
func genHistory(c *Ctx, maxOps int, twoSessions bool) List {
	var gs [2]genSession
	for i := range gs {
		gs[i] = genSession{snd: 1, tgt: 1}
	}
	nops := 1 + c.Rng.Intn(maxOps)
	ops := List{}
	now := int64(0)
	for len(ops) < nops {
		now++
		i := 0
		if twoSessions && c.Rng.Intn(3) == 0 {
			i = 1
		}
		g := &gs[i]
		nextKey := func() (int64, bool) {
			var k int64
			if !g.hasKey {
				switch c.Rng.Intn(12) {
				case 0:
					k = -int64(c.Rng.Intn(50))
				case 1:
					k = math.MaxInt64 - 40 - int64(c.Rng.Intn(100))
				case 2:
					k = 0
				default:
					k = g.snd
				}
			} else {
				if g.maxKey >= math.MaxInt64-8 {
					return 0, false
				}
				k = g.maxKey + 1
				if g.snd > k && c.Rng.Intn(2) == 0 && g.snd < math.MaxInt64-8 {
					k = g.snd
				}
				if c.Rng.Intn(6) == 0 {
					k += int64(c.Rng.Intn(4))
				}
			}
			return k, true
		}
		rangeEnd := func() (int64, int64) {
			base := g.maxKey
			if !g.hasKey {
				base = g.snd
			}
			switch c.Rng.Intn(10) {
			case 0:
				return math.MinInt64, math.MaxInt64
			case 1:
				return 0, math.MaxInt64
			case 2:
				b := base - int64(c.Rng.Intn(6))
				return b + 3, b // empty range
			default:
				b := base - int64(c.Rng.Intn(8))
				if b > base {
					b = base
				}
				e := b + int64(c.Rng.Intn(10))
				if e < b {
					e = math.MaxInt64
				}
				return b, e
			}
		}
		S := Int(i)
		switch r := c.Rng.Intn(100); {
		case r < 30: // save-incr at the next sender number when possible
			k, ok := nextKey()
			if !ok || g.snd+1 >= math.MaxInt64 {
				continue
			}
			bs := genBytes(c)
			ops = append(ops, L(Sym("save-incr"), S, Int64(k), Bytes(bs)))
			g.hasKey, g.maxKey, g.snd, g.size = true, k, g.snd+1, g.size+int64(len(bs))
		case r < 40:
			k, ok := nextKey()
			if !ok {
				continue
			}
			bs := genBytes(c)
			ops = append(ops, L(Sym("save"), S, Int64(k), Bytes(bs)))
			g.hasKey, g.maxKey, g.size = true, k, g.size+int64(len(bs))
		case r < 52:
			b, e := rangeEnd()
			ops = append(ops, L(Sym("get"), S, Int64(b), Int64(e)))
		case r < 62:
			b, e := rangeEnd()
			var ab Sx = None()
			if c.Rng.Intn(3) != 0 {
				ab = Some(Int(c.Rng.Intn(4)))
			}
			ops = append(ops, L(Sym("iter"), S, Int64(b), Int64(e), ab))
		case r < 67:
			if g.snd+1 >= math.MaxInt64 {
				continue
			}
			ops = append(ops, L(Sym("incr-s"), S))
			g.snd++
		case r < 73:
			if g.tgt+1 >= math.MaxInt64 {
				continue
			}
			ops = append(ops, L(Sym("incr-t"), S))
			g.tgt++
		case r < 78:
			n := genCounter(c)
			ops = append(ops, L(Sym("set-s"), S, Int64(n)))
			g.snd = n
		case r < 83:
			n := genCounter(c)
			ops = append(ops, L(Sym("set-t"), S, Int64(n)))
			g.tgt = n
		case r < 88:
			ops = append(ops, L(Sym("refresh"), S, Int64(now)))
		case r < 93:
			ops = append(ops, L(Sym("reset"), S, Int64(now)))
			*g = genSession{snd: 1, tgt: 1}
		default:
			ops = append(ops, L(Sym("reopen"), S, Int64(now)))
		}
	}
	return ops
}

func genStore(c *Ctx) {
	run := func(in Sx) { c.Pending(in); c.Emit(in, runStore(in)) }
	// fixed small histories first: the scenarios of internal/testsuite/store_suite.go in this alphabet
	run(L(Sym("hist"), Bool(true), L(
		L(Sym("save-incr"), Int(0), Int(1), Str("hello")), L(Sym("save-incr"), Int(0), Int(2), Str("cruel")), L(Sym("save-incr"), Int(0), Int(3), Str("world")),
		L(Sym("get"), Int(0), Int(1), Int(3)), L(Sym("get"), Int(0), Int(2), Int(2)), L(Sym("iter"), Int(0), Int(1), Int(3), Some(Int(1))),
		L(Sym("refresh"), Int(0), Int(7)), L(Sym("get"), Int(0), Int(1), Int(3)), L(Sym("reopen"), Int(0), Int(9)), L(Sym("get"), Int(0), Int(0), Int(9)),
		L(Sym("reset"), Int(0), Int(11)), L(Sym("get"), Int(0), Int(1), Int(3)))))
	for n := 0; n < c.N; n++ {
		maxOps := 40
		if n%4 == 0 {
			maxOps = 8
		}
		two := n%3 != 0
		fsync := n%4 == 1
		ops := genHistory(c, maxOps, two)
		run(L(Sym("hist"), Bool(fsync), ops))
	}
}
