package main

// Stream `crash` (C17).
//
//	(crash xPB (op ...) op)   file store, fsync on: run the history, record the primitive trace of the last operation through
//	                          store/file.VerifHook, build the crash images of that operation from the recorded trace, open a real
//	                          store on every image.   Observed:
//	                          ((trace (prim ...)) (shadow T|F) (images (((k j A|B) recobs) ...)))
//	                          prim   = (seek-start F) (seek-end F) (write F off xDATA|T) (sync F) (remove F) (open F), F = 0 body 1 header
//	                                   2 session 3 senderseqnums 4 targetseqnums; the creation-time text is shown as T
//	                          recobs = (open-ok snd tgt ((k (status (msg ...))) ...) (status (msg ...)) (status (msg ...)))
//	(sqlfail (op ...) n xBS k) sqlite store behind a driver that fails the k-th Exec/Commit (1 INSERT, 2 UPDATE, 3 Commit) of
//	                          SaveMessageAndIncrNextSenderMsgSeqNum(n, BS) after the history.  Observed:
//	                          (status sndCache sndRefreshed tgt (msg ...) retryStatus sndAfterRetry (msg ...))

import (
	"bytes"
	"database/sql"
	"database/sql/driver"
	"errors"
	"fmt"
	"math"
	"os"
	"path/filepath"
	"sort"
	"strings"

	sqlite3 "github.com/mattn/go-sqlite3"
	"github.com/quickfixgo/quickfix"
	"github.com/quickfixgo/quickfix/store/file"
	qsql "github.com/quickfixgo/quickfix/store/sql"

	. "qfverif/hx"
)

func init() {
	Register("crash", &Stream{Gen: genCrash, Run: runCrash})
	file.VerifHook = hookEvent
	sql.Register("sqlite3-faulty", &faultyDriver{})
}

// ---- recording through the hook: a shadow of the directory (current and durable content per file)

type shadowFile struct {
	data, dur []byte
}

type prim struct {
	kind string // seek-start seek-end write sync remove open
	file string // base name
	off  int
	data []byte
}

type recorder struct {
	files   map[string]*shadowFile
	pos     map[string]int
	trace   []prim
	capture bool
	bad     string // first inconsistency between the events and the real files
	dir     string // the real directory, compared with the shadow after every event
	live    []liveImage
}

// liveImage is the real directory at an event of the captured operation where it differed from the shadow: a change
// to the files that no hook reported (the crash images built from the trace cannot contain it).
type liveImage struct {
	k     int
	files map[string]*shadowFile
}

var rec *recorder

func cloneFiles(m map[string]*shadowFile) map[string]*shadowFile {
	c := map[string]*shadowFile{}
	for k, v := range m {
		c[k] = &shadowFile{data: append([]byte(nil), v.data...), dur: append([]byte(nil), v.dur...)}
	}
	return c
}

func writeAt(d []byte, off int, bs []byte) []byte {
	for len(d) < off {
		d = append(d, 0)
	}
	if off+len(bs) > len(d) {
		d = append(d[:off:off], bs...)
		return d
	}
	d = append([]byte(nil), d...)
	copy(d[off:], bs)
	return d
}

func applyPrim(files map[string]*shadowFile, p prim) {
	switch p.kind {
	case "open":
		if files[p.file] == nil {
			files[p.file] = &shadowFile{}
		}
	case "remove":
		delete(files, p.file)
	case "write":
		if f := files[p.file]; f != nil {
			f.data = writeAt(f.data, p.off, p.data)
		}
	case "sync":
		if f := files[p.file]; f != nil {
			f.dur = append([]byte(nil), f.data...)
		}
	}
}

func hookEvent(kind, fname string, offset int64, data []byte) {
	r := rec
	if r == nil {
		return
	}
	base := filepath.Base(fname)
	var p prim
	switch kind {
	case "open", "remove", "sync":
		p = prim{kind: kind, file: base}
	case "seek-start":
		r.pos[base] = 0
		p = prim{kind: kind, file: base}
	case "seek-end":
		size := 0
		if f := r.files[base]; f != nil {
			size = len(f.data)
		}
		if offset >= 0 && int(offset) != size && r.bad == "" {
			r.bad = fmt.Sprintf("seek-end of %s reported %d, shadow size %d", base, offset, size)
		}
		r.pos[base] = size
		p = prim{kind: kind, file: base}
	case "write", "write-seqnum", "write-appended":
		d := data
		switch kind {
		case "write-seqnum":
			d = []byte(fmt.Sprintf("%019d", offset))
		case "write-appended":
			all, err := os.ReadFile(fname)
			if err != nil || len(all) < r.pos[base] {
				if r.bad == "" {
					r.bad = "write-appended: cannot read back " + base
				}
				return
			}
			d = all[r.pos[base]:]
		}
		p = prim{kind: "write", file: base, off: r.pos[base], data: append([]byte(nil), d...)}
		r.pos[base] += len(d)
	default: // close, ro-seek-start, step: no effect on the files
		r.liveCheck(kind + " " + base)
		return
	}
	applyPrim(r.files, p)
	if r.capture {
		r.trace = append(r.trace, p)
	}
	r.liveCheck(kind + " " + base)
}

// liveCheck: every hook is called after its file operation, so after each event the files equal the shadow. Where they
// do not, the store changed a file without reporting it; while the last operation is captured the directory as it is
// then is kept as one more crash image (k completed primitives, variant L).
func (r *recorder) liveCheck(at string) {
	if r.dir == "" {
		return
	}
	entries, _ := os.ReadDir(r.dir)
	differs := ""
	real := map[string]*shadowFile{}
	for _, e := range entries {
		d, _ := os.ReadFile(filepath.Join(r.dir, e.Name()))
		real[e.Name()] = &shadowFile{data: d, dur: d}
		if f := r.files[e.Name()]; f != nil && !bytes.Equal(f.data, d) && differs == "" {
			differs = e.Name()
		}
	}
	if differs == "" {
		return
	}
	if r.bad == "" {
		r.bad = "unreported change to " + differs + " seen at event " + at
	}
	if r.capture && len(r.live) < 4 {
		r.live = append(r.live, liveImage{k: len(r.trace), files: real})
	}
}

// checkShadow compares the shadow with the directory.
func (r *recorder) checkShadow(dir string) {
	entries, _ := os.ReadDir(dir)
	seen := map[string]bool{}
	for _, e := range entries {
		seen[e.Name()] = true
		real, _ := os.ReadFile(filepath.Join(dir, e.Name()))
		f := r.files[e.Name()]
		if f == nil || !bytes.Equal(f.data, real) {
			if r.bad == "" {
				r.bad = "shadow differs from file " + e.Name()
			}
		}
	}
	for name := range r.files {
		if !seen[name] && r.bad == "" {
			r.bad = "shadow has file that does not exist: " + name
		}
	}
}

var fileKinds = []string{"body", "header", "session", "senderseqnums", "targetseqnums"}

func kindOf(base string) int {
	for i, k := range fileKinds {
		if strings.HasSuffix(base, "."+k) {
			return i
		}
	}
	return -1
}

func primSx(p prim) Sx {
	k := Int(kindOf(p.file))
	if p.kind == "write" {
		var d Sx = Bytes(p.data)
		if kindOf(p.file) == 2 {
			d = Sym("T")
		}
		return L(Sym("write"), k, Int(p.off), d)
	}
	return L(Sym(p.kind), k)
}

// the same sampling rule as sampled_cuts_for in FileCrash.v
func sampledCuts(p prim) []int {
	n := len(p.data)
	if p.kind != "write" || kindOf(p.file) == 2 {
		return nil
	}
	var c []int
	if n <= 40 {
		for j := 1; j < n; j++ {
			c = append(c, j)
		}
		return c
	}
	return []int{1, n / 8, 2 * n / 8, 3 * n / 8, 4 * n / 8, 5 * n / 8, 6 * n / 8, 7 * n / 8, n - 1}
}

func outSx(status int, msgs [][]byte) Sx { return L(Int(status), msgsSx(msgs)) }

func getSx(st quickfix.MessageStore, b, e int) Sx {
	r := Guard(func() Sx {
		m, err := st.GetMessages(b, e)
		if err != nil {
			return outSx(stErr, m)
		}
		return outSx(stOK, m)
	})
	if a, ok := r.(Atom); ok {
		if a == "panic" {
			return outSx(stPanic, nil)
		}
		return outSx(stFuel, nil)
	}
	return r
}

const rangeLo, rangeHi = math.MinInt64, math.MaxInt64

// observeImage materialises one crash image and opens a real store on it.
func observeImage(files map[string]*shadowFile, durable bool, keys []int64, pb []byte) Sx {
	dir := caseDir("img")
	defer os.RemoveAll(dir)
	for name, f := range files {
		d := f.data
		if durable {
			d = f.dur
		}
		if err := os.WriteFile(filepath.Join(dir, name), d, 0o660); err != nil {
			panic(err)
		}
	}
	saved := rec
	rec = nil // the recovered store is not traced
	defer func() { rec = saved }()
	st, err := file.NewStoreFactory(fileSettings(dir, false)).Create(sessionIDs[0])
	if err != nil {
		return L(Bool(false), Int(0), Int(0), L(), outSx(stOK, nil), outSx(stOK, nil))
	}
	defer st.Close()
	snd, tgt := st.NextSenderMsgSeqNum(), st.NextTargetMsgSeqNum()
	gets := List{}
	for _, k := range keys {
		gets = append(gets, L(Int64(k), getSx(st, int(k), int(k))))
	}
	all := getSx(st, rangeLo, rangeHi)
	_ = st.SaveMessageAndIncrNextSenderMsgSeqNum(snd, pb)
	post := getSx(st, rangeLo, rangeHi)
	return L(Bool(true), Int(snd), Int(tgt), gets, all, post)
}

func runCrashFile(l List) Sx {
	pb := AtomBytes(l[1])
	hist := l[2].(List)
	op := l[3].(List)
	dir := caseDir("crash")
	defer os.RemoveAll(dir)

	rec = &recorder{files: map[string]*shadowFile{}, pos: map[string]int{}, dir: dir}
	defer func() { rec = nil }()
	r := rec
	ff := file.NewStoreFactory(fileSettings(dir, true))
	b := &backend{name: "file", open: func(i int) (quickfix.MessageStore, error) { return ff.Create(sessionIDs[i]) }}
	st, err := b.open(0)
	if err != nil {
		panic(err)
	}
	b.st[0] = st
	r.checkShadow(dir)
	var keys []int64
	for _, o := range hist {
		ol := o.(List)
		b.exec(ol)
		r.checkShadow(dir)
		switch AtomSym(ol[0]) {
		case "save", "save-incr":
			keys = append(keys, AtomInt64(ol[2]))
		case "reset":
			keys = nil
		}
	}
	switch AtomSym(op[0]) {
	case "save", "save-incr":
		keys = append(keys, AtomInt64(op[2]))
	}
	sort.Slice(keys, func(i, j int) bool { return keys[i] < keys[j] })
	pre := cloneFiles(r.files)
	r.capture = true
	b.exec(op)
	r.capture = false
	trace := r.trace
	r.checkShadow(dir)
	_ = b.st[0].Close()

	tr := List{}
	for _, p := range trace {
		tr = append(tr, primSx(p))
	}
	images := List{}
	for k := 0; k <= len(trace); k++ {
		state := cloneFiles(pre)
		for _, p := range trace[:k] {
			applyPrim(state, p)
		}
		images = append(images, L(L(Int(k), Int(0), Sym("A")), observeImage(state, false, keys, pb)))
		images = append(images, L(L(Int(k), Int(0), Sym("B")), observeImage(state, true, keys, pb)))
		if k < len(trace) {
			for _, j := range sampledCuts(trace[k]) {
				part := cloneFiles(state)
				p := trace[k]
				p.data = p.data[:j]
				applyPrim(part, p)
				images = append(images, L(L(Int(k), Int(j), Sym("A")), observeImage(part, false, keys, pb)))
			}
		}
	}
	for _, li := range r.live {
		images = append(images, L(L(Int(li.k), Int(0), Sym("L")), observeImage(li.files, false, keys, pb)))
	}
	return L(L(Sym("trace"), tr), L(Sym("shadow"), Bool(r.bad == "")), L(Sym("images"), images))
}

// ---- SQL fault injection: a database/sql driver around sqlite3 that fails the k-th Exec/Commit once armed

var faultCountdown int // 0 = not armed; otherwise the number of Exec/Commit calls until (and including) the failing one

var errInjected = errors.New("injected failure")

func faultNow() bool {
	if faultCountdown == 0 {
		return false
	}
	faultCountdown--
	return faultCountdown == 0
}

type faultyDriver struct{ inner sqlite3.SQLiteDriver }

func (d *faultyDriver) Open(name string) (driver.Conn, error) {
	c, err := d.inner.Open(name)
	if err != nil {
		return nil, err
	}
	return &faultyConn{c}, nil
}

type faultyConn struct{ inner driver.Conn }

func (c *faultyConn) Prepare(q string) (driver.Stmt, error) {
	s, err := c.inner.Prepare(q)
	if err != nil {
		return nil, err
	}
	return &faultyStmt{s}, nil
}
func (c *faultyConn) Close() error { return c.inner.Close() }
func (c *faultyConn) Begin() (driver.Tx, error) {
	t, err := c.inner.Begin() //nolint
	if err != nil {
		return nil, err
	}
	return &faultyTx{t}, nil
}

type faultyStmt struct{ inner driver.Stmt }

func (s *faultyStmt) Close() error  { return s.inner.Close() }
func (s *faultyStmt) NumInput() int { return s.inner.NumInput() }
func (s *faultyStmt) Exec(args []driver.Value) (driver.Result, error) {
	if faultNow() {
		return nil, errInjected
	}
	return s.inner.Exec(args) //nolint
}
func (s *faultyStmt) Query(args []driver.Value) (driver.Rows, error) { return s.inner.Query(args) } //nolint

type faultyTx struct{ inner driver.Tx }

func (t *faultyTx) Commit() error {
	if faultNow() {
		_ = t.inner.Rollback() // a driver whose COMMIT failed leaves no transaction open (go-sqlite3 does the same on SQLITE_BUSY)
		return errInjected
	}
	return t.inner.Commit()
}
func (t *faultyTx) Rollback() error { return t.inner.Rollback() }

func runSQLFail(l List) Sx {
	hist := l[1].(List)
	n := int(AtomInt64(l[2]))
	bs := AtomBytes(l[3])
	k := AtomInt(l[4])
	dir := caseDir("sqlfail")
	defer os.RemoveAll(dir)
	dsn := createSQLiteDB(filepath.Join(dir, "store.db"))
	sf := qsql.NewStoreFactory(sqlSettings("sqlite3-faulty", dsn))
	b := &backend{name: "sql", open: func(i int) (quickfix.MessageStore, error) { return sf.Create(sessionIDs[i]) }}
	st, err := b.open(0)
	if err != nil {
		panic(err)
	}
	b.st[0] = st
	for _, o := range hist {
		b.exec(o.(List))
	}
	st = b.st[0]
	defer func() { faultCountdown = 0; _ = b.st[0].Close() }()
	status := func(err error) Sx {
		if err != nil {
			return Int(stErr)
		}
		return Int(stOK)
	}
	msgsOf := func() Sx {
		m, _ := st.GetMessages(math.MinInt64, math.MaxInt64)
		return msgsSx(m)
	}
	faultCountdown = k
	s1 := status(st.SaveMessageAndIncrNextSenderMsgSeqNum(n, bs))
	faultCountdown = 0
	sndCache := st.NextSenderMsgSeqNum()
	_ = st.Refresh()
	sndRefreshed, tgt := st.NextSenderMsgSeqNum(), st.NextTargetMsgSeqNum()
	m1 := msgsOf()
	s2 := status(st.SaveMessageAndIncrNextSenderMsgSeqNum(n, bs))
	return L(s1, Int(sndCache), Int(sndRefreshed), Int(tgt), m1, s2, Int(st.NextSenderMsgSeqNum()), msgsOf())
}

func runCrash(in Sx) Sx {
	l := in.(List)
	switch AtomSym(l[0]) {
	case "crash":
		return runCrashFile(l)
	case "sqlfail":
		return runSQLFail(l)
	}
	panic("crash: unknown input " + SxString(in))
}

// ---- generator

func genCrash(c *Ctx) {
	run := func(in Sx) { c.Pending(in); c.Emit(in, runCrash(in)) }
	S := Int(0)
	pb := Str("POST-CRASH-MESSAGE")
	// the witnesses of DESIGN section 7 / F9 and of the two classes around Reset; the last element selects which of the
	// case's signatures (sorted) the model driver reports
	w1 := func(k int) Sx {
		return L(Sym("crash"), pb, L(L(Sym("save-incr"), S, Int(1), Str("FIRST-MESSAGE"))), L(Sym("save-incr"), S, Int(2), Str("SECOND-MESSAGE")), Int(k))
	}
	run(w1(0))                                                                           // header-line-torn
	run(w1(1))                                                                           // save-header-before-body
	run(L(Sym("crash"), pb, L(L(Sym("set-s"), S, Int(9))), L(Sym("incr-s"), S), Int(0))) // counter-inplace-torn-carry: 9 -> 10 cut after 18 bytes reads 19
	w3 := func(k int) Sx {
		return L(Sym("crash"), pb, L(L(Sym("save-incr"), S, Int(1), Str("A")), L(Sym("save-incr"), S, Int(2), Str("B"))), L(Sym("reset"), S, Int(50)), Int(k))
	}
	run(w3(0)) // counter-new-file-torn
	run(w3(1)) // reset-not-atomic
	boundary := []int64{9, 99, 999, 19, 109, 9999, 1, 5}
	for n := 0; n < c.N; n++ {
		if n%5 == 4 {
			// SQL: a short history, then save-and-increment with the k-th statement failing
			ops := genHistory(c, 10, false)
			g := replayGen(ops)
			k, ok := g.next()
			if !ok {
				continue
			}
			run(L(Sym("sqlfail"), ops, Int64(k), Bytes(genBytes(c)), Int(1+c.Rng.Intn(3))))
			continue
		}
		hist := List{}
		if c.Rng.Intn(2) == 0 {
			hist = append(hist, L(Sym("set-s"), S, Int64(boundary[c.Rng.Intn(len(boundary))])))
		}
		hist = append(hist, genHistory(c, 7, false)...)
		g := replayGen(hist)
		var op Sx
		switch r := c.Rng.Intn(100); {
		case r < 50:
			k, ok := g.next()
			if !ok || g.snd+1 >= math.MaxInt64 {
				continue
			}
			op = L(Sym("save-incr"), S, Int64(k), Bytes(shortBytes(c)))
		case r < 58:
			k, ok := g.next()
			if !ok {
				continue
			}
			op = L(Sym("save"), S, Int64(k), Bytes(shortBytes(c)))
		case r < 66:
			if g.snd+1 >= math.MaxInt64 {
				continue
			}
			op = L(Sym("incr-s"), S)
		case r < 72:
			if g.tgt+1 >= math.MaxInt64 {
				continue
			}
			op = L(Sym("incr-t"), S)
		case r < 78:
			op = L(Sym("set-s"), S, Int64(genCounter(c)))
		case r < 82:
			op = L(Sym("set-t"), S, Int64(genCounter(c)))
		case r < 90:
			op = L(Sym("reset"), S, Int(1000))
		case r < 94:
			op = L(Sym("refresh"), S, Int(1000))
		case r < 98:
			op = L(Sym("reopen"), S, Int(1000))
		default:
			op = L(Sym("get"), S, Int(0), Int(100))
		}
		run(L(Sym("crash"), pb, hist, op))
	}
}

func shortBytes(c *Ctx) []byte {
	b := genBytes(c)
	if len(b) > 60 && c.Rng.Intn(4) != 0 {
		b = b[:12+c.Rng.Intn(30)]
	}
	return b
}

// replayGen recomputes the generator's view of session 0 after a history.
type replayState struct {
	genSession
}

func replayGen(ops List) *replayState {
	g := &replayState{genSession{snd: 1, tgt: 1}}
	for _, o := range ops {
		ol := o.(List)
		switch AtomSym(ol[0]) {
		case "save-incr":
			g.hasKey, g.maxKey, g.snd = true, AtomInt64(ol[2]), g.snd+1
		case "save":
			g.hasKey, g.maxKey = true, AtomInt64(ol[2])
		case "incr-s":
			g.snd++
		case "incr-t":
			g.tgt++
		case "set-s":
			g.snd = AtomInt64(ol[2])
		case "set-t":
			g.tgt = AtomInt64(ol[2])
		case "reset":
			g.genSession = genSession{snd: 1, tgt: 1}
		}
	}
	return g
}

// next save number: the sender number when that keeps the numbers ascending, else the successor of the largest key
func (g *replayState) next() (int64, bool) {
	if !g.hasKey {
		return g.snd, true
	}
	if g.maxKey >= math.MaxInt64-8 {
		return 0, false
	}
	if g.snd > g.maxKey {
		return g.snd, true
	}
	return g.maxKey + 1, true
}
