package main

// Area `stores` (C16, C17): the message stores of /repo side by side with the abstract store.
//   stream `store` (C16): generated operation histories on the memory, file and sqlite stores
//   stream `crash` (C17): primitive traces of the file store through the verif hook, crash images, SQL fault injection
// The Mongo store needs a server that does not exist here: not covered.

import (
	"database/sql"
	"fmt"
	"os"
	"path/filepath"
	"sync/atomic"

	"github.com/quickfixgo/quickfix"
	"github.com/quickfixgo/quickfix/config"

	. "qfverif/hx"
)

func main() { Main() }

const tmpRoot = "/verif/_build/tmp"

var caseCounter int64

// caseDir makes a fresh scratch directory for one case; the caller removes it.
func caseDir(kind string) string {
	n := atomic.AddInt64(&caseCounter, 1)
	d := filepath.Join(tmpRoot, fmt.Sprintf("stores-%s-%d-%d", kind, os.Getpid(), n))
	_ = os.RemoveAll(d)
	if err := os.MkdirAll(d, 0o777); err != nil {
		panic(err)
	}
	return d
}

// the two sessions that share a directory / a database; the file-name prefix of the first is a prefix of the second's
var sessionIDs = []quickfix.SessionID{
	{BeginString: "FIX.4.2", SenderCompID: "SND", TargetCompID: "TGT"},
	{BeginString: "FIX.4.2", SenderCompID: "SND", TargetCompID: "TGT", Qualifier: "Q1"},
}

func fileSettings(dir string, fsync bool) *quickfix.Settings {
	s := quickfix.NewSettings()
	g := s.GlobalSettings()
	g.Set(config.DynamicSessions, "Y")
	g.Set(config.FileStorePath, dir)
	if fsync {
		g.Set(config.FileStoreSync, "Y")
	} else {
		g.Set(config.FileStoreSync, "N")
	}
	return s
}

func sqlSettings(driver, dsn string) *quickfix.Settings {
	s := quickfix.NewSettings()
	g := s.GlobalSettings()
	g.Set(config.DynamicSessions, "Y")
	g.Set(config.SQLStoreDriver, driver)
	g.Set(config.SQLStoreDataSourceName, dsn)
	return s
}

// createSQLiteDB makes a file-backed sqlite database with the repository's own DDL (as store/sql/sql_store_test.go does).
func createSQLiteDB(path string) string {
	dsn := "file:" + path + "?_synchronous=OFF&_journal_mode=MEMORY&_busy_timeout=2000"
	db, err := sql.Open("sqlite3", dsn)
	if err != nil {
		panic(err)
	}
	defer db.Close()
	for _, f := range []string{"messages_table.sql", "sessions_table.sql"} {
		ddl, err := os.ReadFile(filepath.Join("/repo/_sql/sqlite3", f))
		if err != nil {
			panic(err)
		}
		if _, err := db.Exec(string(ddl)); err != nil {
			panic(err)
		}
	}
	return dsn
}

// status codes shared with the model (AbsStore.v)
const (
	stOK    = 0
	stErr   = 1
	stCb    = 2
	stPanic = 3
	stFuel  = 4
)

func msgsSx(msgs [][]byte) Sx {
	l := List{}
	for _, m := range msgs {
		l = append(l, Bytes(m))
	}
	return l
}
