package main

// Stream `dict` (C19): the real datadictionary.ParseSrc on shipped and generated specification files.
//
// input : (spec <NAME|none> <doc>)   doc = the XML document as encoding/xml delivers it to the loader
//         doc = (type major minor servicepack <opt comp> <opt comp> (comp...) (comp...) (field...))
//         comp = (name msgtype (member...))   member = (element name required (member...))
//         field = (number name type (enum...))
// output: (ok <dump>) | (err code) | panic | fuel     (dump: see dumpDict; every map in sorted order)

import (
	"bytes"
	"encoding/xml"
	"fmt"
	"io"
	"os"
	"path/filepath"
	"sort"
	"strings"

	dd "github.com/quickfixgo/quickfix/datadictionary"

	. "qfverif/hx"
)

const specDir = "/repo/spec"

func init() {
	Register("dict", &Stream{Gen: genDict, Run: runDict})
}

// ---- document <-> sx ----

func memberSx(m *dd.XMLComponentMember) Sx {
	kids := List{}
	for _, k := range m.Members {
		kids = append(kids, memberSx(k))
	}
	return L(Str(m.XMLName.Local), Str(m.Name), Str(m.Required), kids)
}

func compSx(c *dd.XMLComponent) Sx {
	ms := List{}
	for _, m := range c.Members {
		ms = append(ms, memberSx(m))
	}
	return L(Str(c.Name), Str(c.MsgType), ms)
}

func optCompSx(c *dd.XMLComponent) Sx {
	if c == nil {
		return None()
	}
	return Some(compSx(c))
}

func docSx(d *dd.XMLDoc) Sx {
	msgs, comps, fields := List{}, List{}, List{}
	for _, m := range d.Messages {
		msgs = append(msgs, compSx(m))
	}
	for _, c := range d.Components {
		comps = append(comps, compSx(c))
	}
	for _, f := range d.Fields {
		vs := List{}
		for _, v := range f.Values {
			vs = append(vs, Str(v.Enum))
		}
		fields = append(fields, L(Int(f.Number), Str(f.Name), Str(f.Type), vs))
	}
	return L(Str(d.Type), Str(d.Major), Str(d.Minor), Int(d.ServicePack), optCompSx(d.Header), optCompSx(d.Trailer), msgs, comps, fields)
}

func sxMember(x Sx) *dd.XMLComponentMember {
	l := x.(List)
	m := &dd.XMLComponentMember{Name: string(AtomBytes(l[1])), Required: string(AtomBytes(l[2]))}
	m.XMLName.Local = string(AtomBytes(l[0]))
	for _, k := range l[3].(List) {
		m.Members = append(m.Members, sxMember(k))
	}
	return m
}

func sxComp(x Sx) *dd.XMLComponent {
	l := x.(List)
	c := &dd.XMLComponent{Name: string(AtomBytes(l[0])), MsgType: string(AtomBytes(l[1]))}
	for _, k := range l[2].(List) {
		c.Members = append(c.Members, sxMember(k))
	}
	return c
}

func sxOptComp(x Sx) *dd.XMLComponent {
	if l, ok := x.(List); ok {
		return sxComp(l[1])
	}
	return nil
}

func sxDoc(x Sx) *dd.XMLDoc {
	l := x.(List)
	d := &dd.XMLDoc{Type: string(AtomBytes(l[0])), Major: string(AtomBytes(l[1])), Minor: string(AtomBytes(l[2])), ServicePack: AtomInt(l[3])}
	d.Header, d.Trailer = sxOptComp(l[4]), sxOptComp(l[5])
	for _, m := range l[6].(List) {
		d.Messages = append(d.Messages, sxComp(m))
	}
	for _, c := range l[7].(List) {
		d.Components = append(d.Components, sxComp(c))
	}
	for _, f := range l[8].(List) {
		fl := f.(List)
		xf := &dd.XMLField{Number: AtomInt(fl[0]), Name: string(AtomBytes(fl[1])), Type: string(AtomBytes(fl[2]))}
		for _, v := range fl[3].(List) {
			xf.Values = append(xf.Values, &dd.XMLValue{Enum: string(AtomBytes(v))})
		}
		d.Fields = append(d.Fields, xf)
	}
	return d
}

// ---- document -> XML text ----

func esc(s string) string {
	var b bytes.Buffer
	xml.EscapeText(&b, []byte(s))
	return b.String()
}

func renderMembers(b *strings.Builder, ms []*dd.XMLComponentMember, ind string) {
	for _, m := range ms {
		fmt.Fprintf(b, "%s<%s name='%s' required='%s'", ind, m.XMLName.Local, esc(m.Name), esc(m.Required))
		if len(m.Members) == 0 {
			b.WriteString("/>\n")
			continue
		}
		b.WriteString(">\n")
		renderMembers(b, m.Members, ind+" ")
		fmt.Fprintf(b, "%s</%s>\n", ind, m.XMLName.Local)
	}
}

func renderXML(d *dd.XMLDoc) []byte {
	var b strings.Builder
	fmt.Fprintf(&b, "<fix type='%s' major='%s' minor='%s' servicepack='%d'>\n", esc(d.Type), esc(d.Major), esc(d.Minor), d.ServicePack)
	sec := func(tag string, c *dd.XMLComponent) {
		if c == nil {
			return
		}
		fmt.Fprintf(&b, " <%s>\n", tag)
		renderMembers(&b, c.Members, "  ")
		fmt.Fprintf(&b, " </%s>\n", tag)
	}
	sec("header", d.Header)
	b.WriteString(" <messages>\n")
	for _, m := range d.Messages {
		fmt.Fprintf(&b, "  <message name='%s' msgtype='%s' msgcat='app'>\n", esc(m.Name), esc(m.MsgType))
		renderMembers(&b, m.Members, "   ")
		b.WriteString("  </message>\n")
	}
	b.WriteString(" </messages>\n")
	sec("trailer", d.Trailer)
	b.WriteString(" <components>\n")
	for _, c := range d.Components {
		fmt.Fprintf(&b, "  <component name='%s'>\n", esc(c.Name))
		renderMembers(&b, c.Members, "   ")
		b.WriteString("  </component>\n")
	}
	b.WriteString(" </components>\n <fields>\n")
	for _, f := range d.Fields {
		fmt.Fprintf(&b, "  <field number='%d' name='%s' type='%s'", f.Number, esc(f.Name), esc(f.Type))
		if len(f.Values) == 0 {
			b.WriteString("/>\n")
			continue
		}
		b.WriteString(">\n")
		for _, v := range f.Values {
			fmt.Fprintf(&b, "   <value enum='%s' description='D'/>\n", esc(v.Enum))
		}
		b.WriteString("  </field>\n")
	}
	b.WriteString(" </fields>\n</fix>\n")
	return []byte(b.String())
}

// decodeDoc: the document as the loader's own decoder settings deliver it (datadictionary.ParseSrc).
func decodeDoc(src []byte) (*dd.XMLDoc, error) {
	doc := new(dd.XMLDoc)
	dec := xml.NewDecoder(bytes.NewReader(src))
	dec.CharsetReader = func(_ string, in io.Reader) (io.Reader, error) { return in, nil }
	if err := dec.Decode(doc); err != nil {
		return nil, err
	}
	return doc, nil
}

// ---- dictionary dump ----

func treeSx(f *dd.FieldDef) Sx {
	kids := List{}
	for _, k := range f.Fields {
		kids = append(kids, treeSx(k))
	}
	return L(Int(f.Tag()), Bool(f.Required()), kids)
}

func tagSetSx(head string, s dd.TagSet) Sx {
	var ts []int
	for t := range s {
		ts = append(ts, t)
	}
	sort.Ints(ts)
	l := List{Sym(head)}
	for _, t := range ts {
		l = append(l, Int(t))
	}
	return l
}

func msgDefSx(m *dd.MessageDef) Sx {
	var ts []int
	for t := range m.Fields {
		ts = append(ts, t)
	}
	sort.Ints(ts)
	fl := List{Sym("fields")}
	for _, t := range ts {
		fl = append(fl, L(Int(t), treeSx(m.Fields[t])))
	}
	return L(Str(m.Name), Str(m.MsgType), fl, tagSetSx("tags", m.Tags), tagSetSx("req", m.RequiredTags))
}

func optMsgDefSx(m *dd.MessageDef) Sx {
	if m == nil {
		return None()
	}
	return Some(msgDefSx(m))
}

func dumpDict(d *dd.DataDictionary) Sx {
	var tags []int
	for t := range d.FieldTypeByTag {
		tags = append(tags, t)
	}
	sort.Ints(tags)
	types := List{Sym("types")}
	for _, t := range tags {
		ft := d.FieldTypeByTag[t]
		var es []string
		for e := range ft.Enums {
			es = append(es, e)
		}
		sort.Strings(es)
		el := List{}
		for _, e := range es {
			el = append(el, Str(e))
		}
		types = append(types, L(Int(t), Int(ft.Tag()), Str(ft.Name()), Str(ft.Type), el))
	}
	var names []string
	for n := range d.FieldTypeByName {
		names = append(names, n)
	}
	sort.Strings(names)
	nl := List{Sym("names")}
	for _, n := range names {
		nl = append(nl, L(Str(n), Int(d.FieldTypeByName[n].Tag())))
	}
	names = nil
	for n := range d.ComponentTypes {
		names = append(names, n)
	}
	sort.Strings(names)
	cl := List{Sym("comps")}
	for _, n := range names {
		c := d.ComponentTypes[n]
		fs, rq := List{}, List{}
		for _, f := range c.Fields() {
			fs = append(fs, treeSx(f))
		}
		for _, f := range c.RequiredFields() {
			rq = append(rq, Int(f.Tag()))
		}
		cl = append(cl, L(Str(n), Str(c.Name()), fs, rq))
	}
	names = nil
	for n := range d.Messages {
		names = append(names, n)
	}
	sort.Strings(names)
	ml := List{Sym("msgs")}
	for _, n := range names {
		ml = append(ml, L(Str(n), msgDefSx(d.Messages[n])))
	}
	return L(Sym("dict"), L(Sym("ver"), Str(d.FIXType), Int(d.Major), Int(d.Minor), Int(d.ServicePack)),
		types, nl, cl, ml, L(Sym("header"), optMsgDefSx(d.Header)), L(Sym("trailer"), optMsgDefSx(d.Trailer)))
}

func errCode(err error) int {
	s := err.Error()
	switch {
	case strings.HasPrefix(s, "type attribute"):
		return 1
	case strings.HasPrefix(s, "major attribute"):
		return 2
	case strings.HasPrefix(s, "minor attribute"):
		return 3
	case strings.HasPrefix(s, "unknown component"):
		return 4
	case strings.HasPrefix(s, "unknown field"):
		return 5
	case strings.Contains(s, "references itself"):
		return 6
	}
	return 0
}

func loadXML(src []byte) Sx {
	return Guard(func() Sx {
		d, err := dd.ParseSrc(bytes.NewReader(src))
		if err != nil {
			return L(Sym("err"), Int(errCode(err)))
		}
		return OkV(dumpDict(d))
	})
}

// runDict: replay of one input.  A named shipped specification is read from the repository again.
func runDict(in Sx) Sx {
	l := in.(List)
	name := AtomSym(l[1])
	if name != "none" {
		src, err := os.ReadFile(filepath.Join(specDir, name+".xml"))
		if err != nil {
			panic(err)
		}
		return loadXML(src)
	}
	return loadXML(renderXML(sxDoc(l[2])))
}

func genDict(c *Ctx) {
	files, _ := filepath.Glob(filepath.Join(specDir, "*.xml"))
	sort.Strings(files)
	for _, p := range files {
		src, err := os.ReadFile(p)
		if err != nil {
			panic(err)
		}
		doc, err := decodeDoc(src)
		if err != nil {
			panic(err)
		}
		name := strings.TrimSuffix(filepath.Base(p), ".xml")
		in := L(Sym("spec"), Sym(name), docSx(doc))
		c.Pending(in)
		c.Emit(in, loadXML(src))
	}
	for i := 0; i < c.N; i++ {
		g := &specGen{c: c}
		d := g.doc()
		src := renderXML(d)
		seen, err := decodeDoc(src)
		if err != nil {
			panic(fmt.Sprintf("generated document does not decode: %v\n%s", err, src))
		}
		in2 := L(Sym("spec"), Sym("none"), docSx(seen))
		c.Pending(in2)
		c.Emit(in2, loadXML(src))
	}
}
