package main

// Stream `validate` (C15): for every message type of every shipped dictionary a conforming message generated from
// the REAL loaded dictionary, then single-defect mutants, each under a sampled settings combination; every message
// goes through the real ParseMessageWithDataDictionary and the real Validator.
//
// input : (validate (dicts APP TRANSPORT|none) <app-subdict> <transport-subdict|none> (sub...))
//         subdict = the part of the loaded dictionary the case can touch, in the dump format of stream `dict`
//         sub = (label settings msg)
//           label = conforming | (mut KIND tag)
//           settings = (CheckFieldsOutOfOrder RejectInvalidMessage AllowUnknownMessageFields CheckUserDefinedFields CheckFieldsHaveValues)
//           msg = ((header tags) (body tags) (trailer tags) msgtype-opt ((tag value)...))   -- what the validator reads
// output: (verdict...)   verdict = none | (rej reason tag|none) | panic | fuel

import (
	"bytes"
	"fmt"
	"path/filepath"
	"sort"
	"strconv"
	"strings"

	"github.com/quickfixgo/quickfix"
	dd "github.com/quickfixgo/quickfix/datadictionary"

	. "qfverif/hx"
)

func init() {
	Register("validate", &Stream{Gen: genValidate, Run: runValidate})
}

var dictCache = map[string]*dd.DataDictionary{}

func loadDict(name string) *dd.DataDictionary {
	if name == "none" {
		return nil
	}
	if d, ok := dictCache[name]; ok {
		return d
	}
	d, err := dd.Parse(filepath.Join(specDir, name+".xml"))
	if err != nil {
		panic(err)
	}
	dictCache[name] = d
	return d
}

// ---- wire fields ----

type wf struct {
	tag   int
	val   string
	sec   byte         // 'h' header, 'b' body, 't' trailer
	depth int          // 0 = top level, n = inside n nested groups
	def   *dd.FieldDef // definition of this field
	grp   *dd.FieldDef // innermost enclosing group (nil at top level)
	entry int          // serial number of the enclosing group entry (unique per message)
	first bool         // first member (delimiter) of its entry
}

func serialize(fields []wf) []byte {
	// fields: everything except BeginString(8), BodyLength(9), CheckSum(10); fields[0] need not be MsgType
	var body bytes.Buffer
	begin := ""
	for _, f := range fields {
		if f.tag == 8 {
			begin = f.val
			continue
		}
		fmt.Fprintf(&body, "%d=%s\x01", f.tag, f.val)
	}
	var b bytes.Buffer
	fmt.Fprintf(&b, "8=%s\x019=%d\x01", begin, body.Len())
	b.Write(body.Bytes())
	sum := 0
	for _, c := range b.Bytes() {
		sum += int(c)
	}
	fmt.Fprintf(&b, "10=%03d\x01", sum%256)
	return b.Bytes()
}

// ---- generation of a conforming message from the loaded dictionary ----

type msgGen struct {
	c        *Ctx
	app, tdd *dd.DataDictionary // tdd: the dictionary of header and trailer
	entrySeq int
}

func (g *msgGen) value(d *dd.DataDictionary, tag int) string {
	ft, ok := d.FieldTypeByTag[tag]
	if !ok {
		return "x"
	}
	if len(ft.Enums) > 0 {
		var es []string
		for e := range ft.Enums {
			es = append(es, e)
		}
		sort.Strings(es)
		return es[g.c.Rng.Intn(len(es))]
	}
	switch ft.Type {
	case "BOOLEAN":
		return []string{"Y", "N"}[g.c.Rng.Intn(2)]
	case "LENGTH", "DAYOFMONTH", "NUMINGROUP", "SEQNUM", "INT":
		return strconv.Itoa(1 + g.c.Rng.Intn(28))
	case "UTCTIMESTAMP", "TIME":
		return []string{"20240102-03:04:05", "20240102-03:04:05.123", "20240102-03:04:05.123456", "20240102-03:04:05.123456789"}[g.c.Rng.Intn(4)]
	case "QTY", "QUANTITY", "AMT", "PRICE", "PRICEOFFSET", "PERCENTAGE", "FLOAT":
		return []string{"1", "10.5", "-0.25", "100.", ".5"}[g.c.Rng.Intn(5)]
	case "CHAR":
		return "a"
	case "UTCDATEONLY", "UTCDATE", "LOCALMKTDATE", "DATE":
		return "20240102"
	case "UTCTIMEONLY":
		return "03:04:05"
	case "MONTHYEAR":
		return "202401"
	}
	return []string{"abc", "X", "some text", "0"}[g.c.Rng.Intn(4)]
}

func contains(fs []*dd.FieldDef, f *dd.FieldDef) bool {
	for _, x := range fs {
		if x == f {
			return true
		}
	}
	return false
}

// parts: the members of a message / component / group in declaration order.  force: a field that must be present
// (the delimiter of a group entry), together with every component on the way to it.
func (g *msgGen) parts(d *dd.DataDictionary, parts []dd.MessagePart, sec byte, depth int, grp *dd.FieldDef, entry int, force *dd.FieldDef, skip map[int]bool, p float64) []wf {
	var out []wf
	for _, part := range parts {
		switch pt := part.(type) {
		case dd.Component:
			forced := force != nil && contains(pt.Fields(), force)
			if forced || pt.Required() || g.c.Rng.Float64() < p {
				out = append(out, g.parts(d, pt.Parts(), sec, depth, grp, entry, force, skip, p)...)
			}
		case *dd.FieldDef:
			if skip[pt.Tag()] {
				continue
			}
			if !(pt == force || pt.Required() || g.c.Rng.Float64() < p) {
				continue
			}
			if !pt.IsGroup() {
				out = append(out, wf{tag: pt.Tag(), val: g.value(d, pt.Tag()), sec: sec, depth: depth, def: pt, grp: grp, entry: entry, first: pt == force})
				continue
			}
			n := g.c.Rng.Intn(3)
			if pt.Required() && n == 0 {
				n = 1
			}
			out = append(out, wf{tag: pt.Tag(), val: strconv.Itoa(n), sec: sec, depth: depth, def: pt, grp: grp, entry: entry, first: pt == force})
			for i := 0; i < n; i++ {
				g.entrySeq++
				out = append(out, g.parts(d, pt.Parts, sec, depth+1, pt, g.entrySeq, pt.Fields[0], nil, p)...)
			}
		}
	}
	return out
}

func (g *msgGen) conforming(begin, msgType string) []wf {
	p := []float64{0, 0.15, 0.4, 0.9}[g.c.Rng.Intn(4)]
	fields := []wf{{tag: 8, val: begin, sec: 'h'}, {tag: 35, val: msgType, sec: 'h'}}
	// 8, 9, 35 are placed by hand; 212/213 (XmlDataLen/XmlData) change how the parser cuts fields: left out
	skipH := map[int]bool{8: true, 9: true, 35: true, 212: true, 213: true}
	fields = append(fields, g.parts(g.tdd, g.tdd.Header.Parts, 'h', 0, nil, 0, nil, skipH, p)...)
	md := g.app.Messages[msgType]
	fields = append(fields, g.parts(g.app, md.Parts, 'b', 0, nil, 0, nil, map[int]bool{212: true, 213: true}, p)...)
	fields = append(fields, g.parts(g.tdd, g.tdd.Trailer.Parts, 't', 0, nil, 0, nil, map[int]bool{10: true}, p)...)
	return fields
}

// conformingWith: a conforming message that contains the given top-level / component field
func (g *msgGen) conformingWith(begin, msgType string, force *dd.FieldDef) []wf {
	fields := []wf{{tag: 8, val: begin, sec: 'h'}, {tag: 35, val: msgType, sec: 'h'}}
	skipH := map[int]bool{8: true, 9: true, 35: true, 212: true, 213: true}
	fields = append(fields, g.parts(g.tdd, g.tdd.Header.Parts, 'h', 0, nil, 0, nil, skipH, 0)...)
	md := g.app.Messages[msgType]
	fields = append(fields, g.parts(g.app, md.Parts, 'b', 0, nil, 0, force, map[int]bool{212: true, 213: true}, 0)...)
	fields = append(fields, g.parts(g.tdd, g.tdd.Trailer.Parts, 't', 0, nil, 0, nil, map[int]bool{10: true}, 0)...)
	return fields
}

// ---- mutations ----

type mutant struct {
	kind   string
	tag    int
	fields []wf
}

func clone(f []wf) []wf { return append([]wf(nil), f...) }

func remove(f []wf, i, n int) []wf {
	out := clone(f[:i])
	return append(out, f[i+n:]...)
}

func insert(f []wf, i int, x ...wf) []wf {
	out := clone(f[:i])
	out = append(out, x...)
	return append(out, f[i:]...)
}

// blockLen: length of the block starting at i: the field itself, or a group count with all its entries
func blockLen(f []wf, i int) int {
	n := 1
	if f[i].def != nil && f[i].def.IsGroup() {
		for i+n < len(f) && f[i+n].depth > f[i].depth && f[i+n].sec == f[i].sec {
			n++
		}
	}
	return n
}

func (g *msgGen) mutants(fields []wf, msgType string) []mutant {
	rng := g.c.Rng
	var ms []mutant
	pick := func(ok func(i int) bool) int {
		var c []int
		for i := range fields {
			if fields[i].tag != 8 && fields[i].tag != 35 && ok(i) {
				c = append(c, i)
			}
		}
		if len(c) == 0 {
			return -1
		}
		return c[rng.Intn(len(c))]
	}
	dictOf := func(i int) *dd.DataDictionary {
		if fields[i].sec == 'b' {
			return g.app
		}
		return g.tdd
	}
	lastOf := func(sec byte) int { // index after the last field of the section
		e := 0
		for i := range fields {
			if fields[i].sec == sec {
				e = i + 1
			}
		}
		return e
	}
	// unknown MsgType
	{
		f := clone(fields)
		f[1].val = "~~"
		ms = append(ms, mutant{"msgtype", 35, f})
	}
	// XMLData carried with its length in the header, the data containing SOH bytes: a conforming message (the parser
	// allocates one field slot per SOH byte, so this message leaves slots unused)
	if _, has := g.tdd.Header.Tags[213]; has {
		if _, has := g.tdd.Header.Tags[212]; has {
			present := false
			for _, f := range fields {
				if f.tag == 212 || f.tag == 213 {
					present = true
				}
			}
			if !present {
				data := []string{"<a>\x01</a>", "x\x01y\x01z", "\x01", "<m 1=2\x0134=5\x01/>"}[rng.Intn(4)]
				at := lastOf('h')
				ms = append(ms, mutant{"xmldatasoh", 213, insert(fields, at,
					wf{tag: 212, val: strconv.Itoa(len(data)), sec: 'h', def: g.tdd.Header.Fields[212]},
					wf{tag: 213, val: data, sec: 'h', def: g.tdd.Header.Fields[213]})})
			}
		}
	}
	// missing required top-level field
	if i := pick(func(i int) bool { return fields[i].depth == 0 && fields[i].def != nil && fields[i].def.Required() }); i >= 0 {
		ms = append(ms, mutant{"missing", fields[i].tag, remove(fields, i, blockLen(fields, i))})
	}
	// a field of the dictionary that this message type does not have
	{
		md := g.app.Messages[msgType]
		var cands []int
		for t := range g.app.FieldTypeByTag {
			if _, in := md.Tags[t]; !in && !quickfix.Tag(t).IsHeader() && !quickfix.Tag(t).IsTrailer() {
				if _, inH := g.tdd.Header.Tags[t]; !inH {
					if _, inT := g.tdd.Trailer.Tags[t]; !inT {
						cands = append(cands, t)
					}
				}
			}
		}
		sort.Ints(cands)
		if len(cands) > 0 {
			t := cands[rng.Intn(len(cands))]
			at := lastOf('b')
			if at == 0 {
				at = lastOf('h')
			}
			ms = append(ms, mutant{"undefined", t, insert(fields, at, wf{tag: t, val: g.value(g.app, t), sec: 'b'})})
		}
	}
	// a tag number the dictionary does not know at all (below / above the user-defined range)
	{
		t := 4000 + rng.Intn(999)
		switch rng.Intn(4) {
		case 0:
			t = 5000 + rng.Intn(5000)
		case 1, 2:
			t = []int{5000, 5000, 4999, 5001, 9999}[rng.Intn(5)] // the edges of the user-defined range (UserDefinedTagMin/Max)
		}
		for {
			if _, ok := g.app.FieldTypeByTag[t]; !ok {
				break
			}
			t++
		}
		at := lastOf('b')
		if at == 0 {
			at = lastOf('h')
		}
		ms = append(ms, mutant{"invalidtag", t, insert(fields, at, wf{tag: t, val: "v", sec: 'b'})})
		// the same tag twice: under settings that tolerate it once, the second occurrence is a duplicate
		gap := insert(fields, at, wf{tag: t, val: "v", sec: 'b'})
		at2 := at + 1
		if rng.Intn(2) == 0 && at > 3 {
			at2 = 3 + rng.Intn(at-3) // not adjacent: somewhere earlier in the message
		}
		ms = append(ms, mutant{"dupinvalidtag", t, insert(gap, at2, wf{tag: t, val: "w", sec: 'b'})})
	}
	// empty value
	if i := pick(func(i int) bool { return true }); i >= 0 {
		f := clone(fields)
		f[i].val = ""
		ms = append(ms, mutant{"empty", f[i].tag, f})
	}
	// value outside the enumeration
	if i := pick(func(i int) bool {
		ft, ok := dictOf(i).FieldTypeByTag[fields[i].tag]
		return ok && len(ft.Enums) > 0
	}); i >= 0 {
		f := clone(fields)
		f[i].val = "~"
		ms = append(ms, mutant{"enum", f[i].tag, f})
	}
	// ill-typed value
	if i := pick(func(i int) bool {
		ft, ok := dictOf(i).FieldTypeByTag[fields[i].tag]
		if !ok || len(ft.Enums) > 0 {
			return false
		}
		switch ft.Type {
		case "BOOLEAN", "LENGTH", "DAYOFMONTH", "NUMINGROUP", "SEQNUM", "INT", "UTCTIMESTAMP", "TIME", "QTY", "QUANTITY", "AMT", "PRICE", "PRICEOFFSET", "PERCENTAGE", "FLOAT":
			return true
		}
		return false
	}); i >= 0 {
		f := clone(fields)
		bad := []string{"x", "1x", "1e3", "-"}
		switch dictOf(i).FieldTypeByTag[fields[i].tag].Type {
		case "BOOLEAN":
			bad = []string{"x", "Yes", "2024", "1", "y"}
		case "UTCTIMESTAMP", "TIME":
			bad = []string{"x", "2024", "20240102-03:04", "20240102-03:04:05,123", "20240102-25:04:05"}
		case "QTY", "QUANTITY", "AMT", "PRICE", "PRICEOFFSET", "PERCENTAGE", "FLOAT":
			bad = []string{"x", "1x", "1e3", "+1", "-", "1.2.3"}
		}
		f[i].val = bad[rng.Intn(len(bad))]
		ms = append(ms, mutant{"illtyped", f[i].tag, f})
	}
	// duplicate of a top-level plain field, elsewhere in its section
	if i := pick(func(i int) bool { return fields[i].depth == 0 && fields[i].def != nil && !fields[i].def.IsGroup() }); i >= 0 {
		at := lastOf(fields[i].sec)
		ms = append(ms, mutant{"duplicate", fields[i].tag, insert(fields, at, fields[i])})
	}
	// header field after the body has begun / body field among the header fields
	if lastOf('b') > lastOf('h') {
		if i := pick(func(i int) bool {
			return fields[i].sec == 'h' && fields[i].depth == 0 && fields[i].def != nil && !fields[i].def.IsGroup()
		}); i >= 0 {
			x := fields[i]
			f := remove(fields, i, 1)
			ms = append(ms, mutant{"order-header-late", x.tag, insert(f, lastOf('b')-1, x)})
		}
		if i := pick(func(i int) bool {
			return fields[i].sec == 'b' && fields[i].depth == 0 && fields[i].def != nil && !fields[i].def.IsGroup()
		}); i >= 0 && lastOf('h') > 3 {
			x := fields[i]
			f := remove(fields, i, 1)
			at := 2 + rng.Intn(lastOf('h')-3)
			ms = append(ms, mutant{"order-body-early", x.tag, insert(f, at, x)})
		}
	}
	// group defects
	if i := pick(func(i int) bool { return fields[i].depth > 0 && !fields[i].first && fields[i].def.Required() }); i >= 0 {
		ms = append(ms, mutant{"group-missing", fields[i].tag, remove(fields, i, blockLen(fields, i))})
	}
	if i := pick(func(i int) bool { return fields[i].depth > 0 && fields[i].first }); i >= 0 {
		ms = append(ms, mutant{"group-delimiter", fields[i].tag, remove(fields, i, blockLen(fields, i))})
	}
	if i := pick(func(i int) bool {
		j := i + blockLen(fields, i)
		return fields[i].depth > 0 && !fields[i].first && j < len(fields) && fields[j].depth == fields[i].depth && fields[j].entry == fields[i].entry && !fields[j].first
	}); i >= 0 {
		n := blockLen(fields, i)
		m := blockLen(fields, i+n)
		f := clone(fields[:i])
		f = append(f, fields[i+n:i+n+m]...)
		f = append(f, fields[i:i+n]...)
		f = append(f, fields[i+n+m:]...)
		ms = append(ms, mutant{"group-order", fields[i].tag, f})
	}
	if i := pick(func(i int) bool { return fields[i].def != nil && fields[i].def.IsGroup() }); i >= 0 {
		f := clone(fields)
		n, _ := strconv.Atoi(f[i].val)
		if n > 0 && rng.Intn(2) == 0 {
			f[i].val = strconv.Itoa(n - 1)
		} else {
			f[i].val = strconv.Itoa(n + 1)
		}
		ms = append(ms, mutant{"group-count", f[i].tag, f})
	}
	return ms
}

// ---- running the implementation ----

type vset = quickfix.ValidatorSettings

func settingsSx(s vset) Sx {
	return L(Bool(s.CheckFieldsOutOfOrder), Bool(s.RejectInvalidMessage), Bool(s.AllowUnknownMessageFields), Bool(s.CheckUserDefinedFields), Bool(s.CheckFieldsHaveValues))
}

func sxSettings(x Sx) vset {
	l := x.(List)
	return vset{CheckFieldsOutOfOrder: AtomBool(l[0]), RejectInvalidMessage: AtomBool(l[1]), AllowUnknownMessageFields: AtomBool(l[2]), CheckUserDefinedFields: AtomBool(l[3]), CheckFieldsHaveValues: AtomBool(l[4])}
}

func tagsSx(ts []quickfix.Tag) Sx {
	var is []int
	for _, t := range ts {
		is = append(is, int(t))
	}
	sort.Ints(is)
	l := List{}
	for _, t := range is {
		l = append(l, Int(t))
	}
	return l
}

// parsedSx: the parsed message as the validator reads it; nil if the parser refuses the bytes
func parsedSx(raw []byte, app, transport *dd.DataDictionary) (Sx, *quickfix.Message) {
	msg := quickfix.NewMessage()
	if err := quickfix.ParseMessageWithDataDictionary(msg, bytes.NewBuffer(raw), transport, app); err != nil {
		return nil, nil
	}
	mt := None()
	if msg.Header.Has(35) {
		s, _ := msg.Header.GetString(35)
		mt = Some(Str(s))
	}
	// the field list the model and the specification judge is read off the wire by a scanner of our own (tag=value SOH, the
	// value of 213 taken with the length 212 announced), not taken from the parser's field array: if the array the
	// validator walks over is not the wire's fields (unused or stale slots), the verdicts differ
	fl := List{}
	for _, f := range wireFields(raw) {
		fl = append(fl, L(Int(f.tag), Bytes(f.val)))
	}
	return L(tagsSx(msg.Header.Tags()), tagsSx(msg.Body.Tags()), tagsSx(msg.Trailer.Tags()), mt, fl), msg
}

type wireField struct {
	tag int
	val []byte
}

func wireFields(raw []byte) []wireField {
	var out []wireField
	dataLen := -1
	for len(raw) > 0 {
		eq := bytes.IndexByte(raw, '=')
		if eq < 0 {
			break
		}
		tag, err := strconv.Atoi(string(raw[:eq]))
		if err != nil {
			break
		}
		rest := raw[eq+1:]
		end := bytes.IndexByte(rest, 1)
		if tag == 213 && dataLen >= 0 && dataLen < len(rest) && rest[dataLen] == 1 {
			end = dataLen
		}
		if end < 0 {
			break
		}
		out = append(out, wireField{tag, rest[:end]})
		dataLen = -1
		if tag == 212 {
			if n, err := strconv.Atoi(string(rest[:end])); err == nil {
				dataLen = n
			}
		}
		raw = rest[end+1:]
	}
	return out
}

func verdict(s vset, app, transport *dd.DataDictionary, msg *quickfix.Message) Sx {
	return Guard(func() Sx {
		rej := quickfix.NewValidator(s, app, transport).Validate(msg)
		if rej == nil {
			return Sym("none")
		}
		ref := None()
		if t := rej.RefTagID(); t != nil {
			ref = Int(int(*t))
		}
		return L(Sym("rej"), Int(rej.RejectReason()), ref)
	})
}

// subDict: the part of d the case can touch (dump format of stream `dict`)
func subDict(d *dd.DataDictionary, msgType string, tags map[int]bool) Sx {
	if d == nil {
		return Sym("none")
	}
	var ts []int
	for t := range tags {
		if _, ok := d.FieldTypeByTag[t]; ok {
			ts = append(ts, t)
		}
	}
	sort.Ints(ts)
	types := List{Sym("types")}
	for _, t := range ts {
		ft := d.FieldTypeByTag[t]
		var es []string
		for e := range ft.Enums {
			es = append(es, e)
		}
		sort.Strings(es)
		el := List{}
		for _, e := range es {
			el = append(el, Str(e))
		}
		types = append(types, L(Int(t), Int(ft.Tag()), Str(ft.Name()), Str(ft.Type), el))
	}
	ml := List{Sym("msgs")}
	if m, ok := d.Messages[msgType]; ok {
		ml = append(ml, L(Str(msgType), msgDefSx(m)))
	}
	return L(Sym("dict"), L(Sym("ver"), Str(d.FIXType), Int(d.Major), Int(d.Minor), Int(d.ServicePack)),
		types, L(Sym("names")), L(Sym("comps")), ml, L(Sym("header"), optMsgDefSx(d.Header)), L(Sym("trailer"), optMsgDefSx(d.Trailer)))
}

type subCase struct {
	label    Sx
	settings vset
	raw      []byte
}

// emitCase parses and validates every sub-case and emits one line
func emitCase(c *Ctx, appName, trName string, msgTypes []string, subs []subCase) {
	app, transport := loadDict(appName), loadDict(trName)
	need := map[int]bool{}
	var subSx, obs List
	for _, s := range subs {
		p, msg := parsedSx(s.raw, app, transport)
		if p == nil {
			continue // the parser refuses these bytes: nothing reaches the validator
		}
		for _, f := range p.(List)[4].(List) {
			need[AtomInt(f.(List)[0])] = true
		}
		subSx = append(subSx, L(s.label, settingsSx(s.settings), p))
		obs = append(obs, verdict(s.settings, app, transport, msg))
	}
	if len(subSx) == 0 {
		return
	}
	// the message definitions the sub-cases can select
	mts := map[string]bool{}
	for _, m := range msgTypes {
		mts[m] = true
	}
	dump := func(d *dd.DataDictionary) Sx {
		if d == nil {
			return Sym("none")
		}
		x := subDict(d, "", need).(List)
		ml := List{Sym("msgs")}
		var ks []string
		for k := range mts {
			if _, ok := d.Messages[k]; ok {
				ks = append(ks, k)
			}
		}
		sort.Strings(ks)
		for _, k := range ks {
			ml = append(ml, L(Str(k), msgDefSx(d.Messages[k])))
		}
		x[5] = ml
		return x
	}
	c.Emit(L(Sym("validate"), L(Sym("dicts"), Sym(appName), Sym(trName)), dump(app), dump(transport), subSx), obs)
}

func randomSettings(c *Ctx) vset {
	if c.Rng.Intn(3) == 0 {
		return vset{CheckFieldsOutOfOrder: true, RejectInvalidMessage: true, AllowUnknownMessageFields: false, CheckUserDefinedFields: true, CheckFieldsHaveValues: true}
	}
	b := func() bool { return c.Rng.Intn(2) == 0 }
	return vset{CheckFieldsOutOfOrder: b(), RejectInvalidMessage: b(), AllowUnknownMessageFields: b(), CheckUserDefinedFields: b(), CheckFieldsHaveValues: b()}
}

var dictPairs = [][2]string{{"FIX40", "none"}, {"FIX41", "none"}, {"FIX42", "none"}, {"FIX43", "none"}, {"FIX44", "none"},
	{"FIX50", "FIXT11"}, {"FIX50SP1", "FIXT11"}, {"FIX50SP2", "FIXT11"}}

func beginStringOf(d *dd.DataDictionary) string {
	if d.FIXType == "FIXT" {
		return fmt.Sprintf("FIXT.%d.%d", d.Major, d.Minor)
	}
	return fmt.Sprintf("FIX.%d.%d", d.Major, d.Minor)
}

// genValidate: c.N = number of mutants per message type (quick 3); every message type of every dictionary pair once
func genValidate(c *Ctx) {
	for _, pair := range dictPairs {
		app, transport := loadDict(pair[0]), loadDict(pair[1])
		// message types: those of the application dictionary, plus the admin messages of the transport dictionary
		type mt struct {
			d    *dd.DataDictionary
			name string
		}
		var mts []mt
		var ks []string
		for k := range app.Messages {
			ks = append(ks, k)
		}
		sort.Strings(ks)
		for _, k := range ks {
			mts = append(mts, mt{app, k})
		}
		if transport != nil {
			ks = nil
			for k := range transport.Messages {
				ks = append(ks, k)
			}
			sort.Strings(ks)
			for _, k := range ks {
				mts = append(mts, mt{transport, k})
			}
		}
		tdd := app
		if transport != nil {
			tdd = transport
		}
		rounds := 1
		if c.Tier == "thorough" {
			rounds = 4 // four conforming messages (different optional fields / group sizes) per message type
		}
		seenTypes := map[string]bool{}
		note := func(d *dd.DataDictionary, fs []wf) {
			for _, f := range fs {
				if ft, ok := d.FieldTypeByTag[f.tag]; ok {
					seenTypes[ft.Type] = true
				}
			}
		}
		for r := 0; r < rounds; r++ {
			for _, m := range mts {
				g := &msgGen{c: c, app: m.d, tdd: tdd}
				conf := g.conforming(beginStringOf(tdd), m.name)
				note(m.d, conf)
				subs := []subCase{{Sym("conforming"), randomSettings(c), serialize(conf)}}
				all := g.mutants(conf, m.name)
				c.Rng.Shuffle(len(all), func(i, j int) { all[i], all[j] = all[j], all[i] })
				n := c.N
				if c.Tier == "thorough" {
					n = len(all)
				}
				for i := 0; i < len(all) && i < n; i++ {
					subs = append(subs, subCase{L(Sym("mut"), Sym(all[i].kind), Int(all[i].tag)), randomSettings(c), serialize(all[i].fields)})
				}
				emitCase(c, pair[0], pair[1], []string{m.name, "~~"}, subs)
			}
		}
		// type coverage: every field type the dictionary uses appears in at least one validated message (a top-level or
		// component field of that type is forced into a conforming message of a type that has it)
		for _, m := range mts {
			md := m.d.Messages[m.name]
			var tags []int
			for t := range md.Fields {
				tags = append(tags, t)
			}
			sort.Ints(tags)
			for _, t := range tags {
				fd := md.Fields[t]
				ft, ok := m.d.FieldTypeByTag[t]
				if !ok || seenTypes[ft.Type] || fd.IsGroup() || t == 212 || t == 213 {
					continue
				}
				g := &msgGen{c: c, app: m.d, tdd: tdd}
				conf := g.conformingWith(beginStringOf(tdd), m.name, fd)
				has := false
				for _, f := range conf {
					if f.tag == t {
						has = true
					}
				}
				if !has {
					continue
				}
				note(m.d, conf)
				emitCase(c, pair[0], pair[1], []string{m.name, "~~"}, []subCase{{L(Sym("typecover"), Str(ft.Type)), randomSettings(c), serialize(conf)}})
			}
		}
	}
}

// runValidate: replay of one line: the wire fields are written out again and go through parser and validator
func runValidate(in Sx) Sx {
	l := in.(List)
	names := l[1].(List)
	app, transport := loadDict(AtomSym(names[1])), loadDict(AtomSym(names[2]))
	obs := List{}
	for _, s := range l[4].(List) {
		sl := s.(List)
		var b strings.Builder
		for _, f := range sl[2].(List)[4].(List) {
			fl := f.(List)
			fmt.Fprintf(&b, "%d=%s\x01", AtomInt(fl[0]), AtomBytes(fl[1]))
		}
		_, msg := parsedSx([]byte(b.String()), app, transport)
		if msg == nil {
			obs = append(obs, Sym("unparsed"))
			continue
		}
		obs = append(obs, verdict(sxSettings(sl[1]), app, transport, msg))
	}
	return obs
}
