package main

// Area `dict`: streams `dict` (C19) and `validate` (C15).

import (
	. "qfverif/hx"
)

func main() { Main() }
