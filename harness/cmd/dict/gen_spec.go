package main

// Generator of specification documents for stream `dict`: nested components (depth <= 5), groups in
// components in groups, optional / required members, and, per document, at most one kind of defect
// (dangling field / component reference, cyclic components, duplicate names, bad header attributes,
// unusual elements).

import (
	"fmt"

	dd "github.com/quickfixgo/quickfix/datadictionary"

	. "qfverif/hx"
)

type specGen struct {
	c       *Ctx
	nFields int
	nComps  int
	mode    string
	level   []int // level[i] of component i: references go to strictly higher levels only (acyclic)
}

var fieldTypes = []string{"STRING", "INT", "CHAR", "BOOLEAN", "PRICE", "NUMINGROUP", "UTCTIMESTAMP", "QTY", "LENGTH", "DATA", "FOO"}

func (g *specGen) req() string {
	switch g.c.Rng.Intn(10) {
	case 0, 1, 2, 3:
		return "Y"
	case 4:
		return ""
	case 5:
		if g.mode == "odd" {
			return "y"
		}
	}
	return "N"
}

func (g *specGen) fieldName() string { return fmt.Sprintf("F%d", 1+g.c.Rng.Intn(g.nFields)) }

func (g *specGen) member(depth int, minLevel int) *dd.XMLComponentMember {
	m := &dd.XMLComponentMember{Required: g.req()}
	r := g.c.Rng.Intn(100)
	var cands []int
	for i := 0; i < g.nComps; i++ {
		if g.level[i] >= minLevel {
			cands = append(cands, i)
		}
	}
	switch {
	case r < 25 && len(cands) > 0:
		m.XMLName.Local = "component"
		m.Name = fmt.Sprintf("C%d", 1+cands[g.c.Rng.Intn(len(cands))])
		if g.mode == "odd" && g.c.Rng.Intn(4) == 0 {
			m.Members = g.members(depth+1, minLevel) // children of a component reference are ignored by the loader
		}
	case r < 45 && depth < 4:
		m.XMLName.Local = "group"
		m.Name = g.fieldName()
		m.Members = g.members(depth+1, minLevel)
	default:
		m.XMLName.Local = "field"
		m.Name = g.fieldName()
		if g.mode == "odd" {
			switch g.c.Rng.Intn(6) {
			case 0:
				m.XMLName.Local = "other"
			case 1:
				m.Members = g.members(depth+1, minLevel) // children of a plain field are ignored
			}
		}
	}
	return m
}

func (g *specGen) members(depth int, minLevel int) []*dd.XMLComponentMember {
	n := g.c.Rng.Intn(5)
	if depth == 0 {
		n = 1 + g.c.Rng.Intn(6)
	}
	var ms []*dd.XMLComponentMember
	for i := 0; i < n; i++ {
		ms = append(ms, g.member(depth, minLevel))
	}
	return ms
}

// allMembers visits every member of the document (deep).
func allMembers(d *dd.XMLDoc, f func(m *dd.XMLComponentMember)) {
	var walk func(ms []*dd.XMLComponentMember)
	walk = func(ms []*dd.XMLComponentMember) {
		for _, m := range ms {
			f(m)
			walk(m.Members)
		}
	}
	for _, c := range d.Components {
		walk(c.Members)
	}
	for _, c := range d.Messages {
		walk(c.Members)
	}
	if d.Header != nil {
		walk(d.Header.Members)
	}
	if d.Trailer != nil {
		walk(d.Trailer.Members)
	}
}

func (g *specGen) doc() *dd.XMLDoc {
	rng := g.c.Rng
	modes := []string{"valid", "valid", "valid", "valid", "valid", "valid", "dangling-field", "dangling-component", "cycle", "dup", "header", "odd"}
	g.mode = modes[rng.Intn(len(modes))]
	g.nFields = 3 + rng.Intn(12)
	g.nComps = rng.Intn(9)
	d := &dd.XMLDoc{Type: "FIX", Major: "4", Minor: fmt.Sprint(rng.Intn(5)), ServicePack: rng.Intn(3)}
	if rng.Intn(4) == 0 {
		d.Type = "FIXT"
	}
	for i := 1; i <= g.nFields; i++ {
		f := &dd.XMLField{Number: i * 7 % 1000, Name: fmt.Sprintf("F%d", i), Type: fieldTypes[rng.Intn(len(fieldTypes))]}
		if rng.Intn(3) == 0 {
			for k := rng.Intn(4); k >= 0; k-- {
				f.Values = append(f.Values, &dd.XMLValue{Enum: string(rune('A' + rng.Intn(5)))})
			}
		}
		d.Fields = append(d.Fields, f)
	}
	// component levels 0..4: a component refers to components of a strictly higher level: nesting depth <= 5
	g.level = make([]int, g.nComps)
	for i := range g.level {
		g.level[i] = rng.Intn(5)
	}
	for i := 0; i < g.nComps; i++ {
		d.Components = append(d.Components, &dd.XMLComponent{Name: fmt.Sprintf("C%d", i+1), Members: g.members(0, g.level[i]+1)})
	}
	nm := 1 + rng.Intn(4)
	for i := 0; i < nm; i++ {
		d.Messages = append(d.Messages, &dd.XMLComponent{Name: fmt.Sprintf("M%d", i), MsgType: string(rune('A' + i)), Members: g.members(0, 0)})
	}
	if rng.Intn(8) != 0 {
		d.Header = &dd.XMLComponent{Members: g.members(0, 0)}
	}
	if rng.Intn(8) != 0 {
		d.Trailer = &dd.XMLComponent{Members: g.members(0, 0)}
	}
	// one defect
	var all []*dd.XMLComponentMember
	allMembers(d, func(m *dd.XMLComponentMember) { all = append(all, m) })
	pick := func(el string) *dd.XMLComponentMember {
		var c []*dd.XMLComponentMember
		for _, m := range all {
			if m.XMLName.Local == el {
				c = append(c, m)
			}
		}
		if len(c) == 0 {
			return nil
		}
		return c[rng.Intn(len(c))]
	}
	switch g.mode {
	case "dangling-field":
		el := "field"
		if rng.Intn(3) == 0 {
			el = "group"
		}
		if m := pick(el); m != nil {
			m.Name = "Nowhere"
		}
	case "dangling-component":
		if m := pick("component"); m != nil {
			m.Name = "CNowhere"
		} else if len(d.Messages) > 0 {
			m := &dd.XMLComponentMember{Name: "CNowhere", Required: "N"}
			m.XMLName.Local = "component"
			d.Messages[0].Members = append(d.Messages[0].Members, m)
		}
	case "cycle":
		if g.nComps > 0 {
			// a reference back to a component of a lower or equal level, possibly inside a group
			from := rng.Intn(g.nComps)
			to := rng.Intn(g.nComps)
			if g.level[to] > g.level[from] {
				from, to = to, from
			}
			m := &dd.XMLComponentMember{Name: fmt.Sprintf("C%d", to+1), Required: g.req()}
			m.XMLName.Local = "component"
			if rng.Intn(2) == 0 {
				grp := &dd.XMLComponentMember{Name: g.fieldName(), Required: "N", Members: []*dd.XMLComponentMember{m}}
				grp.XMLName.Local = "group"
				m = grp
			}
			c := d.Components[from]
			pos := rng.Intn(len(c.Members) + 1)
			c.Members = append(c.Members[:pos:pos], append([]*dd.XMLComponentMember{m}, c.Members[pos:]...)...)
		}
	case "dup":
		switch rng.Intn(4) {
		case 0: // two fields with one name
			d.Fields = append(d.Fields, &dd.XMLField{Number: 900 + rng.Intn(50), Name: g.fieldName(), Type: "STRING"})
		case 1: // two fields with one number
			d.Fields = append(d.Fields, &dd.XMLField{Number: d.Fields[rng.Intn(len(d.Fields))].Number, Name: "Fdup", Type: "INT"})
		case 2: // two components with one name
			if g.nComps > 0 {
				i := rng.Intn(g.nComps)
				c := &dd.XMLComponent{Name: d.Components[i].Name, Members: g.members(0, g.level[i]+1)}
				pos := rng.Intn(len(d.Components) + 1)
				d.Components = append(d.Components[:pos:pos], append([]*dd.XMLComponent{c}, d.Components[pos:]...)...)
			}
		case 3: // two messages with one MsgType
			d.Messages = append(d.Messages, &dd.XMLComponent{Name: "Mdup", MsgType: d.Messages[0].MsgType, Members: g.members(0, 0)})
		}
	case "header":
		switch rng.Intn(5) {
		case 0:
			d.Type = "fix"
		case 1:
			d.Major = ""
		case 2:
			d.Minor = "x1"
		case 3:
			d.Major = "+4"
		case 4:
			d.Minor = "99999999999999999999"
		}
	}
	return d
}
