package main

// Area codec: streams `fieldmap` (C10) and `parse` (C11, C09).

import (
	"sort"

	"github.com/quickfixgo/quickfix"

	. "qfverif/hx"
)

func main() { Main() }

// ((tag ((tag value) ...)) ...) sorted by key: the contents of a FieldMap's tagLookup
func entriesSx(fm *quickfix.FieldMap) Sx {
	es := quickfix.VerifEntries(fm)
	keys := make([]int, 0, len(es))
	for k := range es {
		keys = append(keys, k)
	}
	sort.Ints(keys)
	out := List{}
	for _, k := range keys {
		tvs := List{}
		for _, tv := range es[k] {
			tvs = append(tvs, L(Int(tv.Tag), Bytes(tv.Value)))
		}
		out = append(out, L(Int(k), tvs))
	}
	return out
}

func intsSx(xs []int) Sx {
	out := List{}
	for _, x := range xs {
		out = append(out, Int(x))
	}
	return out
}
