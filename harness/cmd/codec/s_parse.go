package main

// Stream `parse` (C11, C09): ParseMessageWithDataDictionary on generated field lists and on arbitrary bytes.
//
// input   (fields ((tag xVAL) ...) TD AD)  |  (raw xBYTES TD AD)
//         TD = none | (td (tag ...) (tag ...))            extra header / trailer tags of a transport dictionary
//         AD = none | (ad (xMSGTYPE GDEF ...) ...)        GDEF = (tag GDEF ...)   repeating-group trees per message type
// observe panic | fuel | err | (ok HDR BODY TRL ((tag xVAL xBYTES) ...) xBODYBYTES xRAW)

import (
	"bytes"
	"fmt"
	"strconv"

	"github.com/quickfixgo/quickfix"
	"github.com/quickfixgo/quickfix/datadictionary"

	. "qfverif/hx"
)

func init() {
	Register("parse", &Stream{Gen: genParse, Run: runParse})
}

type pf struct {
	tag int
	val []byte
}

func serFields(fs []pf) []byte {
	var b bytes.Buffer
	for _, f := range fs {
		b.WriteString(strconv.Itoa(f.tag))
		b.WriteByte('=')
		b.Write(f.val)
		b.WriteByte(1)
	}
	return b.Bytes()
}

func mkFieldDef(g Sx) *datadictionary.FieldDef {
	l := g.(List)
	tag := AtomInt(l[0])
	ft := datadictionary.NewFieldType(fmt.Sprintf("F%d", tag), tag, "STRING")
	if len(l) == 1 {
		return datadictionary.NewFieldDef(ft, false)
	}
	parts := []datadictionary.MessagePart{}
	for _, c := range l[1:] {
		parts = append(parts, mkFieldDef(c))
	}
	return datadictionary.NewGroupFieldDef(ft, false, parts)
}

func mkAppDict(ad Sx) *datadictionary.DataDictionary {
	if a, ok := ad.(Atom); ok && string(a) == "none" {
		return nil
	}
	d := &datadictionary.DataDictionary{Messages: map[string]*datadictionary.MessageDef{}}
	for _, m := range ad.(List)[1:] {
		ml := m.(List)
		mt := string(AtomBytes(ml[0]))
		if _, dup := d.Messages[mt]; dup {
			continue // the first definition of a message type is the one the model finds
		}
		parts := []datadictionary.MessagePart{}
		for _, g := range ml[1:] {
			parts = append(parts, mkFieldDef(g))
		}
		d.Messages[mt] = datadictionary.NewMessageDef("M", mt, parts)
	}
	return d
}

func mkTransportDict(td Sx) *datadictionary.DataDictionary {
	if a, ok := td.(Atom); ok && string(a) == "none" {
		return nil
	}
	l := td.(List)
	mk := func(tags Sx) *datadictionary.MessageDef {
		parts := []datadictionary.MessagePart{}
		for _, t := range tags.(List) {
			parts = append(parts, mkFieldDef(L(t)))
		}
		return datadictionary.NewMessageDef("S", "", parts)
	}
	return &datadictionary.DataDictionary{Messages: map[string]*datadictionary.MessageDef{}, Header: mk(l[1]), Trailer: mk(l[2])}
}

func runParse(in Sx) Sx {
	l := in.(List)
	var raw []byte
	switch AtomSym(l[0]) {
	case "fields":
		fs := []pf{}
		for _, f := range l[1].(List) {
			fl := f.(List)
			fs = append(fs, pf{AtomInt(fl[0]), AtomBytes(fl[1])})
		}
		raw = serFields(fs)
	case "raw":
		raw = AtomBytes(l[1])
	default:
		panic("parse: bad input")
	}
	td := mkTransportDict(l[2])
	ad := mkAppDict(l[3])
	// withBody false leaves bodyBytes out: when no header field follows MsgType the parser never assigns it (it stays what
	// the object held before; empty in a new object). No message of a session is like that (49/56/34/52 follow 35), bodyBytes
	// is not exported and is not among the things C11 speaks of, so the reused-object comparison skips it in that one case.
	parseInto := func(m *quickfix.Message, withBody bool) Sx {
		return Guard(func() Sx {
			buf := bytes.NewBuffer(append([]byte(nil), raw...))
			if err := quickfix.ParseMessageWithDataDictionary(m, buf, td, ad); err != nil {
				return ErrV()
			}
			fields := List{}
			for _, tv := range quickfix.VerifFields(m) {
				fields = append(fields, L(Int(tv.Tag), Bytes(tv.Value), Bytes(tv.Bytes)))
			}
			bb := quickfix.VerifBodyBytes(m)
			if !withBody {
				bb = nil
			}
			return OkV(L(entriesSx(&m.Header.FieldMap), entriesSx(&m.Body.FieldMap), entriesSx(&m.Trailer.FieldMap),
				fields, Bytes(bb), Bytes(m.Bytes())))
		})
	}
	fresh := parseInto(quickfix.NewMessage(), true)
	freshHasBody := false
	if fl, ok := fresh.(List); ok && len(fl) == 2 {
		if parts, ok := fl[1].(List); ok && len(parts) == 6 {
			freshHasBody = len(AtomBytes(parts[4])) > 0
		}
	}
	// the same bytes parsed into a Message object that was used for an earlier, longer message (resendMessages and
	// applications reuse one object): what the parse exposes must not depend on the object's history
	used := quickfix.NewMessage()
	_ = Guard(func() Sx {
		_ = quickfix.ParseMessageWithDataDictionary(used, bytes.NewBuffer(append([]byte(nil), earlierMessage...)), td, ad)
		return Sym("done")
	})
	again := parseInto(used, freshHasBody)
	cmp := fresh
	if !freshHasBody {
		cmp = parseInto(quickfix.NewMessage(), false)
	}
	if SxString(again) != SxString(cmp) {
		return L(Sym("reused"), again)
	}
	return fresh
}

// earlierMessage: a well-formed message with routing header fields, many body fields and a signed trailer.
var earlierMessage = func() []byte {
	fs := []pf{{35, []byte("D")}, {49, []byte("SENDER")}, {56, []byte("TARGET")}, {34, []byte("77")},
		{52, []byte("20240101-10:00:00.000")}, {115, []byte("ONBEHALF")}, {128, []byte("DELIVERTO")}, {50, []byte("SUB")}}
	for i := 0; i < 40; i++ {
		fs = append(fs, pf{pBodyTags[i%20], []byte("earlier-value-" + strconv.Itoa(i))})
	}
	fs = append(fs, pf{93, []byte("4")}, pf{89, []byte("SIGN")})
	body := serFields(fs)
	msg := append(serFields([]pf{{8, []byte("FIX.4.2")}, {9, []byte(strconv.Itoa(len(body)))}}), body...)
	sum := 0
	for _, c := range msg {
		sum += int(c)
	}
	return append(msg, serFields([]pf{{10, []byte(fmt.Sprintf("%03d", sum%256))}})...)
}()

// ---------- generators ----------

type gtree struct {
	tag  int
	kids []*gtree
}

func (g *gtree) sx() Sx {
	l := List{Int(g.tag)}
	for _, k := range g.kids {
		l = append(l, k.sx())
	}
	return l
}

type pgen struct{ c *Ctx }

var pHeaderTags = []int{49, 56, 115, 128, 90, 34, 50, 142, 57, 143, 116, 144, 129, 145, 43, 97, 52, 122, 347, 369, 370, 1128, 1129, 627, 1156, 91, 628, 629, 630}
var pTrailerTags = []int{93, 89}
var pBodyTags = []int{1, 11, 21, 38, 40, 44, 54, 55, 58, 59, 60, 7, 16, 112, 789, 5000, 5001, 9999, 20000, 99999, 448, 447, 452, 78, 79, 80, 453, 539, 524, 525, 804, 545, 805, 802, 523, 803}

func (g *pgen) value() []byte {
	r := g.c.Rng
	n := r.Intn(8)
	switch r.Intn(12) {
	case 0:
		n = 0
	case 1:
		n = r.Intn(60)
	}
	b := make([]byte, n)
	for i := range b {
		switch r.Intn(12) {
		case 0:
			b[i] = '='
		case 1:
			b[i] = byte(128 + r.Intn(128))
		case 2:
			b[i] = byte(2 + r.Intn(30))
		default:
			b[i] = byte(32 + r.Intn(95))
		}
	}
	return b
}

func (g *pgen) xmlValue(n int) []byte {
	r := g.c.Rng
	b := make([]byte, n)
	for i := range b {
		switch r.Intn(5) {
		case 0:
			b[i] = 1
		case 1:
			b[i] = '='
		default:
			b[i] = byte(32 + r.Intn(95))
		}
	}
	return b
}

func (g *pgen) bodyTag() int {
	r := g.c.Rng
	switch r.Intn(6) {
	case 0:
		for {
			t := 1 + r.Intn(99999)
			if t != 8 && t != 9 && t != 10 && t != 212 && t != 213 && t != 35 {
				return t
			}
		}
	case 1:
		return 5000 + r.Intn(5000)
	}
	return pBodyTags[r.Intn(len(pBodyTags))]
}

// the FIX44-like nesting 453{448,447,452,802{523,803}}  78{79,80,539{524,525,804{545,805}}} and random trees
func (g *pgen) tree(depth int, pool []int) *gtree {
	r := g.c.Rng
	t := &gtree{tag: pool[r.Intn(len(pool))]}
	if depth > 0 {
		n := 1 + r.Intn(3)
		for i := 0; i < n; i++ {
			if r.Intn(3) == 0 {
				t.kids = append(t.kids, g.tree(depth-1, pool))
			} else {
				t.kids = append(t.kids, &gtree{tag: pool[r.Intn(len(pool))]})
			}
		}
	}
	return t
}

func fix44ish() []*gtree {
	leaf := func(t int) *gtree { return &gtree{tag: t} }
	return []*gtree{
		leaf(11), leaf(55), leaf(54), leaf(38), leaf(40), leaf(58), leaf(376),
		{tag: 453, kids: []*gtree{leaf(448), leaf(447), leaf(452), {tag: 802, kids: []*gtree{leaf(523), leaf(803)}}}},
		{tag: 78, kids: []*gtree{leaf(79), leaf(80), {tag: 539, kids: []*gtree{leaf(524), leaf(525), {tag: 804, kids: []*gtree{leaf(545), leaf(805)}}}}}},
	}
}

func (g *pgen) appDict() (Sx, map[string][]*gtree) {
	r := g.c.Rng
	defs := map[string][]*gtree{}
	out := List{Sym("ad")}
	types := []string{"D", "8", "AE"}
	for _, mt := range types {
		if r.Intn(3) == 0 {
			continue
		}
		var fs []*gtree
		if r.Intn(2) == 0 {
			fs = fix44ish()
		} else {
			n := 1 + r.Intn(5)
			for i := 0; i < n; i++ {
				fs = append(fs, g.tree(r.Intn(3), pBodyTags))
			}
		}
		defs[mt] = fs
		ml := List{Str(mt)}
		for _, f := range fs {
			ml = append(ml, f.sx())
		}
		out = append(out, ml)
	}
	return out, defs
}

// emit an instance of a group: count field, then for each repetition the members in order (random subsets),
// nested groups recursively
func (g *pgen) instance(t *gtree, out *[]pf) {
	r := g.c.Rng
	if len(t.kids) == 0 {
		*out = append(*out, pf{t.tag, g.value()})
		return
	}
	n := r.Intn(3)
	*out = append(*out, pf{t.tag, []byte(strconv.Itoa(n))})
	for i := 0; i < n; i++ {
		for j, k := range t.kids {
			if j == 0 || r.Intn(3) > 0 {
				g.instance(k, out)
			}
		}
	}
}

func fixBodyLength(fs []pf) {
	n := 0
	for _, f := range fs {
		if f.tag != 8 && f.tag != 9 && f.tag != 10 {
			n += len(strconv.Itoa(f.tag)) + 1 + len(f.val) + 1
		}
	}
	fs[1].val = []byte(strconv.Itoa(n))
}

// a mostly wire_ok field list
func (g *pgen) message(defs map[string][]*gtree, tdH, tdT []int) []pf {
	r := g.c.Rng
	mt := []string{"D", "8", "AE", "0", "A"}[r.Intn(5)]
	fs := []pf{{8, []byte([]string{"FIX.4.2", "FIX.4.4", "FIXT.1.1"}[r.Intn(3)])}, {9, nil}, {35, []byte(mt)}}
	for n := r.Intn(6); n > 0; n-- {
		fs = append(fs, pf{pHeaderTags[r.Intn(len(pHeaderTags))], g.value()})
	}
	if len(tdH) > 0 && r.Intn(2) == 0 {
		fs = append(fs, pf{tdH[r.Intn(len(tdH))], g.value()})
	}
	if r.Intn(6) == 0 {
		n := 1 + r.Intn(20)
		fs = append(fs, pf{212, []byte(strconv.Itoa(n))}, pf{213, g.xmlValue(n)})
	}
	for n := r.Intn(10); n > 0; n-- {
		k := r.Intn(10)
		switch {
		case k < 4 && defs[mt] != nil:
			ts := defs[mt]
			g.instance(ts[r.Intn(len(ts))], &fs)
		case k == 9:
			fs = append(fs, pf{pHeaderTags[r.Intn(len(pHeaderTags))], g.value()}) // a header field among the body fields
		case k == 8 && r.Intn(4) == 0:
			n := 1 + r.Intn(10)
			fs = append(fs, pf{212, []byte(strconv.Itoa(n))}, pf{213, g.xmlValue(n)})
		default:
			fs = append(fs, pf{g.bodyTag(), g.value()})
		}
	}
	if len(tdT) > 0 && r.Intn(2) == 0 {
		fs = append(fs, pf{tdT[r.Intn(len(tdT))], g.value()})
	}
	for n := r.Intn(3); n > 0; n-- {
		fs = append(fs, pf{pTrailerTags[r.Intn(len(pTrailerTags))], g.value()})
	}
	if r.Intn(12) == 0 {
		fs = append(fs, pf{g.bodyTag(), g.value()}) // a body field after the trailer started
	}
	fs = append(fs, pf{10, []byte(fmt.Sprintf("%03d", r.Intn(256)))})
	fixBodyLength(fs)
	return fs
}

func fieldsSx(fs []pf) Sx {
	l := List{}
	for _, f := range fs {
		l = append(l, L(Int(f.tag), Bytes(f.val)))
	}
	return l
}

func genParse(c *Ctx) {
	g := &pgen{c}
	r := c.Rng
	run := func(in Sx) { c.Pending(in); c.Emit(in, runParse(in)) }
	none := Sym("none")
	for i := 0; i < c.N; i++ {
		// dictionaries: none / app / transport+app
		var td, ad Sx = none, none
		var defs map[string][]*gtree
		var tdH, tdT []int
		switch i % 3 {
		case 1:
			ad, defs = g.appDict()
		case 2:
			ad, defs = g.appDict()
			tdH = []int{5000 + r.Intn(5), 20000, g.bodyTag()}
			tdT = []int{5005 + r.Intn(5), g.bodyTag()}
			td = L(Sym("td"), intsSx(tdH), intsSx(tdT))
		}
		fs := g.message(defs, tdH, tdT)
		run(L(Sym("fields"), fieldsSx(fs), td, ad))
		raw := serFields(fs)
		mut := func(b []byte) { run(L(Sym("raw"), Bytes(b), td, ad)) }
		cp := func() []pf { x := make([]pf, len(fs)); copy(x, fs); return x }
		if i%4 == 0 {
			// every single-field corruption of BodyLength
			for _, v := range []string{"", "0", "-1", "abc", "9223372036854775807", "-9223372036854775808", "99999999999999999999", "1e3", " 5", "+5"} {
				x := cp()
				x[1].val = []byte(v)
				mut(serFields(x))
			}
			n, _ := strconv.Atoi(string(fs[1].val))
			for _, d := range []int{-1, 1, 2, -2, 10, 100} {
				x := cp()
				x[1].val = []byte(strconv.Itoa(n + d))
				mut(serFields(x))
			}
			x := cp()
			x[1].val = append([]byte("00"), fs[1].val...) // leading zeros: the same number
			mut(serFields(x))
			// every corruption of the leading three fields: swap, delete, duplicate, other tag
			for a := 0; a < 3; a++ {
				for b := a + 1; b < 3; b++ {
					x := cp()
					x[a], x[b] = x[b], x[a]
					mut(serFields(x))
				}
				x := append(cp()[:a:a], fs[a+1:]...)
				mut(serFields(x))
				x = append(append(cp()[:a:a], fs[a]), fs[a:]...)
				mut(serFields(x))
				x = cp()
				x[a].tag = []int{1, 10, 34, 49, 58, 0}[r.Intn(6)]
				mut(serFields(x))
				x = append(append(cp()[:a:a], pf{g.bodyTag(), g.value()}), fs[a:]...)
				mut(serFields(x))
			}
			// a changed field somewhere else without adjusting 9
			if len(fs) > 4 {
				x := cp()
				k := 3 + r.Intn(len(fs)-4)
				x[k].val = append(append([]byte(nil), x[k].val...), 'x')
				mut(serFields(x))
				x = append(cp()[:k:k], fs[k+1:]...)
				mut(serFields(x))
			}
			// no CheckSum / CheckSum in the middle
			mut(serFields(fs[:len(fs)-1]))
			if len(fs) > 5 {
				k := 3 + r.Intn(len(fs)-4)
				x := append(append(cp()[:k:k], pf{10, []byte("000")}), fs[k:]...)
				mut(serFields(x))
			}
		}
		if i%5 == 0 {
			// truncations and byte-level damage
			for k := 0; k < 6; k++ {
				mut(raw[:r.Intn(len(raw)+1)])
			}
			for k := 0; k < 4; k++ {
				b := append([]byte(nil), raw...)
				p := r.Intn(len(b))
				switch r.Intn(4) {
				case 0:
					b[p] = 1
				case 1:
					b[p] = '='
				case 2:
					b = append(b[:p], b[p+1:]...)
				default:
					b[p] = byte(r.Intn(256))
				}
				mut(b)
			}
			// huge / negative / odd XMLDataLen
			for _, v := range []string{"9999", "-5", "0", "9223372036854775807", "1", "abc", "", "99999999999999999999"} {
				x := append(cp()[:3:3], pf{212, []byte(v)}, pf{213, []byte("<a>\x01</a>")})
				x = append(x, fs[3:]...)
				fixBodyLength(x)
				mut(serFields(x))
				run(L(Sym("fields"), fieldsSx(x), td, ad))
			}
			// 212 as the last field before 10, and as the very last field
			x := append(cp()[:len(fs)-1:len(fs)-1], pf{212, []byte("3")}, fs[len(fs)-1])
			fixBodyLength(x)
			mut(serFields(x))
			x = append(cp(), pf{212, []byte("3")})
			mut(serFields(x))
		}
		if i%7 == 0 {
			// random bytes over a FIX-ish alphabet and plain random bytes
			n := r.Intn(60)
			b := make([]byte, n)
			alpha := []byte("0123456789=\x01\x01=8935ADX.-")
			for k := range b {
				if r.Intn(8) == 0 {
					b[k] = byte(r.Intn(256))
				} else {
					b[k] = alpha[r.Intn(len(alpha))]
				}
			}
			mut(b)
			mut(append([]byte("8=FIX.4.2\x019=5\x0135=D\x01"), b...))
		}
	}
	for _, s := range []string{"", "\x01", "\x01\x01\x01", "8=\x019=\x0135=\x01", "8=FIX.4.2\x019=5\x0135=D\x01", "8=FIX.4.2\x019=0\x0135=D\x0110=000\x01",
		"8=FIX.4.2\x019=5\x0135=D\x0110=000\x01", "=\x01=\x01=\x01=\x01", "8=a\x019=b\x0135=c\x01=\x01", "8=a\x019=5\x0135=c\x011234=\x0110=1\x01",
		"8=FIX.4.2\x019=12\x0135=D\x01212=3\x01213=abc", "8=FIX.4.2\x019=12\x0135=D\x01212=1\x01=", "8=FIX.4.2\x019=12\x0135=D\x01212=2\x01=ab=",
		"8=FIX.4.2\x019=12\x0135=D\x01212=3\x011234=\x01\x01\x0110=000\x01", "8=a\x019=5\x0135=c\x0112345678901234567890=x\x0110=1\x01", "8=a\x019=5\x0135=c\x01-5=x\x0110=1\x01"} {
		run(L(Sym("raw"), Str(s), none, none))
	}
}
