package main

// Stream `fieldmap` (C10): operation programs run on real quickfix.Message values through the public API.
//
// input   (ops OP ...)   OP = (set S tag xVAL kind) | (rm S tag) | (clr S) | (grp S tag (tmpl...) (((tag xVAL) ...) ...))
//                             | (copy ((S tag xVAL) ...)) | (build)        S = h | b | t
// observe (obs xBYTES (hdr-tags-before) (body-tags-before) (trl-tags-before) (hdr-tags-after) (body..) (trl..) PARSED xCOPYBYTES)
//         PARSED = err | (ok HDR BODY TRL) with the tagLookup contents of the message parsed back from xBYTES

import (
	"bytes"
	"strconv"

	"github.com/quickfixgo/quickfix"

	. "qfverif/hx"
)

func init() {
	Register("fieldmap", &Stream{Gen: genFieldmap, Run: runFieldmap})
}

type groupWriter struct{ g *quickfix.RepeatingGroup }

func secOf(m *quickfix.Message, s string) *quickfix.FieldMap {
	switch s {
	case "h":
		return &m.Header.FieldMap
	case "b":
		return &m.Body.FieldMap
	case "t":
		return &m.Trailer.FieldMap
	}
	panic("bad section " + s)
}

type rawField struct {
	tag quickfix.Tag
	val []byte
}

func (f rawField) Tag() quickfix.Tag { return f.tag }
func (f rawField) Write() []byte     { return f.val }

func applySet(fm *quickfix.FieldMap, tag int, val []byte, kind string) {
	t := quickfix.Tag(tag)
	switch kind {
	case "bytes":
		fm.SetBytes(t, val)
	case "string":
		fm.SetString(t, string(val))
	case "field":
		fm.SetField(t, quickfix.FIXBytes(val))
	case "set":
		fm.Set(rawField{t, val})
	case "int":
		n, err := strconv.Atoi(string(val))
		if err != nil {
			panic("int op with non-int value")
		}
		fm.SetInt(t, n)
	case "bool":
		fm.SetBool(t, string(val) == "Y")
	default:
		panic("bad kind " + kind)
	}
}

func runFieldmap(in Sx) Sx {
	ops := in.(List)[1:]
	return Guard(func() Sx {
		m := quickfix.NewMessage()
		for _, o := range ops {
			l := o.(List)
			switch AtomSym(l[0]) {
			case "set":
				applySet(secOf(m, AtomSym(l[1])), AtomInt(l[2]), AtomBytes(l[3]), AtomSym(l[4]))
			case "rm":
				secOf(m, AtomSym(l[1])).Remove(quickfix.Tag(AtomInt(l[2])))
			case "clr":
				secOf(m, AtomSym(l[1])).Clear()
			case "grp":
				tmpl := quickfix.GroupTemplate{}
				for _, t := range l[3].(List) {
					tmpl = append(tmpl, quickfix.GroupElement(quickfix.Tag(AtomInt(t))))
				}
				g := quickfix.NewRepeatingGroup(quickfix.Tag(AtomInt(l[2])), tmpl)
				for _, e := range l[4].(List) {
					ge := g.Add()
					fs := e.(List)
					// set in reverse order: the template, not the call order, decides the wire order
					for i := len(fs) - 1; i >= 0; i-- {
						f := fs[i].(List)
						ge.SetBytes(quickfix.Tag(AtomInt(f[0])), AtomBytes(f[1]))
					}
				}
				secOf(m, AtomSym(l[1])).SetGroup(g)
			case "copy":
				to := quickfix.NewMessage()
				for _, j := range l[1].(List) {
					jl := j.(List)
					secOf(to, AtomSym(jl[0])).SetBytes(quickfix.Tag(AtomInt(jl[1])), AtomBytes(jl[2]))
				}
				_ = to.String() // the destination is a used Message: it has been serialised with its own fields before
				m.CopyInto(to)
				m = to
			case "build":
				_ = m.String()
			default:
				panic("bad op")
			}
		}
		before := []Sx{intsSx(quickfix.VerifTags(&m.Header.FieldMap)), intsSx(quickfix.VerifTags(&m.Body.FieldMap)), intsSx(quickfix.VerifTags(&m.Trailer.FieldMap))}
		bs := []byte(m.String())
		after := []Sx{intsSx(quickfix.VerifTags(&m.Header.FieldMap)), intsSx(quickfix.VerifTags(&m.Body.FieldMap)), intsSx(quickfix.VerifTags(&m.Trailer.FieldMap))}
		var parsed Sx
		p := quickfix.NewMessage()
		if err := quickfix.ParseMessage(p, bytes.NewBuffer(append([]byte(nil), bs...))); err != nil {
			parsed = ErrV()
		} else {
			parsed = OkV(L(entriesSx(&p.Header.FieldMap), entriesSx(&p.Body.FieldMap), entriesSx(&p.Trailer.FieldMap)))
		}
		c := quickfix.NewMessage()
		c.Header.SetString(50, "used")
		c.Body.SetString(58, "used")
		c.Body.SetString(1, "used")
		_ = c.String() // again a used destination
		m.CopyInto(c)
		cbs := []byte(c.String())
		return L(Sym("obs"), Bytes(bs), before[0], before[1], before[2], after[0], after[1], after[2], parsed, Bytes(cbs))
	})
}

// ---- generator ----

var fmHeaderPool = []int{49, 56, 34, 52, 50, 57, 115, 128, 43, 97, 122, 1128, 369, 142, 627}
var fmBodyPool = []int{1, 11, 21, 38, 40, 44, 54, 55, 58, 59, 60, 100, 453, 5001, 20000, 99999, 7, 16, 112}
var fmTrailerPool = []int{93, 89}
var fmGroupTags = []int{453, 78, 555, 268}
var fmMemberPool = []int{448, 447, 452, 79, 80, 600, 269, 270, 5002}

type fmGen struct {
	c *Ctx
}

func (g *fmGen) pick(xs []int) int { return xs[g.c.Rng.Intn(len(xs))] }

func (g *fmGen) value(kind string) []byte {
	r := g.c.Rng
	switch kind {
	case "int":
		switch r.Intn(6) {
		case 0:
			return []byte("0")
		case 1:
			return []byte(strconv.Itoa(-r.Intn(1000)))
		case 2:
			return []byte(strconv.FormatInt(r.Int63(), 10))
		}
		return []byte(strconv.Itoa(r.Intn(100000)))
	case "bool":
		if r.Intn(2) == 0 {
			return []byte("Y")
		}
		return []byte("N")
	}
	n := r.Intn(8)
	if r.Intn(10) == 0 {
		n = r.Intn(40)
	}
	if r.Intn(25) == 0 {
		n = 0
	}
	b := make([]byte, n)
	for i := range b {
		switch r.Intn(12) {
		case 0:
			b[i] = '='
		case 1:
			b[i] = byte(128 + r.Intn(128))
		case 2:
			b[i] = byte(2 + r.Intn(30))
		default:
			b[i] = byte(32 + r.Intn(95))
		}
	}
	return b
}

var fmKinds = []string{"bytes", "string", "field", "set", "int", "bool"}

func (g *fmGen) sec() (string, []int) {
	switch g.c.Rng.Intn(10) {
	case 0, 1, 2:
		return "h", fmHeaderPool
	case 3:
		return "t", fmTrailerPool
	}
	return "b", fmBodyPool
}

func (g *fmGen) set(s string, tag int) Sx {
	kind := fmKinds[g.c.Rng.Intn(len(fmKinds))]
	return L(Sym("set"), Sym(s), Int(tag), Bytes(g.value(kind)), Sym(kind))
}

func (g *fmGen) group(s string, tag int) Sx {
	r := g.c.Rng
	// template: 1..4 distinct member tags, first = delimiter
	perm := r.Perm(len(fmMemberPool))
	n := 1 + r.Intn(4)
	tmpl := List{}
	tags := []int{}
	for i := 0; i < n; i++ {
		tags = append(tags, fmMemberPool[perm[i]])
		tmpl = append(tmpl, Int(fmMemberPool[perm[i]]))
	}
	entries := List{}
	for e := r.Intn(4); e > 0; e-- {
		fs := List{L(Int(tags[0]), Bytes(g.value("bytes")))}
		for _, t := range tags[1:] {
			if r.Intn(3) > 0 {
				fs = append(fs, L(Int(t), Bytes(g.value("bytes"))))
			}
		}
		entries = append(entries, fs)
	}
	return L(Sym("grp"), Sym(s), Int(tag), tmpl, entries)
}

func (g *fmGen) program(improper bool, overGroup bool) Sx {
	r := g.c.Rng
	ops := List{Sym("ops")}
	add := func(o Sx) { ops = append(ops, o) }
	add(L(Sym("set"), Sym("h"), Int(8), Str([]string{"FIX.4.2", "FIX.4.4", "FIXT.1.1"}[r.Intn(3)]), Sym("string")))
	add(L(Sym("set"), Sym("h"), Int(35), Str([]string{"D", "8", "0", "AE"}[r.Intn(4)]), Sym("string")))
	type st struct {
		s   string
		tag int
	}
	var recent []st // tags touched so far (to aim removes / overwrites at them)
	var groups []st
	n := 1 + r.Intn(30)
	for i := 0; i < n; i++ {
		s, pool := g.sec()
		tag := g.pick(pool)
		if len(recent) > 0 && r.Intn(2) == 0 {
			x := recent[r.Intn(len(recent))]
			s, tag = x.s, x.tag
		}
		isGroupTag := false
		for _, x := range groups {
			if x.s == s && x.tag == tag {
				isGroupTag = true
			}
		}
		switch k := r.Intn(20); {
		case k < 7: // set / overwrite
			if isGroupTag && !overGroup {
				add(g.group(s, tag))
			} else {
				add(g.set(s, tag))
			}
			recent = append(recent, st{s, tag})
		case k < 10: // remove -> set
			add(L(Sym("rm"), Sym(s), Int(tag)))
			if r.Intn(3) > 0 {
				if isGroupTag && !overGroup {
					add(g.group(s, tag))
				} else {
					add(g.set(s, tag))
				}
				recent = append(recent, st{s, tag})
			}
		case k < 12: // clear -> set
			add(L(Sym("clr"), Sym(s)))
			if s == "h" {
				add(L(Sym("set"), Sym("h"), Int(8), Str("FIX.4.4"), Sym("string")))
				add(L(Sym("set"), Sym("h"), Int(35), Str("D"), Sym("string")))
			}
			if r.Intn(2) == 0 {
				add(g.set(s, tag))
			}
			// a cleared section loses its groups
			ng := groups[:0]
			for _, x := range groups {
				if x.s != s {
					ng = append(ng, x)
				}
			}
			groups = ng
		case k < 15: // group set
			gt := fmGroupTags[r.Intn(len(fmGroupTags))]
			gs := "b"
			if r.Intn(8) == 0 {
				gs, gt = "h", 627
			}
			scalar := false
			for _, x := range recent {
				if x.s == gs && x.tag == gt {
					scalar = true
				}
			}
			_ = scalar
			add(g.group(gs, gt))
			groups = append(groups, st{gs, gt})
			recent = append(recent, st{gs, gt})
		case k < 17: // copy (often right after a group set)
			junk := List{}
			for j := r.Intn(3); j > 0; j-- {
				js, jp := g.sec()
				junk = append(junk, L(Sym(js), Int(g.pick(jp)), Bytes(g.value("bytes"))))
			}
			add(L(Sym("copy"), junk))
		case k < 18:
			add(L(Sym("build")))
		default:
			if improper {
				// a tag outside its section, a framing tag set by hand, a value with SOH
				switch r.Intn(4) {
				case 0:
					add(L(Sym("set"), Sym("b"), Int(g.pick(fmHeaderPool)), Bytes(g.value("bytes")), Sym("bytes")))
				case 1:
					add(L(Sym("set"), Sym("h"), Int(g.pick(fmBodyPool)), Bytes(g.value("bytes")), Sym("bytes")))
				case 2:
					add(L(Sym("set"), Sym([]string{"h", "b", "t"}[r.Intn(3)]), Int([]int{8, 9, 10, 35}[r.Intn(4)]), Bytes(g.value("bytes")), Sym("bytes")))
				case 3:
					add(L(Sym("set"), Sym("b"), Int(58), Bytes([]byte("a\x01b")), Sym("bytes")))
				}
			} else {
				add(g.set(s, tag))
				recent = append(recent, st{s, tag})
			}
		}
	}
	if overGroup && len(groups) > 0 {
		x := groups[r.Intn(len(groups))]
		add(L(Sym("set"), Sym(x.s), Int(x.tag), Str("0"), Sym("int")))
	}
	return ops
}

func genFieldmap(c *Ctx) {
	g := &fmGen{c}
	run := func(in Sx) { c.Pending(in); c.Emit(in, runFieldmap(in)) }
	// fixed regression shapes first: remove->set, clear->set, copy of a group, set over a group
	h8 := L(Sym("set"), Sym("h"), Int(8), Str("FIX.4.2"), Sym("string"))
	h35 := L(Sym("set"), Sym("h"), Int(35), Str("D"), Sym("string"))
	run(L(Sym("ops"), h8, h35))
	run(L(Sym("ops"), h8, h35, L(Sym("set"), Sym("b"), Int(55), Str("A"), Sym("string")), L(Sym("rm"), Sym("b"), Int(55)), L(Sym("set"), Sym("b"), Int(55), Str("B"), Sym("string"))))
	run(L(Sym("ops"), h8, h35, L(Sym("set"), Sym("b"), Int(55), Str("A"), Sym("string")), L(Sym("clr"), Sym("b")), L(Sym("set"), Sym("b"), Int(55), Str("B"), Sym("string"))))
	grp := L(Sym("grp"), Sym("b"), Int(453), L(Int(448), Int(447)), L(L(L(Int(448), Str("A")), L(Int(447), Str("B"))), L(L(Int(448), Str("C")))))
	run(L(Sym("ops"), h8, h35, grp, L(Sym("copy"), L())))
	run(L(Sym("ops"), h8, h35, grp, L(Sym("build")), L(Sym("set"), Sym("t"), Int(93), Str("3"), Sym("int")), L(Sym("set"), Sym("t"), Int(89), Str("abc"), Sym("bytes"))))
	for i := 0; i < c.N; i++ {
		improper := i%10 == 9
		overGroup := i%25 == 7
		run(g.program(improper, overGroup))
	}
}
