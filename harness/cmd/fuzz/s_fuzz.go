package main

// Stream `fuzz` (C09): recover-oracle fuzzing of glue that has no Coq model: settings and dictionary text, typed accessors
// on parsed messages, validation of arbitrary parsed messages against shipped dictionaries, a session fed garbage and
// then a well-formed message.

import (
	"bytes"
	"fmt"
	"math/rand"
	"os"
	"strings"
	"time"

	"github.com/quickfixgo/quickfix"
	"github.com/quickfixgo/quickfix/datadictionary"

	. "qfverif/hx"
)

func main() { Main() }

func init() { Register("fuzz", &Stream{Gen: genFuzz, Run: runFuzz}) }

var dictCache = map[string]*datadictionary.DataDictionary{}

func dict(name string) *datadictionary.DataDictionary {
	if d, ok := dictCache[name]; ok {
		return d
	}
	d, err := datadictionary.Parse("/repo/spec/" + name + ".xml")
	if err != nil {
		panic(err)
	}
	dictCache[name] = d
	return d
}

type nullApp struct{}

func (nullApp) OnCreate(quickfix.SessionID)                                   {}
func (nullApp) OnLogon(quickfix.SessionID)                                    {}
func (nullApp) OnLogout(quickfix.SessionID)                                   {}
func (nullApp) ToAdmin(*quickfix.Message, quickfix.SessionID)                 {}
func (nullApp) ToApp(*quickfix.Message, quickfix.SessionID) error             { return nil }
func (nullApp) FromAdmin(*quickfix.Message, quickfix.SessionID) quickfix.MessageRejectError { return nil }

type countApp struct {
	nullApp
	n int
}

func (a *countApp) FromApp(*quickfix.Message, quickfix.SessionID) quickfix.MessageRejectError {
	a.n++
	return nil
}

func frame(inner string) []byte {
	inner = strings.ReplaceAll(inner, "|", "\x01")
	s := fmt.Sprintf("8=FIX.4.2\x019=%d\x01%s", len(inner), inner)
	sum := 0
	for _, c := range []byte(s) {
		sum += int(c)
	}
	return []byte(fmt.Sprintf("%s10=%03d\x01", s, sum%256))
}

func runFuzz(in Sx) Sx {
	l := in.(List)
	data := AtomBytes(l[1])
	switch AtomSym(l[0]) {
	case "settings":
		return Guard(func() Sx {
			_, err := quickfix.ParseSettings(bytes.NewReader(data))
			return Bool(err == nil)
		})
	case "dict":
		return Guard(func() Sx {
			_, err := datadictionary.ParseSrc(bytes.NewReader(data))
			return Bool(err == nil)
		})
	case "accessors":
		return Guard(func() Sx {
			m := quickfix.NewMessage()
			if err := quickfix.ParseMessage(m, bytes.NewBuffer(data)); err != nil {
				return Sym("err")
			}
			n := 0
			for _, fm := range []*quickfix.FieldMap{&m.Header.FieldMap, &m.Body.FieldMap, &m.Trailer.FieldMap} {
				for _, t := range fm.Tags() {
					_, _ = fm.GetInt(t)
					_, _ = fm.GetBool(t)
					_, _ = fm.GetTime(t)
					_, _ = fm.GetString(t)
					_, _ = fm.GetBytes(t)
					var f quickfix.FIXFloat
					_ = fm.GetField(t, &f)
					var d quickfix.FIXDecimal
					_ = fm.GetField(t, &d)
					n++
				}
			}
			_ = m.String()
			_, _ = m.MsgType()
			return Int(n)
		})
	case "validate":
		return Guard(func() Sx {
			m := quickfix.NewMessage()
			dd := dict("FIX44")
			if err := quickfix.ParseMessageWithDataDictionary(m, bytes.NewBuffer(data), nil, dd); err != nil {
				return Sym("err")
			}
			v := quickfix.NewValidator(quickfix.ValidatorSettings{CheckFieldsOutOfOrder: true, RejectInvalidMessage: true}, dd, nil)
			rej := v.Validate(m)
			m2 := quickfix.NewMessage()
			if err := quickfix.ParseMessageWithDataDictionary(m2, bytes.NewBuffer(data), dict("FIXT11"), dict("FIX50SP2")); err == nil {
				v2 := quickfix.NewValidator(quickfix.ValidatorSettings{CheckFieldsOutOfOrder: true, RejectInvalidMessage: true}, dict("FIX50SP2"), dict("FIXT11"))
				_ = v2.Validate(m2)
			}
			return Bool(rej == nil)
		})
	case "session":
		// garbage frames, then a well-formed in-sequence message must still be processed
		return Guard(func() Sx {
			app := &countApp{}
			sid := quickfix.SessionID{BeginString: "FIX.4.2", SenderCompID: "ISLD", TargetCompID: "TW"}
			st, _ := quickfix.NewMemoryStoreFactory().Create(sid)
			v := quickfix.NewVerifSession(quickfix.VerifSessionConfig{BeginString: "FIX.4.2", SenderCompID: "ISLD", TargetCompID: "TW",
				HeartBtInt: 30 * time.Second, MaxLatency: 120 * time.Second, InChanCapacity: 1}, app, st, nil)
			v.Connect()
			now := time.Now().UTC().Format("20060102-15:04:05.000")
			v.Incoming(frame("35=A|34=1|49=TW|52=" + now + "|56=ISLD|98=0|108=30|"))
			v.Incoming(data)
			v.Incoming(frame("35=D|34=2|49=TW|52=" + now + "|56=ISLD|11=x|"))
			v.DrainOut()
			parses := quickfix.ParseMessage(quickfix.NewMessage(), bytes.NewBuffer(append([]byte(nil), data...))) == nil
			return L(Sym(v.StateShape()), Int(app.n), Bool(parses))
		})
	}
	panic("fuzz: unknown kind")
}

func mutate(rng *rand.Rand, b []byte) []byte {
	b = append([]byte(nil), b...)
	for k := 0; k < 1+rng.Intn(4); k++ {
		if len(b) == 0 {
			b = []byte{byte(rng.Intn(256))}
			continue
		}
		i := rng.Intn(len(b))
		switch rng.Intn(7) {
		case 0:
			b[i] = byte(rng.Intn(256))
		case 1:
			b = append(b[:i], b[i+1:]...)
		case 2:
			b = append(b[:i], append([]byte{byte(rng.Intn(256))}, b[i:]...)...)
		case 3:
			b = b[:i]
		case 4:
			j := rng.Intn(len(b))
			if i > j {
				i, j = j, i
			}
			b = append(b[:i], append(append([]byte(nil), b[i:j]...), b[i:]...)...)
		case 5:
			b[i] = []byte("\x01=|<>\"/ -9")[rng.Intn(10)]
		case 6:
			j := rng.Intn(len(b))
			b[i], b[j] = b[j], b[i]
		}
	}
	return b
}

func genFuzz(c *Ctx) {
	run := func(kind string, data []byte) {
		in := L(Sym(kind), Bytes(data))
		c.Pending(in); c.Emit(in, runFuzz(in))
	}
	settingsSeed := []byte("[DEFAULT]\nSocketConnectHost=127.0.0.1\nSenderCompID=TW\n# c\n\n[SESSION]\nBeginString=FIX.4.2\nTargetCompID=ISLD\nHeartBtInt=30\n[session]\nBeginString=FIX.4.4\nTargetCompID=X\n")
	dictSeed, _ := os.ReadFile("/repo/spec/FIX40.xml")
	if len(dictSeed) > 6000 {
		dictSeed = append(append([]byte(nil), dictSeed[:3000]...), dictSeed[len(dictSeed)-3000:]...)
	}
	smallDict := []byte(`<fix major="4" minor="4" type="FIX"><header><field name="BeginString" required="Y"/></header><trailer><field name="CheckSum" required="Y"/></trailer><messages><message name="M" msgtype="M" msgcat="app"><component name="C" required="Y"/><group name="NoG" required="N"><field name="A" required="Y"/><component name="C" required="N"/></group></message></messages><components><component name="C"><field name="B" required="Y"/><group name="NoH" required="N"><field name="A" required="N"/></group></component></components><fields><field number="8" name="BeginString" type="STRING"/><field number="10" name="CheckSum" type="STRING"/><field number="1" name="A" type="INT"><value enum="1" description="ONE"/></field><field number="2" name="B" type="UTCTIMESTAMP"/><field number="3" name="NoG" type="NUMINGROUP"/><field number="4" name="NoH" type="NUMINGROUP"/></fields></fix>`)
	msgSeeds := [][]byte{
		frame("35=D|34=2|49=TW|52=20240101-00:00:00.000|56=ISLD|11=id|21=1|38=100|40=1|54=1|55=IBM|60=20240101-00:00:00|"),
		frame("35=D|34=2|49=TW|52=20240101-00:00:00|56=ISLD|11=id|78=2|79=a|80=1|79=b|80=2|55=IBM|54=1|60=20240101-00:00:00|40=1|"),
		frame("35=8|34=3|49=TW|52=20240101-00:00:00|56=ISLD|37=o|17=e|150=0|39=0|55=I|54=1|151=0|14=0|6=0|453=1|448=p|447=D|452=1|802=1|523=s|803=1|"),
		frame("35=n|34=4|49=TW|52=20240101-00:00:00|56=ISLD|212=9|213=<a>\x01x</a>|"),
		frame("35=A|34=1|49=TW|52=20240101-00:00:00|56=ISLD|98=0|108=30|141=Y|"),
	}
	for i := 0; i < c.N; i++ {
		run("settings", mutate(c.Rng, settingsSeed))
		if i%4 == 0 {
			run("dict", mutate(c.Rng, smallDict))
		}
		if i%40 == 0 {
			run("dict", mutate(c.Rng, dictSeed))
		}
		m := msgSeeds[c.Rng.Intn(len(msgSeeds))]
		run("accessors", mutate(c.Rng, m))
		run("validate", mutate(c.Rng, m))
		if i%3 == 0 {
			run("session", mutate(c.Rng, m))
		}
		if i%10 == 0 {
			rb := make([]byte, c.Rng.Intn(200))
			c.Rng.Read(rb)
			run("accessors", rb)
			run("session", rb)
		}
	}
}
