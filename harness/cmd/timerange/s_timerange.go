package main

// Stream `timerange` (C18): internal.TimeRange.IsInRange / IsInSameRange on a calendar grid.
//
// input  = (tr CFG ZONE (grid T0 STEP N) (extra u ...) (strides s ...))
//   CFG    = (daily START END (wd ...)) | (weekly START END STARTDAY ENDDAY)      times in seconds of the day, weekdays Sunday=0
//   ZONE   = (zone NAME INITOFF ((T OFF) ...))   offset table of the location around the grid (empty for a fixed offset)
//   instants (Unix seconds) = the grid followed by the extras; pairs for stride s = (inst[i], inst[(i+s) mod n]) for every i
// output = (obs RANGEBITS (SAMEBITS ...))   one bit string (atom b0101..) for IsInRange, one per stride for IsInSameRange

import (
	"sort"
	"strconv"
	"strings"
	"time"
	_ "time/tzdata"

	"github.com/quickfixgo/quickfix"

	. "qfverif/hx"
)

func main() { Main() }

func init() {
	Register("timerange", &Stream{Gen: genTimerange, Run: runTimerange})
}

type trCfg struct {
	weekly     bool
	start, end int
	weekdays   []int
	sd, ed     int
}

func hms(s int) [3]int { return [3]int{s / 3600, s / 60 % 60, s % 60} }

func (c trCfg) sx() Sx {
	if c.weekly {
		return L(Sym("weekly"), Int(c.start), Int(c.end), Int(c.sd), Int(c.ed))
	}
	w := List{}
	for _, d := range c.weekdays {
		w = append(w, Int(d))
	}
	return L(Sym("daily"), Int(c.start), Int(c.end), w)
}

func parseCfg(x Sx) trCfg {
	l := x.(List)
	c := trCfg{start: AtomInt(l[1]), end: AtomInt(l[2])}
	if AtomSym(l[0]) == "weekly" {
		c.weekly = true
		c.sd, c.ed = AtomInt(l[3]), AtomInt(l[4])
		return c
	}
	for _, d := range l[3].(List) {
		c.weekdays = append(c.weekdays, AtomInt(d))
	}
	return c
}

func (c trCfg) build(loc *time.Location) *quickfix.VerifTimeRange {
	var r *quickfix.VerifTimeRange
	var err error
	if c.weekly {
		r, err = quickfix.VerifNewWeekRangeInLocation(hms(c.start), hms(c.end), time.Weekday(c.sd), time.Weekday(c.ed), loc)
	} else {
		var w []time.Weekday
		for _, d := range c.weekdays {
			w = append(w, time.Weekday(d))
		}
		r, err = quickfix.VerifNewTimeRangeInLocation(hms(c.start), hms(c.end), w, loc)
	}
	if err != nil {
		panic(err)
	}
	return r
}

// zones: name -> location. Fixed offsets are built with time.FixedZone, the others loaded from the zone database
// (system files or the embedded time/tzdata).
func loadZone(name string) *time.Location {
	switch name {
	case "UTC":
		return time.UTC
	case "+05:30":
		return time.FixedZone("+05:30", 5*3600+1800)
	case "-08:00":
		return time.FixedZone("-08:00", -8*3600)
	}
	if strings.HasPrefix(name, "fixed") {
		off, err := strconv.Atoi(name[5:])
		if err != nil {
			panic(err)
		}
		return time.FixedZone(name, off)
	}
	loc, err := time.LoadLocation(name)
	if err != nil {
		panic("timerange: cannot load zone " + name + ": " + err.Error())
	}
	return loc
}

// offset table of loc over [from, to] (Unix seconds): offset at `from`, then every transition (instant, new offset)
func zoneTable(loc *time.Location, from, to int64) (int, [][2]int64) {
	t := time.Unix(from, 0).In(loc)
	_, init := t.Zone()
	var tab [][2]int64
	for {
		_, end := t.ZoneBounds()
		if end.IsZero() || end.Unix() > to {
			break
		}
		_, off := end.Zone()
		tab = append(tab, [2]int64{end.Unix(), int64(off)})
		t = end
	}
	return init, tab
}

func zoneSx(name string, loc *time.Location, from, to int64) Sx {
	init, tab := zoneTable(loc, from, to)
	tl := List{}
	for _, e := range tab {
		tl = append(tl, L(Int64(e[0]), Int64(e[1])))
	}
	return L(Sym("zone"), Str(name), Int(init), tl)
}

func instantsOf(in List) []int64 {
	g := in[3].(List)
	t0, step, n := AtomInt64(g[1]), AtomInt64(g[2]), AtomInt(g[3])
	var us []int64
	for i := 0; i < n; i++ {
		us = append(us, t0+int64(i)*step)
	}
	for _, e := range in[4].(List)[1:] {
		us = append(us, AtomInt64(e))
	}
	return us
}

func bits(b []bool) Sx {
	var sb strings.Builder
	sb.WriteByte('b')
	for _, x := range b {
		if x {
			sb.WriteByte('1')
		} else {
			sb.WriteByte('0')
		}
	}
	return Atom(sb.String())
}

func runTimerange(inx Sx) Sx {
	in := inx.(List)
	cfg := parseCfg(in[1])
	zl := in[2].(List)
	loc := loadZone(string(AtomBytes(zl[1])))
	us := instantsOf(in)
	n := len(us)
	return Guard(func() Sx {
		r := cfg.build(loc)
		// the instants are handed over as UTC times: the range itself converts to its zone
		ts := make([]time.Time, n)
		for i, u := range us {
			ts[i] = time.Unix(u, 0).UTC()
		}
		rb := make([]bool, n)
		for i := range ts {
			rb[i] = r.IsInRange(ts[i])
		}
		same := List{}
		for _, sx := range in[5].(List)[1:] {
			s := AtomInt(sx)
			sb := make([]bool, n)
			for i := range ts {
				j := ((i+s)%n + n) % n
				sb[i] = r.IsInSameRange(ts[i], ts[j])
			}
			same = append(same, bits(sb))
		}
		return L(Sym("obs"), bits(rb), same)
	})
}

var trZones = []string{"UTC", "+05:30", "-08:00", "America/New_York", "Europe/London", "Australia/Lord_Howe"}

// grid anchors (Mondays 00:00 UTC): 6 weeks from each cover the spring and autumn transitions of the three DST zones
var trAnchors = []int64{
	time.Date(2024, 2, 26, 0, 0, 0, 0, time.UTC).Unix(),
	time.Date(2024, 9, 30, 0, 0, 0, 0, time.UTC).Unix(),
}

var trTimes = []int{0, 86399, 9*3600 + 1800, 17 * 3600, 22 * 3600, 6 * 3600, 2*3600 + 1800, 3600 + 1800, 12 * 3600, 1, 86398, 2 * 3600, 3 * 3600}

// civil times inside / at / next to the skipped and repeated intervals of the 2024 transitions
var trDSTTimes = map[string][]int{
	"America/New_York":    {3600, 3600 + 1800, 2 * 3600, 2*3600 + 1800, 3 * 3600, 3600 + 59, 2*3600 + 3599}, // gap 02:00-03:00, repeat 01:00-02:00
	"Europe/London":       {3600, 3600 + 1800, 2 * 3600, 1800, 2*3600 + 1},                                 // gap 01:00-02:00, repeat 01:00-02:00
	"Australia/Lord_Howe": {2 * 3600, 2*3600 + 900, 2*3600 + 1800, 3600 + 1800, 3600 + 2700, 3600},         // gap 02:00-02:30, repeat 01:30-02:00
}

const (
	trStep  = 17 * 60
	trCount = 6 * 7 * 24 * 60 / 17
)

func genTimerange(c *Ctx) {
	zoneOf := func(i int) string { return trZones[(i/2+i)%len(trZones)] }
	var cur int
	pick := func() int {
		// in a zone with transitions, often a time inside / next to its skipped and repeated civil hours
		if pool, ok := trDSTTimes[zoneOf(cur)]; ok && c.Rng.Intn(2) == 0 {
			return pool[c.Rng.Intn(len(pool))]
		}
		if c.Rng.Intn(4) == 0 {
			return c.Rng.Intn(86400)
		}
		return trTimes[c.Rng.Intn(len(trTimes))]
	}
	for i := 0; i < c.N; i++ {
		var cfg trCfg
		cur = i
		// start / end relationship rotates: start<end, overnight, equal (1 in 7)
		a, b := pick(), pick()
		for a == b {
			b = pick()
		}
		if a > b {
			a, b = b, a
		}
		switch i % 7 {
		case 0, 2, 4:
			cfg.start, cfg.end = a, b
		case 1, 3, 5:
			cfg.start, cfg.end = b, a
		default:
			cfg.start, cfg.end = a, a
		}
		if i%3 == 0 {
			p := (i / 3) % 49
			cfg.weekly, cfg.sd, cfg.ed = true, p/7, p%7
		} else {
			// weekday subsets: every subset in turn (bit d = weekday d), starting with the special ones
			special := []int{0, 1 << 6, 0x3e, 1, 0x7f, 1<<6 | 1, 1 << 1, 1<<5 | 1<<6}
			k := i - i/3 - 1
			mask := 0
			if k < len(special) {
				mask = special[k]
			} else if k%4 == 0 {
				mask = 0 // no weekday restriction: the usual daily schedule
			} else {
				mask = (k * 37) % 128
			}
			for d := 0; d < 7; d++ {
				if mask&(1<<d) != 0 {
					cfg.weekdays = append(cfg.weekdays, d)
				}
			}
			if c.Rng.Intn(3) == 0 {
				c.Rng.Shuffle(len(cfg.weekdays), func(x, y int) { cfg.weekdays[x], cfg.weekdays[y] = cfg.weekdays[y], cfg.weekdays[x] })
			}
		}
		zname := zoneOf(i)
		if c.Rng.Intn(10) == 0 {
			zname = "fixed" + strconv.Itoa(c.Rng.Intn(26*3600+1)-12*3600)
		}
		loc := loadZone(zname)
		t0 := trAnchors[c.Rng.Intn(len(trAnchors))] + int64(c.Rng.Intn(trStep))
		tEnd := t0 + int64(trCount)*trStep
		// +-2 s around every window edge in the grid span (edges located with time.Date in the zone; input generation only)
		var extras []int64
		d0 := time.Unix(t0, 0).In(loc)
		for day := -1; day <= 6*7+1; day++ {
			y, m, dd := d0.Date()
			add := func(sec int) {
				e := time.Date(y, m, dd+day, sec/3600, sec/60%60, sec%60, 0, loc).Unix()
				for _, dl := range []int64{-2, -1, 0, 1, 2} {
					if e+dl >= t0-86400 && e+dl <= tEnd+86400 {
						extras = append(extras, e+dl)
					}
				}
			}
			wd := int(time.Date(y, m, dd+day, 12, 0, 0, 0, loc).Weekday())
			if !cfg.weekly || wd == cfg.sd {
				add(cfg.start)
			}
			if !cfg.weekly || wd == cfg.ed {
				add(cfg.end)
			}
		}
		sort.Slice(extras, func(x, y int) bool { return extras[x] < extras[y] })
		ex := List{Sym("extra")}
		var last int64 = -1 << 62
		for _, e := range extras {
			if e != last {
				ex = append(ex, Int64(e))
			}
			last = e
		}
		n := trCount + len(ex) - 1
		strides := List{Sym("strides"), Int(1), Int(-1), Int(-(1 + c.Rng.Intn(n-1)))}
		if c.Tier == "thorough" {
			strides = append(strides, Int(2), Int(5), Int(85), Int(-85), Int(593), Int(1+c.Rng.Intn(n-1)), Int(1+c.Rng.Intn(200)))
		} else {
			strides = append(strides, Int([]int{2, 5, 85, -85, 593, 1779}[i%6]))
		}
		in := L(Sym("tr"), cfg.sx(), zoneSx(zname, loc, t0-40*86400, tEnd+40*86400),
			L(Sym("grid"), Int64(t0), Int(trStep), Int(trCount)), ex, strides)
		c.Pending(in); c.Emit(in, runTimerange(in))
	}
}
