// Package hx: the implementation runner of the correspondence check.
//
//	qfh <stream> -seed N -n COUNT [-tier quick|thorough] [-replay FILE] [-corpus DIR]
//
// For every case it prints one line  id \t input-sx \t observed-sx  on stdout.
// The input alone determines what the model recomputes; the observation is what the
// implementation (built from /repo's working tree with -tags verif) did.
package hx

import (
	"bufio"
	"flag"
	"fmt"
	"math/rand"
	"os"
	"sort"
	"strings"
	"time"
)

type Ctx struct {
	Rng    *rand.Rand
	N      int
	Tier   string
	Prop   string // property the run is for (generators may focus on it)
	out    *bufio.Writer
	count  int
	Replay []Sx // inputs to re-run instead of generating
}

// Pending notes the input about to be run in the file named by $QFH_PENDING, so that when the implementation dies in a
// way recover() cannot catch (stack overflow, runtime fatal error, out of memory) the check still knows the input.
func (c *Ctx) Pending(input Sx) {
	if p := os.Getenv("QFH_PENDING"); p != "" {
		_ = os.WriteFile(p, []byte(SxString(input)+"\n"), 0644)
	}
}

// Emit records one case.
func (c *Ctx) Emit(input Sx, obs Sx) {
	c.count++
	fmt.Fprintf(c.out, "%d\t%s\t%s\n", c.count, SxString(input), SxString(obs))
}

// Guard runs f under recover() and a watchdog; the outcome class is an observable (DESIGN 3.2).
func Guard(f func() Sx) (res Sx) {
	done := make(chan Sx, 1)
	go func() {
		defer func() {
			if r := recover(); r != nil {
				done <- Atom("panic")
			}
		}()
		done <- f()
	}()
	select {
	case r := <-done:
		return r
	case <-time.After(Watchdog):
		return Atom("fuel") // hang: the model's OutOfFuel
	}
}


type Stream struct {
	Gen func(c *Ctx)        // generate cases and run them
	Run func(input Sx) Sx   // run one case given its input (replay, minimisation)
}

var streams = map[string]*Stream{}

// Register adds a correspondence stream to this binary.
func Register(name string, s *Stream) { streams[name] = s }

// Watchdog is the time after which Guard reports a hang.
var Watchdog = 5 * time.Second

// Main is the entry point of every area binary.
func Main() {
	if len(os.Args) < 2 {
		names := []string{}
		for k := range streams {
			names = append(names, k)
		}
		sort.Strings(names)
		fmt.Fprintln(os.Stderr, "usage: qfh <stream> [-seed N] [-n COUNT] [-tier T] [-replay FILE]; streams:", strings.Join(names, " "))
		os.Exit(2)
	}
	name := os.Args[1]
	fs := flag.NewFlagSet(name, flag.ExitOnError)
	seed := fs.Int64("seed", 1, "PRNG seed")
	n := fs.Int("n", 100, "number of generated cases (stream-specific unit)")
	tier := fs.String("tier", "quick", "quick|thorough")
	prop := fs.String("prop", "", "property id the run is for")
	replay := fs.String("replay", "", "file of input s-expressions (one per line, or id\\tinput\\t... lines) to run instead of generating")
	fs.Parse(os.Args[2:])
	st, ok := streams[name]
	if !ok {
		fmt.Fprintln(os.Stderr, "unknown stream", name)
		os.Exit(2)
	}
	w := bufio.NewWriterSize(os.Stdout, 1<<20)
	defer w.Flush()
	c := &Ctx{Rng: rand.New(rand.NewSource(*seed)), N: *n, Tier: *tier, Prop: *prop, out: w}
	if *replay != "" {
		f, err := os.Open(*replay)
		if err != nil {
			fmt.Fprintln(os.Stderr, err)
			os.Exit(2)
		}
		sc := bufio.NewScanner(f)
		sc.Buffer(make([]byte, 1<<20), 1<<28)
		for sc.Scan() {
			line := sc.Text()
			if strings.TrimSpace(line) == "" || strings.HasPrefix(line, "#") {
				continue
			}
			parts := strings.Split(line, "\t")
			in := parts[0]
			if len(parts) >= 2 {
				in = parts[1]
			}
			x, err := ParseSx(in)
			if err != nil {
				fmt.Fprintln(os.Stderr, "bad replay line:", line)
				os.Exit(2)
			}
			c.Emit(x, st.Run(x))
		}
		return
	}
	st.Gen(c)
}
