package hx

// Minimal s-expressions shared with the OCaml model driver (ocaml/sx.ml).

import (
	"encoding/hex"
	"strconv"
	"strings"
)

type Sx interface{ write(b *strings.Builder) }

type Atom string
type List []Sx

func (a Atom) write(b *strings.Builder) { b.WriteString(string(a)) }
func (l List) write(b *strings.Builder) {
	b.WriteByte('(')
	for i, x := range l {
		if i > 0 {
			b.WriteByte(' ')
		}
		x.write(b)
	}
	b.WriteByte(')')
}

func SxString(x Sx) string {
	var b strings.Builder
	x.write(&b)
	return b.String()
}

func Sym(s string) Sx       { return Atom(s) }
func Int(n int) Sx          { return Atom(strconv.Itoa(n)) }
func Int64(n int64) Sx      { return Atom(strconv.FormatInt(n, 10)) }
func Bytes(b []byte) Sx     { return Atom("x" + hex.EncodeToString(b)) }
func Str(s string) Sx       { return Bytes([]byte(s)) }
func Bool(b bool) Sx {
	if b {
		return Atom("T")
	}
	return Atom("F")
}
func L(xs ...Sx) Sx { return List(xs) }
func Some(x Sx) Sx  { return List{Atom("some"), x} }
func None() Sx      { return Atom("none") }
func OkV(x Sx) Sx   { return List{Atom("ok"), x} }
func ErrV() Sx      { return Atom("err") }

// parsing (for replay files)
func ParseSx(s string) (Sx, error) {
	p := &sxParser{s: s}
	x, err := p.item()
	return x, err
}

type sxParser struct {
	s   string
	pos int
}

func (p *sxParser) skip() {
	for p.pos < len(p.s) && (p.s[p.pos] == ' ' || p.s[p.pos] == '\t') {
		p.pos++
	}
}

func (p *sxParser) item() (Sx, error) {
	p.skip()
	if p.pos >= len(p.s) {
		return nil, strconv.ErrSyntax
	}
	if p.s[p.pos] == '(' {
		p.pos++
		var l List
		for {
			p.skip()
			if p.pos >= len(p.s) {
				return nil, strconv.ErrSyntax
			}
			if p.s[p.pos] == ')' {
				p.pos++
				if l == nil {
					l = List{}
				}
				return l, nil
			}
			x, err := p.item()
			if err != nil {
				return nil, err
			}
			l = append(l, x)
		}
	}
	st := p.pos
	for p.pos < len(p.s) && !strings.ContainsRune(" \t()", rune(p.s[p.pos])) {
		p.pos++
	}
	return Atom(p.s[st:p.pos]), nil
}

func AtomBytes(x Sx) []byte {
	a := string(x.(Atom))
	b, err := hex.DecodeString(a[1:])
	if err != nil {
		panic(err)
	}
	return b
}
func AtomInt(x Sx) int {
	n, err := strconv.Atoi(string(x.(Atom)))
	if err != nil {
		panic(err)
	}
	return n
}
func AtomInt64(x Sx) int64 {
	n, err := strconv.ParseInt(string(x.(Atom)), 10, 64)
	if err != nil {
		panic(err)
	}
	return n
}
func AtomBool(x Sx) bool { return string(x.(Atom)) == "T" }
func AtomSym(x Sx) string { return string(x.(Atom)) }
